#!/usr/bin/env python3
"""prints the markdown table of seeded changes (from /verif/seeded/*/meta.json) for DESIGN.md §13.6"""
import json, pathlib
V = pathlib.Path(__file__).resolve().parent.parent
print("| seeded change | property | what it needs to manifest | result of the property's quick check | reported as |")
print("|---|---|---|---|---|")
for d in sorted((V / "seeded").iterdir()):
    m = d / "meta.json"
    if not m.exists():
        continue
    x = json.load(open(m))
    sig = "; ".join(s.replace("clause/signature:", "").strip() for s in (x.get("check_signatures") or [])[:2])
    needs = str(x.get("needs", "")).replace("\n", " ").replace("|", "/")
    print("| `%s` | %s | %s | %s | %s |" % (d.name, x.get("property", d.name[:3]), needs[:260] + ("..." if len(needs) > 260 else ""), x.get("check_result"), ("`%s`" % sig[:160]) if sig else ""))
