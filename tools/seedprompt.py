#!/usr/bin/env python3
"""Print the brief for a seeding sub-agent.   usage: tools/seedprompt.py <PROP> <break|benign> <worktree> <outdir>
The brief contains ONLY the text of the property, the scratch worktree, the calling convention of the demonstration, and
(for diversity) one line per change already collected for that property.  Nothing about the checks of /verif."""
import json, pathlib, sys
V = pathlib.Path(__file__).resolve().parent.parent
prop, kind, wt, out = sys.argv[1:5]
P = {json.loads(l)["id"]: json.loads(l) for l in open(V / "properties.jsonl")}[prop]
text = "%s. %s" % (P.get("title", ""), P.get("statement") or P.get("description"))
earlier = []
for d in sorted((V / "seeded").glob(prop + "-*")):
    try:
        m = json.load(open(d / "meta.json"))
        earlier.append("- %s: %s" % (d.name, (m.get("summary") or "")[:220].replace("\n", " ")))
    except Exception:
        pass
common = f"""You work in a scratch git worktree of OpenCyphal/nunavut (a DSDL-to-C/C++/Python/HTML transpiler) at {wt}.
Do NOT touch /repo and do NOT read anything under /verif except that /verif/.pydeps may be put on PYTHONPATH (it only holds numpy, needed to run generated Python code).
NEVER use `git stash` (the stash is shared by all worktrees of the repository and other agents work next to you): save `git diff > file`, `git checkout -- .`, `git apply file` instead.
There is no network.  Python: /venv/bin/python (pydsdl, pytest installed).  gcc, g++, clang are installed.  The machine is shared: wrap long commands in `timeout`, keep output short (pipe through tail).
Run the repository's test suite with
  cd {wt} && PYTHONPATH={wt}/src /venv/bin/python -m pytest -q -p no:cacheprovider --timeout=900 --continue-on-collection-errors -rf 2>&1 | tail -80
About 63 tests fail on the CLEAN tree (empty git submodules); record the sorted set of FAILED ids of the clean tree first.  Doctest ids are keyed by LINE NUMBER
(e.g. `src.nunavut.jinja.__init__::line:474,column:1`): keep your edits line-count-neutral above doctest blocks of a .py file, or put new helpers at the end of the file, so that the set of test ids does not change.

The property (the only specification you get):

  {prop}: {text}
"""
if kind == "break":
    body = f"""
Task: write ONE realistic change to the sources under {wt}/src/nunavut (Python code, Jinja templates, the C/C++/Python support files, yaml configuration) of the
kind a maintainer would plausibly make while tidying, optimising or adding a small feature, that BREAKS the property above while
  (a) the package still imports and generation still works for ordinary inputs,
  (b) the test suite gives exactly the same set of passing and failing test ids as the clean tree,
  (c) the breakage needs something specific to manifest: a particular option combination, an unusual but valid input shape, a size/width boundary,
      a particular history of runs or calls in one process, a path spelling, two cooperating sites that each look fine alone.  NOT something every ordinary use shows at once.
Prefer a mechanism, file and trigger different from these already collected changes:
{chr(10).join(earlier) or '- (none)'}

Deliver in {out}/<short-kebab-name>/ :
  patch.diff  - `git -C {wt} diff` of your change (must apply with `git apply` to a clean checkout of the worktree's HEAD)
  demo.py     - self-contained demonstration, called as `cd /tmp && PYTHONPATH=<tree>/src:/verif/.pydeps /venv/bin/python demo.py <tree>`;
                it must exit 0 (printing why the property holds) on the clean tree and exit 1 (printing what is broken) on the patched tree; it imports nunavut from <tree>/src,
                works in a tempfile.mkdtemp() folder that it removes, and needs nothing else.  An exit code of 1 must be the demo's verdict, not a crash.
  meta.json   - {{"property": "{prop}", "name": ..., "summary": what was changed and why it breaks the property, "needs": what it needs in order to manifest,
                "files_touched": [...], "how_verified": the exact commands you ran and their results (tests clean vs patched, demo clean vs patched)}}
Verify everything yourself (tests on clean and patched tree with identical id sets, demo 0 / 1), then leave the worktree CLEAN (`git -C {wt} checkout -- . && git -C {wt} status --short` empty).
Reply with a five-line summary: name, files touched, trigger, test result, demo result.
"""
else:
    body = f"""
Task: write ONE realistic change to the sources under {wt}/src/nunavut (Python code, Jinja templates, the C/C++/Python support files, yaml configuration) of the
kind a maintainer would plausibly make - a refactoring, a renamed or split private helper, a performance tweak, a re-laid-out template, other whitespace or comments in generated
code, another (still valid) spelling chosen where the property leaves the choice open, an added option with a neutral default, reordered internal steps, a changed error message -
that touches the code this property depends on and VISIBLY changes the implementation (and, if you like, the generated text), but under which the property above STILL HOLDS in full.
It must be non-trivial (not a comment-only change in Python code): a verification tool that over-fits the current implementation (internal function names, exact generated text, exact
error wording, exact intermediate values) should be at risk of raising a false alarm on it, while a tool that checks only what the property states stays silent.
  (a) the package still imports and generation works,
  (b) the test suite gives exactly the same set of passing and failing test ids as the clean tree,
  (c) the property still holds - argue why, and show it.

Deliver in {out}/<short-kebab-name>/ :
  patch.diff  - `git -C {wt} diff` of your change (must apply with `git apply` to a clean checkout of the worktree's HEAD)
  demo.py     - self-contained demonstration that the property holds, called as `cd /tmp && PYTHONPATH=<tree>/src:/verif/.pydeps /venv/bin/python demo.py <tree>`;
                exits 0 on the clean tree AND on the patched tree (it exercises the property around your change: the more thoroughly the better); works in a tempfile.mkdtemp() it removes.
  meta.json   - {{"property": "{prop}", "name": ..., "kind": "benign", "summary": what was changed, "why_property_holds": the argument,
                "files_touched": [...], "how_verified": the exact commands you ran and their results}}
Verify everything yourself, then leave the worktree CLEAN (`git -C {wt} checkout -- . && git -C {wt} status --short` empty).
Reply with a five-line summary: name, files touched, what a brittle checker might trip over, test result, demo result.
"""
print(common + body)
