#!/bin/sh
# benigntake.sh <PROP>  -- copy the finished benign change(s) of /tmp/seed/outB-<PROP> to /verif/benign, drop the agent's worktree, run the check on them
P="$1"
for d in /tmp/seed/outB-$P/*/; do n=$(basename "$d"); [ -f "$d/patch.diff" ] && rm -rf /verif/benign/$P-$n && cp -r "$d" /verif/benign/$P-$n; done
git -C /repo worktree remove --force /tmp/seed/wtB-$P 2>/dev/null
mkdir -p /tmp/st; cd /verif && nohup python3 tools/benignall.py $P > /tmp/st/ben-$P.log 2>&1 &
