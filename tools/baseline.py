#!/usr/bin/env python3
"""Run the repository's pinned test-suite (guard OFF) and compare with /root/.vp/BASELINE.json: every stable_pass test must pass."""
import json, os, subprocess, sys, tempfile, xml.etree.ElementTree as ET
base = json.load(open("/root/.vp/BASELINE.json"))
env = dict(os.environ); env.pop("NUNAVUT_VERIF", None); env.pop("PYTHONPATH", None)
with tempfile.TemporaryDirectory() as d:
    x = os.path.join(d, "j.xml")
    cmd = base["cmd"].replace("<file>", x)
    subprocess.run(cmd, shell=True, env=env, stdout=subprocess.DEVNULL, stderr=subprocess.DEVNULL)
    passed = set()
    for tc in ET.parse(x).getroot().iter("testcase"):
        if not any(c.tag in ("failure", "error", "skipped") for c in tc):
            passed.add("%s::%s" % (tc.get("classname"), tc.get("name")))
missing = sorted(set(base["stable_pass"]) - passed)
print("baseline: %d/%d stable tests pass; %d missing" % (len(set(base["stable_pass"]) & passed), len(base["stable_pass"]), len(missing)))
for m in missing[:40]:
    print("  NOT PASSING:", m)
sys.exit(1 if missing else 0)
