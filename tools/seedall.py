#!/usr/bin/env python3
"""Re-run every seeded change under /verif/seeded against the check of its property (scratch worktree of /repo HEAD, VERIF_REPO) and
refresh meta.json: check_result (caught | missed | machinery-failure | neutralized | does-not-apply), check_signatures, checked_at_repo.
usage: tools/seedall.py [PROP | PROP-seedname ...]   (several instances may run side by side on disjoint arguments)"""
import json, os, pathlib, subprocess, sys
V = pathlib.Path(__file__).resolve().parent.parent
claimed = {c["property_id"] for c in json.load(open(V / "MANIFEST.json"))["checks"]}
only = set(sys.argv[1:])
head = subprocess.check_output(["git", "-C", "/repo", "log", "--format=%h", "-1"], text=True).strip()
rows = []
for d in sorted((V / "seeded").iterdir()):
    if not (d / "patch.diff").exists():
        continue
    meta = json.load(open(d / "meta.json"))
    prop = meta.get("property") or d.name.split("-")[0]
    if only and prop not in only and d.name not in only:
        continue
    wt = "/tmp/st/wt-all-%d" % os.getpid()
    subprocess.run(["git", "-C", "/repo", "worktree", "remove", "--force", wt], capture_output=True)
    subprocess.run(["git", "-C", "/repo", "worktree", "add", "-q", "--detach", wt, "HEAD"], check=True)
    res, sigs = None, []
    try:
        if subprocess.run(["git", "-C", wt, "apply", str(d / "patch.diff")], capture_output=True).returncode != 0:
            res = "does-not-apply"
        else:
            env = dict(os.environ, PYTHONPATH="%s/src:%s/.pydeps" % (wt, V))
            demo = subprocess.run(["/venv/bin/python", str(d / "demo.py"), wt], cwd="/tmp", env=env, capture_output=True, text=True, timeout=1800).returncode if (d / "demo.py").exists() else None
            if demo == 0:
                res = "neutralized"  # the change no longer breaks the property on the current tree (a later fix closed the mechanism)
            elif prop not in claimed:
                res = "no-check-yet"
            else:
                p = subprocess.run(["./check", prop, "--tier", "quick"], cwd=str(V), env=dict(os.environ, VERIF_REPO=wt), capture_output=True, text=True, timeout=3600)
                sigs = [ln.strip() for ln in p.stdout.splitlines() if "clause/signature:" in ln][:5]
                res = "caught" if p.returncode == 1 and "VIOLATION property=%s" % prop in p.stdout else "missed" if p.returncode == 0 else "machinery-failure"
            meta["demo_exit_on_patched"] = demo
    finally:
        subprocess.run(["git", "-C", "/repo", "worktree", "remove", "--force", wt], capture_output=True)
    meta.update(check_result=res, check_signatures=sigs, checked_at_repo=head)
    json.dump(meta, open(d / "meta.json", "w"), indent=1)
    rows.append((d.name, res))
    print("%-48s %s" % (d.name, res), flush=True)
