#!/usr/bin/env python3
"""Run the quick check of its property on every property-PRESERVING change under /verif/benign (scratch worktree of /repo HEAD, VERIF_REPO) and
record in meta.json: check_result = silent (exit 0, no VIOLATION) | false-alarm (VIOLATION printed / exit 1) | machinery-failure (exit 2) |
does-not-apply | demo-fails (the change's own demonstration says the property is broken: not benign).
usage: tools/benignall.py [PROP | PROP-name ...]"""
import json, os, pathlib, subprocess, sys
V = pathlib.Path(__file__).resolve().parent.parent
args = sys.argv[1:]
extra = []
if "--props" in args:          # tools/benignall.py NAME --props C02 C04 : run these checks (instead of the change's own property) on the change
    i = args.index("--props")
    extra, args = args[i + 1:], args[:i]
only = set(args)
head = subprocess.check_output(["git", "-C", "/repo", "log", "--format=%h", "-1"], text=True).strip()
for d in sorted((V / "benign").iterdir()):
    if not (d / "patch.diff").exists():
        continue
    meta = json.load(open(d / "meta.json"))
    prop = meta.get("property") or d.name.split("-")[0]
    if only and prop not in only and d.name not in only:
        continue
    wt = "/tmp/st/wt-ben-%d" % os.getpid()
    os.makedirs("/tmp/st", exist_ok=True)
    subprocess.run(["git", "-C", "/repo", "worktree", "remove", "--force", wt], capture_output=True)
    subprocess.run(["git", "-C", "/repo", "worktree", "add", "-q", "--detach", wt, "HEAD"], check=True)
    res, lines = None, []
    try:
        if subprocess.run(["git", "-C", wt, "apply", str(d / "patch.diff")], capture_output=True).returncode != 0:
            res = "does-not-apply"
        else:
            env = dict(os.environ, PYTHONPATH="%s/src:%s/.pydeps" % (wt, V))
            demo = subprocess.run(["/venv/bin/python", str(d / "demo.py"), wt], cwd="/tmp", env=env, capture_output=True, text=True, timeout=1800).returncode if (d / "demo.py").exists() else None
            meta["demo_exit_on_patched"] = demo
            if demo not in (0, None):
                res = "demo-fails"
            else:
                results = {}
                for q in (extra or [prop]):
                    p = subprocess.run(["./check", q, "--tier", "quick"], cwd=str(V), env=dict(os.environ, VERIF_REPO=wt), capture_output=True, text=True, timeout=3600)
                    lines += [q + ": " + ln.strip()[:300] for ln in p.stdout.splitlines() if "clause/signature:" in ln or ln.startswith(("MACHINERY", "NOTE model-drift"))][:8]
                    results[q] = "silent" if p.returncode == 0 and "VIOLATION" not in p.stdout else "false-alarm" if p.returncode == 1 or "VIOLATION" in p.stdout else "machinery-failure"
                    if results[q] != "silent":
                        (pathlib.Path("/tmp/st") / (d.name + "." + q + ".benign.log")).write_text(p.stdout[-20000:] + p.stderr[-5000:])
                meta.setdefault("check_results", {}).update(results)
                res = results.get(prop) or meta.get("check_result")
                print("   ", d.name, results, flush=True)
    finally:
        subprocess.run(["git", "-C", "/repo", "worktree", "remove", "--force", wt], capture_output=True)
    meta.update(check_result=res, check_lines=lines, checked_at_repo=head)
    json.dump(meta, open(d / "meta.json", "w"), indent=1)
    print("%-48s %s" % (d.name, res), flush=True)
