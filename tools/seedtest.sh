#!/bin/sh
# seedtest.sh <PROPERTY> <dir with patch.diff [demo.py]> [tier]   -- apply a seeded change in a scratch worktree and run the check on it
P="$1"; D="$(cd "$2" && pwd)"; TIER="${3:-quick}"
WT=/tmp/st/wt-$$; mkdir -p /tmp/st
git -C /repo worktree add -q --detach "$WT" HEAD || exit 2
if ! git -C "$WT" apply "$D/patch.diff" 2>/dev/null; then
  if ! git -C "$WT" apply -3 "$D/patch.diff"; then echo "PATCH DOES NOT APPLY"; git -C /repo worktree remove --force "$WT"; exit 3; fi
fi
if [ -f "$D/demo.py" ] && [ -z "$NODEMO" ]; then
  ( cd /tmp && PYTHONPATH="$WT/src:/verif/.pydeps" /venv/bin/python "$D/demo.py" "$WT" >/tmp/st/demo.$$ 2>&1 ); echo "demo on patched tree: exit $? (expect 1)"
  ( cd /tmp && PYTHONPATH="/repo/src:/verif/.pydeps" /venv/bin/python "$D/demo.py" /repo >/tmp/st/demo0.$$ 2>&1 ); echo "demo on /repo: exit $? (expect 0)"
  rm -f /tmp/st/demo.$$ /tmp/st/demo0.$$
fi
cd /verif && VERIF_REPO="$WT" ./check "$P" --tier "$TIER" > /tmp/st/out.$$ 2>&1; RC=$?
grep -c "^VIOLATION" /tmp/st/out.$$ | sed 's/^/VIOLATION lines: /'
grep -A2 "^VIOLATION\|MACHINERY" /tmp/st/out.$$ | head -${LINES_OUT:-12}
tail -1 /tmp/st/out.$$
echo "check exit: $RC"
rm -f /tmp/st/out.$$
git -C /repo worktree remove --force "$WT"
