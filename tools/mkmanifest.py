#!/usr/bin/env python3
"""Regenerates MANIFEST.json from the table below (one source of truth for what is claimed)."""
import json, pathlib
V = pathlib.Path(__file__).resolve().parent.parent
TB = "TLC 1.8 and the TLA+ modules under specs/ (the model is the oracle); PyDSDL as the front end; "
CHECKS = {
 "C15": dict(
  cat="model_checking", ref="DESIGN.md §6 C15",
  technique="TLA+ refinement (chunk-loop I-layer => LinePP!Whole) checked exhaustively by TLC; model terminal states replayed into the real loop; recorded executions validated by a TLA+ trace spec",
  text="TLC checks exhaustively that the implementation-shaped chunk machine refines the property definition Whole(text, processors) for every text of length <=5 (thorough 6) over {x, space, CR, LF}, every chunking (incl. empty chunks and cuts inside CRLF) and 11 processor lists; every terminal state is replayed through the real _generate_with_line_buffer, and thousands of longer/unicode executions of the real code (protected loop and public generate_all path) are judged by the trace spec. Bounded-exhaustive for the design, sampled for long texts.",
  note=TB + "Python re \\s equals LinePP!WS (self-checked); chunk boundaries of the public path are those of a for-loop template."),
}
NOT_YET = {}
props = [json.loads(l) for l in open(V / "properties.jsonl")]
checks, na = [], []
for p in props:
    pid = p["id"]
    if pid in CHECKS:
        c = CHECKS[pid]
        checks.append({
            "property_id": pid,
            "quick_cmd": "./check %s --tier quick" % pid,
            "thorough_cmd": "./check %s --tier thorough" % pid,
            "evidence_file": "/verif/evidence/%s.json" % pid,
            "replay_cmd_template": "./check %s --replay {path}" % pid,
            "engine": "tlc",
            "level_claimed": {"category": c["cat"], "text": c["text"], "design_ref": c["ref"]},
            "level_note": c["note"],
            "technique": c["technique"],
        })
    else:
        na.append({"property_id": pid, "reason": NOT_YET.get(pid, "check not built yet in this round (planned, see DESIGN.md §6/§12); not claimed until its TLA+ model and conformance harness exist")})
m = {
 "version": 1,
 "setup_cmd": "./setup.sh",
 "hooks": {
  "guard": "NUNAVUT_VERIF",
  "enable": "export NUNAVUT_VERIF=1 (done by ./check); no hook commit exists so far: all observation goes through public extension points and harness objects",
  "baseline_off_cmd": "python3 /verif/tools/baseline.py",
  "source_commits": [],
  "add_only": True,
 },
 "engines": [{"name": "tlc", "path": "/verif/vf/tlc.py", "serves_properties": sorted(CHECKS), "kind_free_text": "TLC 1.8 explicit-state model checker on TLA+ specs in /verif/specs: exhaustive bounded design check, case emission (spec->code), batched trace validation (code->spec)"}],
 "checks": checks,
 "not_applicable": na,
 "notes": "Verdict policy in DESIGN.md §3: only the property-level (P) spec decides VIOLATION; implementation drift is a note; exit 2 = machinery failure. known_findings.json lists recorded defects and fixed ones.",
}
(V / "MANIFEST.json").write_text(json.dumps(m, indent=1) + "\n")
print("checks:", [c["property_id"] for c in checks], "not claimed:", len(na))
