#!/usr/bin/env python3
"""Regenerates MANIFEST.json from the table below (one source of truth for what is claimed)."""
import json, pathlib
V = pathlib.Path(__file__).resolve().parent.parent
TB = "TLC 1.8 and the TLA+ modules under specs/ (the model is the oracle); PyDSDL as the front end; "
CHECKS = {
 "C15": dict(
  cat="model_checking", ref="DESIGN.md §6 C15",
  technique="TLA+ refinement (chunk-loop I-layer => LinePP!Whole) checked exhaustively by TLC; model terminal states replayed into the real loop; recorded executions validated by a TLA+ trace spec",
  text="TLC checks exhaustively that the implementation-shaped chunk machine refines the property definition Whole(text, processors) for every text of length <=5 (thorough 6) over {x, space, CR, LF}, every chunking (incl. empty chunks and cuts inside CRLF) and 11 processor lists; every terminal state is replayed through the real _generate_with_line_buffer, and thousands of longer/unicode executions of the real code (protected loop and public generate_all path) are judged by the trace spec. Bounded-exhaustive for the design, sampled for long texts.",
  note=TB + "Python re \\s equals LinePP!WS (self-checked); chunk boundaries of the public path are those of a for-loop template."),
}

WIRE = TB + "gcc/g++ (clang for sanitizer builds) on little-endian x86-64; the generated driver glue (vf/harness_c*.py, harness_py.py); float narrowing accepted when faithful."
CHECKS.update({
 "C01": dict(cat="model_checking", ref="DESIGN.md §6 C01",
  technique="explicit TLA+ wire-format spec (DsdlWire/Ieee/Bits) as oracle; TLC design theorems (WireDesign); trace validation of recorded calls of generated C/C++/Python serializers (CodecTrace)",
  text="The DSDL wire format is an explicit TLA+ specification; TLC checks its design theorems exhaustively over a bounded type/value universe, and every serialization call recorded from generated C (3 option sets), C++ (4 standards/option sets) and Python code - enumerated small universe plus seeded random types x boundary, random, out-of-range and invalid values - is validated by TLC against Ser(t, v). Exhaustive only for the bounded universe; sampled beyond.",
  note=WIRE),
 "C02": dict(cat="model_checking", ref="DESIGN.md §6 C02",
  technique="TLA+ Des operator (zero extension, truncation, delimiter bounds, error kinds) as oracle; TLC theorems ZeroExtension/Truncation; trace validation of recorded deserializer calls",
  text="Des(t, bytes) is specified in TLA+ (implicit zero extension/truncation, sign extension, delimiter headers bounding nested objects, error kinds, consumed size). TLC proves the zero-extension/truncation theorems on the bounded universe and validates every recorded deserialization of valid, truncated, extended, bit-flipped, random, empty and NULL inputs on all targets.",
  note=WIRE),
 "C03": dict(cat="model_checking", ref="DESIGN.md §6 C03",
  technique="TLA+ trace spec with a history variable holding the first outcome per stimulus (oracle-free cross-target/option agreement) + decode/re-encode chains judged by Ser o Des; TLC RoundTrip theorem",
  text="One shared list of values and byte strings goes through the full product of targets and option sets; the TLA+ trace spec keeps the first outcome of each stimulus and rejects any later disagreement (this clause does not consult the wire model), and judges decode->re-encode chains with Ser(Des(b)). The RoundTrip theorem is model-checked on the bounded universe.",
  note=WIRE),
 "C04": dict(cat="model_checking", ref="DESIGN.md §6 C04, §7",
  technique="trace validation of call/return histories recorded under ASan/UBSan/LSan: every call returns with a documented code; TLA+ history variable enforces prior-state independence (fresh/poisoned/reused destination)",
  text="TLA+ decides totality (every call returns), documented error codes, rejection of invalid objects and prior-state independence (same bytes decoded into fresh, poisoned and reused objects must agree) on traces recorded from sanitizer builds with exact-size heap buffers. Memory safety itself is observed by the sanitizer runtimes, not decided by the model: a report is a call without return, which the trace spec rejects.",
  note=WIRE + " clang 14 ASan/UBSan/LSan."),
 "C05": dict(cat="model_checking", ref="DESIGN.md §6 C05",
  technique="TLA+ size arithmetic (MaxBits/BufBytes/Extent) as oracle for exported constants; TLC SizeBounds theorem; trace validation of meta records and of serializations into buffers of size need-1/need/need+1/0",
  text="Extent and buffer-size constants exported by generated C, C++ and Python are compared by TLC with the size arithmetic of the TLA+ wire spec for every type of the universe; serializations into too-small / exact / larger buffers are validated (refusal iff too small, guard bytes intact). Constants, names and port-IDs are not covered yet (stated in evidence).",
  note=WIRE),
 "C16": dict(cat="model_checking", ref="DESIGN.md §6 C16",
  technique="TLA+/TLC exhaustive model of template lookup (BFS + cache) and of the environment registry; I=>P refinement; TLC-emitted histories replayed on the real loader; trace validation of real-hierarchy runs",
  text="Lookup over all subset pairs and histories <= 3 of 5/6-class hierarchies is exhaustive in the model and fully replayed on the real DSDLTemplateLoader; the real 32-class PyDSDL hierarchy, all instance tests/aliases and all environment additions are enumerated over all real names and sampled for combinations, every record judged by the TLA+ trace spec.",
  note=TB + "Python's __bases__ as the class relation, PyDSDL as the instance source."),
})

CHECKS.update({
 "C14": dict(cat="model_checking", ref="DESIGN.md §6 C14, §7",
  technique="TLA+ refinement: byte-wise CopyBits/GetBits state machine = pointwise contract, exhaustive in TLC; trace validation of C/C++/Python primitive calls incl. all 65536 halves and boundary float32 patterns (Ieee faithful relation)",
  text="TLC checks exhaustively (offsets 0..9/15, lengths 0..17/20, 3-symbol buffers) that the implementation-shaped byte-wise algorithm equals the pointwise bit contract; grids of real calls of every primitive in C (any, little), C++ (bitspan) and Python (Serializer/Deserializer) - offsets 0..23, lengths 0..80, sizes need-1/need/need+1/0 with guard bytes, all 65536 halves, every float32 exponent x rounding boundary + random, monotonicity - are validated by the trace spec. The 2^32 float sweep of the property text is replaced by the structured subset (stated in DESIGN §7).",
  note=TB + "gcc/g++ (+clang ASan in thorough) on little-endian x86-64; driver glue in vf/harness_prims.py."),
})

CHECKS.update({
 "C20": dict(cat="model_checking", ref="DESIGN.md §6 C20",
  technique="TLA+ push-down acceptor as oracle; I=>P refinement (escape + character-level lexer; namespace-tree link model) checked by TLC; TLC-enumerated payloads and shapes replayed through the real generator; per-page token traces validated by a TLA+ trace spec",
  text="TLC checks exhaustively that the acceptor accepts exactly the well-formed token strings <=5 (thorough 6) over 14 tokens, and that the implementation-shaped render->escape->lex and namespace-tree/link models refine it for all 820 payloads of <=3 special tokens and 1536 type-graph shapes. Every enumerated payload and shape is generated by the real html target, and every page's token stream is judged by the TLA+ trace spec with link resolution over all pages of a run. Bounded-exhaustive for the design, sampled for larger universes.",
  note=TB + "Python 3.12 html.parser is the tokenizer (optional end tags are not inferred); a directory URL means its index.html."),
})

CHECKS.update({
 "C09": dict(cat="model_checking", ref="DESIGN.md §6 C09",
  technique="TLA+ refinement I=>P (TLC, bounded-exhaustive) over live configuration data + behaviour replay into filter_id + trace validation of recorded questions (regex matcher written in the spec, cross-checked against Python re per record)",
  text="The stropping pipeline and the C/C++ failure handlers are modelled stage by stage in TLA+ over configuration data read from the live Language objects. TLC checks I=>P exhaustively for all strings up to 3 (thorough 4) characters over a 15-symbol alphabet x 6 categories x 24 configurations (defaults and 21 overrides); every model state is replayed into the real filter_id and every recorded question (reserved words x 18 variants, unicode pool, 12k-160k random strings) is judged by the P-layer, with four ways of re-asking for determinism (cache hit, after eviction, fresh object, second process with another hash seed). Unbounded strings and arbitrary Unicode are sampled.",
  note=TB + "the interpreter's Unicode tables and keyword.kwlist; public configuration getters of Language."),
 "C11": dict(cat="model_checking", ref="DESIGN.md §6 C11",
  technique="explicit TLA+ namespace-tree model (TLC exhaustive I=>P over type lists, caller orders and set-iteration orders) + bidirectional conformance (model terminal states replayed through build_namespace_tree and the generators; recorded projections trace-validated by TLC)",
  text="TLC exhaustively checks that the step-level model of build_namespace_tree / generate_all satisfies the one-to-one / tree property for all bounded type lists (names {a, if, _if}, depth <=3-4, <=3-4 types, two versions), caller orders and set-iteration orders, with prefix, suffix and no stropping. Every model case and 3k-30k larger random cases (4 languages x extension/stem overrides x 8 output-directory spellings x API/CLI x 16 hash seeds) are executed on the real code and their recorded projections are judged by the same TLA+ property.",
  note=TB + "Language.filter_id(., 'path') taken as the documented stropping (its correctness is C09); include paths parsed from generated text; file-system snapshots of an enclosing sandbox."),
})

CHECKS.update({
 "C18": dict(cat="model_checking", ref="DESIGN.md §6 C18",
  technique="TLA+ P/I model of the generated data-object contract checked exhaustively by TLC; TLC-emitted histories replayed on generated classes; recorded constructor/assign/model/round-trip events validated against the TLA+ trace spec",
  text="TLC exhaustively checks that the implementation-shaped model of the generated constructors/setters (base.j2: __init__ loop, validate -> store -> clear other options, the three array-assignment paths) refines the data-object contract for 3-field structs/unions over all candidate classes and histories <=3 (4 thorough); every emitted history is replayed on 96 generated classes; recorded constructor/assign/_MODEL_/to_builtin round-trip events of seeded random types are validated by the trace spec. Array-element range is recorded as ambiguous, not asserted.",
  note=TB + "numpy 2.5.3; the Python concretization of candidate classes; value spaces wider than the boundaries are sampled."),
})

CHECKS.update({
 "C13": dict(cat="model_checking", ref="DESIGN.md §6 C13",
  technique="TLA+ model of deep_update on an explicit object heap (aliasing visible) + builder/context histories, I=>P by TLC with negative controls (shallow copy, deepcopy); TLC-emitted histories replayed on the real deep_update / LanguageConfig / LanguageContextBuilder / CLI; recorded histories trace-validated",
  text="Precedence, default-marker, deep-union, documents-unmodified and contexts-stable clauses are TLA+ operators; the implementation-shaped model runs deep_update step by step on an object heap so that aliasing between source documents, the merged configuration and other builders is a state property. TLC explores all (built-in, <=2 files in both orders, override) combinations over nested maps of depth <=3 and builder sequences <=3 (copy modes shallow and deepcopy are refuted, rebuild passes); emitted and random histories are replayed through the real API, YAML files and CLI and validated by the trace spec. Same-builder reuse and explicit options inside a c++NN-pmr group are recorded as ambiguous.",
  note=TB + "PyYAML as the document loader."),
 "C19": dict(cat="exploration", ref="DESIGN.md §6 C19, §7",
  technique="TLC-enumerated template grammar -> differential rendering (bundled engine vs stock Jinja2 3.1.6) -> TLA+ trace validation; TLC refinement check of the lineprefix / use-query semantics",
  text="Bounded-exhaustive differential testing: TLC enumerates every template of a frozen grammar of the stable Jinja2 core (lexer-, structure- and expression-centred families); each is rendered by the bundled engine and by stock Jinja2 3.1.6 under all whitespace settings, and a TLA+ trace spec judges 'same output or both fail'. The semantics of the auto-indent marker, assert and ifuses are TLA+ operators: do_lineprefix and the UseQuery parse loop are model-checked against them and renderings of all placements/chains are validated. Jinja2 itself is not modelled.",
  note="Stock Jinja2 3.1.6 is the executable reference; TLC and the JinjaRel* specs; the grammar is frozen to productions where 2.11.dev and 3.1.6 agree (skew register in vf/props/c19.py)."),
})

CHECKS.update({
 "C10": dict(cat="model_checking", ref="DESIGN.md §6 C10",
  technique="TLA+ model of the generator's cross-file state (name generator, limiter counter, Jinja constant folding and import cache, memoized dependency builder with PyDSDL's equality key); TLC refinement with four negative controls; predicted-defect and enumerated histories replayed; recorded genfile events trace-validated",
  text="I=>P is exhaustive over bounded subsets / processing orders / reuse histories (3-4 types, <=3 runs, fresh or reused LanguageContext and generator, new process); every violating history of the four negative controls and 7k-75k histories of the repaired model are replayed through the real generator, and every file written in ~600 (quick) / 5k (thorough) multi-run single-interpreter scenarios (whole namespace vs closed subsets vs permuted order vs reused objects vs edited definitions, c/cpp/py/html, built-in and user templates, line post-processors on/off) is judged by the P-layer memo: two files for the same (type, templates, options) must be identical.",
  note=TB + "passive harness post-processors; gzip clock frozen and one directory per scenario (those are C07's variables). Not exercised: the nnvg CLI, namespace and support files."),
})

CHECKS.update({
 "C07": dict(cat="model_checking", ref="DESIGN.md §6 C07",
  technique="explicit-state model checking of a two-run information-flow model of the generator (every set-iteration permutation x ambient pair; named gates where ambient state can reach content) + replay of every flow witness through the real CLI + TLC trace validation of recorded generator runs under really varied clock, hash seed, process, cwd and location",
  text="TLC explores the bounded generator design (<=3-4 types, <=3 nested namespaces, 4 targets, 8 ambient pairs, all iteration orders) exhaustively and reports which ambient-to-content flows exist; each witness is replayed against the real CLI under the two ambient states or 5-9 hash seeds; hundreds (thorough: thousands) of real runs - 4 targets, 34 option sets, subprocess / long-lived worker / in-process, patched clock + TZ, hash seeds, cwd, three absolute locations of different length - are judged by the same P-layer (first[inputs, options] must equal every later run). A campaign with auditing enabled may differ and is accepted.",
  note=TB + "sha256; the launcher's clock patch (self-tested); one Python 3.12, one PyDSDL, one platform (locale, umask, Python version not varied)."),
})

CHECKS.update({
 "C12": dict(cat="model_checking", ref="DESIGN.md §6 C12",
  technique="TLA+ model of the output directory under run histories (four actions per file: overwrite gate, open/truncate, write, set mode; exhaustive I=>P, closed over unbounded histories) + behaviour replay through the nnvg CLI as an unprivileged uid + trace validation of every observed step",
  text="TLC proves for the bounded implementation-shaped model (3 files incl. a copied support file, modes {444,644}, ~85 option sets, foreign / chmod / remove environment actions) that every run end satisfies the property, with three negative controls refuted; all 2-run (thorough: 3-run) histories and hundreds to thousands of simulated and random 3-9 step histories are replayed into one directory through nunavut.cli.main() in forked processes running as uid 65534 (root ignores read-only bits) and through real subprocesses, the (sha256, st_mode) snapshot after every step compared with the model and judged by the trace spec.",
  note=TB + "fresh reference = same invocation into an empty directory; harness-injected copied support resource; files owned by the caller, umask 022, tree quiescent (the check exits 2 if the tree changes during a run)."),
})

CHECKS.update({
 "C08": dict(cat="model_checking", ref="DESIGN.md §6 C08",
  technique="TLA+ model of the runner's four modes, checked with TLC (I=>P over the option product x mode interleavings x input perturbation, three negative controls); every emitted combination and seeded random namespace sets executed against the real CLI and validated as traces by the P-layer; input influence established metamorphically",
  text="TLC exhausts the bounded runner design (4 languages x generate-support x omit x namespace-types x templates x support-templates x lookup x extension x stem = 2048 combinations, all interleavings of list-outputs / list-inputs / dry-run / run) against the three clauses; every option combination (quick: a spec-defined subset of 512, thorough: all 2048) plus 40-400 random namespace sets with random options is executed through `python -m nunavut` in scratch trees with whole-tree snapshots (type, size, mtime_ns, mode, sha256) before/after, and the recorded histories are accepted or rejected by the TLA+ property layer alone. inputs_cover is metamorphic testing: one edit per candidate input, influence counted only when baseline and perturbed runs are each stable.",
  note=TB + "the snapshot sees all effects inside the scratch tree; templates included without the .j2 suffix (html assets) are recorded as ambiguous."),
})

CHECKS.update({
 "C17": dict(cat="model_checking", ref="DESIGN.md §6 C17",
  technique="TLA+ design model of the option guard (one constant per option in the support header, one assertion per option in every type header; CRC-32 written out in TLA+ and anchored to known values) checked by TLC; TLC-enumerated option pairs replayed through the real generator and compiler; every build validated as a trace by TLC",
  text="P: Compile(a, b) succeeds iff Expand(a) = Expand(b) (std shorthands expanded) and a failing build names the language-option mismatch in every included type header. TLC checks Refines / Iff / NamesExactly / Injective (no CRC-32 collision among the 35 documented string values) for all 48 C option vectors and the 14 documented C++ families with single and double changes (1-bit-hash negative control refuted); ~900-1250 enumerated pairs plus simulated multi-option pairs and 100-1000 random pairs (undocumented, unicode, near-identical strings; one side generated by the CLI) are generated for 8 DSDL types and compiled together with gcc/g++ (clang in thorough), every compile record judged by the trace spec.",
  note=TB + "gcc 12 / clang 14 evaluating static assertions under -fsyntax-only; stand-in CETL headers; 'documented values' = properties.yaml plus the CLI choices."),
})
CHECKS.update({
 "C06": dict(cat="exploration", ref="DESIGN.md §6 C06, §13.3",
  technique="TLA+ model of generation and include closure (Includes.tla: worlds of types over two roots, Generate(root, omit) in any order, invariants Closure / SelfSufficient, support policy observed from the real generator, three negative controls) checked by TLC; TLC-enumerated worlds and the TLC-enumerated name universe (IncludesNames.tla: position x class of name x word x kind of host type) are materialised as DSDL trees and put through the real generator and real compilers / the interpreter; every recorded begin/gen/refs/compile event is judged by the trace spec IncludesTrace.tla",
  text="The include-closure clause (no produced file refers to a file generation does not produce) is model-checked for every world of the bounded model and every recorded run is validated against it. 'Compiles without diagnostics' is a fact only a compiler establishes: the spec states it as an event postcondition and TLC enumerates the inputs, so this clause is bounded-exhaustive exploration, not model checking: every generated header is compiled alone (C11 gcc+clang, inside a C++ TU, C++14/17/20 g++ and clang++, plus a TU expanding the header's own macros) with the flag set read from verification/cmake/compiler_flag_sets/common.cmake, every Python module imported alone with warnings as errors, for c, cpp (4 standards) and py with support enabled and omitted; plus seeded random larger namespace sets and every DSDL tree shipped in the repository.",
  note=TB + "gcc 12 / clang 14 as the compilers; names drawn from keyword / reserved-pattern / builtin lists of each language (the thorough tier adds non-macro library names); two recorded known findings (C++ standard-library macro names unstropped; -Wnested-anon-types for C unions inside a C++ TU)."),
})

# ---- round 2 of the build (DESIGN.md section 14): what was added to the checks above
SYS = (" The run is also a state machine over the file system (specs/NnvgRun*.tla, I=>P by TLC with six negative controls): every generator run of the repository's own "
       "415-test suite (recorded through an audit hook and wrappers of the public entry points, no change to the repository) and of a CLI/API driver (all run modes x "
       "--no-overwrite x --file-mode x support options x output directory spelled absolute / relative / with .. / through a symlink) is validated by the trace spec for this property's sys.* clauses.")
AMEND = {
 "C04": dict(technique="; Apalache inductive invariants over unbounded integers for the cursor machines' memory argument (CursorInd / CursorIndSer, each with a refuted negative control)",
             text=" For buffers and nesting of ANY size the memory argument of the decoder frames (clamped nested-call pointer) and of the encoder (single up-front capacity check) is an inductive invariant checked by Apalache; the raw-cursor and compiled-out-check variants are refuted."),
 "C14": dict(technique="; TLA+ proof system (tlapm) for the integer operators on all naturals (ArithLemmas, 33 obligations); explicit object machine of the Python Serializer/Deserializer (PySupport: call histories, forks, every fragmentation) with I=>P, behaviour replay and history trace validation",
             text=" SatBits / PadUp / bits2bytes are proved for all naturals with the TLA+ proof system. The Python support library's Serializer and Deserializer are specified as objects with a history (cursor, shared buffer, forks, fragmented input): TLC checks the implementation-shaped machine against the contract for all call sequences up to 4 calls and all fragmentations of inputs up to 2-4 bytes, replays thousands of model behaviours on the real objects and validates recorded random histories of 20-60 calls step by step."),
 "C08": dict(technique="; system-level run spec NnvgRun with trace validation of the repository's own test-suite runs", text=SYS),
 "C11": dict(technique="; system-level run spec NnvgRun with trace validation of the repository's own test-suite runs", text=SYS),
 "C12": dict(technique="; system-level run spec NnvgRun with trace validation of the repository's own test-suite runs", text=SYS),
}
for _pid, _a in AMEND.items():
    CHECKS[_pid]["technique"] += _a["technique"]
    CHECKS[_pid]["text"] += _a["text"]
CHECKS["C20"]["note"] = CHECKS["C20"]["note"].replace("a directory URL means its index.html", "a directory URL denotes the index.html inside it and nothing else (web-server convention)")
NOT_YET = {}
props = [json.loads(l) for l in open(V / "properties.jsonl")]
checks, na = [], []
for p in props:
    pid = p["id"]
    if pid in CHECKS:
        c = CHECKS[pid]
        checks.append({
            "property_id": pid,
            "quick_cmd": "./check %s --tier quick" % pid,
            "thorough_cmd": "./check %s --tier thorough" % pid,
            "evidence_file": "/verif/evidence/%s.json" % pid,
            "replay_cmd_template": "./check %s --replay {path}" % pid,
            "engine": "tlc",
            "level_claimed": {"category": c["cat"], "text": c["text"], "design_ref": c["ref"]},
            "level_note": c["note"],
            "technique": c["technique"],
        })
    else:
        na.append({"property_id": pid, "reason": NOT_YET.get(pid, "check not built yet in this round (planned, see DESIGN.md §6/§12); not claimed until its TLA+ model and conformance harness exist")})
m = {
 "version": 1,
 "setup_cmd": "./setup.sh",
 "hooks": {
  "guard": "NUNAVUT_VERIF",
  "enable": "export NUNAVUT_VERIF=1 (done by ./check); no hook commit exists so far: all observation goes through public extension points and harness objects",
  "baseline_off_cmd": "python3 /verif/tools/baseline.py",
  "source_commits": [],
  "add_only": True,
 },
 "engines": [{"name": "tlc", "path": "/verif/vf/tlc.py", "serves_properties": sorted(CHECKS), "kind_free_text": "TLC 1.8 explicit-state model checker on TLA+ specs in /verif/specs: exhaustive bounded design check, case emission (spec->code), batched trace validation (code->spec)"}],
 "checks": checks,
 "not_applicable": na,
 "notes": "Verdict policy in DESIGN.md §3: only the property-level (P) spec decides VIOLATION; implementation drift is a note; exit 2 = machinery failure. known_findings.json lists recorded defects and fixed ones.",
}
(V / "MANIFEST.json").write_text(json.dumps(m, indent=1) + "\n")
print("checks:", [c["property_id"] for c in checks], "not claimed:", len(na))
