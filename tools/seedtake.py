#!/usr/bin/env python3
"""seedtake.py <PROP> [srcdir]  -- confirm a sub-agent's property-breaking change myself and keep it under /verif/seeded/<PROP>-<name>/:
patch applies to a scratch worktree of /repo HEAD; the pinned suite gives the same outcome per test id as on the clean tree; the demonstration exits 0 on
the clean tree and 1 on the patched one.  Then runs tools/seedall.py on it (check_result in meta.json).  Removes the agent's worktree."""
import json, os, pathlib, re, shutil, subprocess, sys
V = pathlib.Path(__file__).resolve().parent.parent
prop = sys.argv[1]
rnd = int(os.environ.get("SEED_ROUND", "4"))
src = pathlib.Path(sys.argv[2] if len(sys.argv) > 2 else "/tmp/seed/out%d-%s" % (rnd, prop))
head = subprocess.check_output(["git", "-C", "/repo", "log", "--format=%h", "-1"], text=True).strip()


def suite(tree):
    p = subprocess.run(["/venv/bin/python", "-m", "pytest", "-q", "-p", "no:cacheprovider", "--timeout=900", "--continue-on-collection-errors", "-rA"],
                       cwd=tree, env=dict(os.environ, PYTHONPATH=tree + "/src", PYTHONDONTWRITEBYTECODE="1"), capture_output=True, text=True, timeout=3000)
    return sorted(set(re.findall(r"^(PASSED|FAILED|ERROR) (\S+)", p.stdout, re.M)))


def demo(d, tree):
    return subprocess.run(["/venv/bin/python", str(d / "demo.py"), tree], cwd="/tmp", env=dict(os.environ, PYTHONPATH="%s/src:%s/.pydeps" % (tree, V)),
                          capture_output=True, text=True, timeout=3000).returncode


cache = pathlib.Path("/tmp/seed/clean-ids-%s.json" % head)
wt = "/tmp/st/wt-take-%d" % os.getpid()
os.makedirs("/tmp/st", exist_ok=True)
names = []
for d in sorted(src.iterdir()):
    if not (d / "patch.diff").exists():
        continue
    subprocess.run(["git", "-C", "/repo", "worktree", "add", "-q", "--detach", wt, "HEAD"], check=True)
    try:
        if not cache.exists():
            cache.write_text(json.dumps(suite(wt)))
        clean = [tuple(x) for x in json.loads(cache.read_text())]
        d0 = demo(d, wt)
        if subprocess.run(["git", "-C", wt, "apply", str(d / "patch.diff")], capture_output=True).returncode != 0:
            print(d.name, "REJECTED: patch does not apply"); continue
        patched = suite(wt)
        d1 = demo(d, wt)
        same = patched == clean
        print("%s-%s: demo clean=%s patched=%s; suite outcomes identical=%s (%d ids)" % (prop, d.name, d0, d1, same, len(patched)), flush=True)
        if not (d0 == 0 and d1 == 1 and same):
            diff = sorted(set(patched) ^ set(clean))[:6]
            print("   REJECTED", diff); continue
        dst = V / "seeded" / ("%s-%s" % (prop, d.name))
        if dst.exists():
            shutil.rmtree(dst)
        shutil.copytree(d, dst)
        try:
            meta = json.load(open(dst / "meta.json"))
        except Exception:
            meta = {}
        meta.update(property=prop, name=d.name, round=rnd, verified=["main session, scratch worktree of /repo %s: git apply ok; pinned pytest command -rA: %d ids, outcomes identical to the clean "
                    "tree; demo.py exit 0 on the clean tree, exit 1 on the patched tree" % (head, len(patched))])
        json.dump(meta, open(dst / "meta.json", "w"), indent=1)
        names.append(dst.name)
    finally:
        subprocess.run(["git", "-C", "/repo", "worktree", "remove", "--force", wt], capture_output=True)
subprocess.run(["git", "-C", "/repo", "worktree", "remove", "--force", "/tmp/seed/wt%d-%s" % (rnd, prop)], capture_output=True)
if names:
    subprocess.run(["python3", str(V / "tools" / "seedall.py")] + names, cwd=str(V))
