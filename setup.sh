#!/bin/sh
# Offline setup: python deps for running generated Python code, syntax check of every TLA+ module.
set -e
cd "$(dirname "$0")"
if [ ! -d .pydeps/numpy ]; then
  /venv/bin/pip install -q --no-index --find-links /opt/veriftools/wheels --target .pydeps numpy >/dev/null 2>&1 || { echo "numpy install failed"; exit 1; }
fi
fail=0
for f in specs/*.tla; do
  ( cd specs && java -cp /opt/veriftools/tla/tla2tools.jar:/opt/veriftools/tla/CommunityModules-deps.jar tla2sany.SANY "$(basename "$f")" >/tmp/sany.$$ 2>&1 ) || true
  if grep -q -i "error\|abort" /tmp/sany.$$; then echo "SANY: $f"; grep -i -A3 "error\|abort" /tmp/sany.$$ | head -20; fail=1; fi
done
rm -f /tmp/sany.$$
[ $fail -eq 0 ] && echo "setup ok"
exit $fail
