"""Metadata universe for C05: definitions with fixed port-IDs, versions, constants of every primitive kind (extreme magnitudes, exact
rationals), array capacities and union option counts; probes that read what generated C / C++ / Python code exports."""
import copy
import importlib
import json
import pathlib
import struct
import subprocess
import sys
from fractions import Fraction

from . import dsdl
from .core import MachineryFailure

F16MAX = Fraction(65504)
F32MAX = Fraction((2 ** 24 - 1) * 2 ** 104)
F64MAX = Fraction((2 ** 53 - 1) * 2 ** 971)


def consts_pool():
    """(name, kind, width, exact value as Fraction or int/bool)"""
    P = []
    for w in (1, 3, 8, 16, 31, 32, 63, 64):
        P.append(("U%dMAX" % w, "uint", w, (1 << w) - 1))
        P.append(("U%dZERO" % w, "uint", w, 0))
    for w in (2, 8, 16, 32, 33, 64):
        P.append(("I%dMIN" % w, "int", w, -(1 << (w - 1))))
        P.append(("I%dMAX" % w, "int", w, (1 << (w - 1)) - 1))
        P.append(("I%dNEG1" % w, "int", w, -1))
    P += [("BT", "bool", 1, True), ("BF", "bool", 1, False)]
    fl = [("HALF", Fraction(1, 2)), ("THIRD", Fraction(1, 3)), ("NEGTENTH", Fraction(-1, 10)), ("PI", Fraction(314159265358979, 10 ** 14)), ("ZERO", Fraction(0)),
          ("ONE", Fraction(1)), ("BIGDEN", Fraction(1, 3 * 10 ** 5)), ("SUBN16", Fraction(6, 10 ** 8)), ("DYADIC", Fraction(-5, 1024))]
    for n, v in fl:
        for w in (16, 32, 64):
            P.append(("F%d%s" % (w, n), "float", w, v))
    P += [("F16MAXV", "float", 16, F16MAX), ("F16NEGMAX", "float", 16, -F16MAX), ("F32MAXV", "float", 32, F32MAX), ("F64LARGE", "float", 64, Fraction((2 ** 53 - 1) * 2 ** 100)),
          ("F32PLANCK", "float", 32, Fraction(662607015, 10 ** 42)), ("F64PLANCK", "float", 64, Fraction(662607015, 10 ** 42)),
          ("F32MINN", "float", 32, Fraction(117549435, 10 ** 46)), ("F64TINY", "float", 64, Fraction(22250738585072014, 10 ** 60)),
          ("F64BIGNUM", "float", 64, Fraction(12345678901234567890123, 1000)), ("F32BIGNUM", "float", 32, Fraction(98765432109876543, 7)),
          ("F32DENORM", "float", 32, Fraction(14, 10 ** 46)), ("F32AVOGADRO", "float", 32, Fraction(602214076 * 10 ** 15))]
    return P


def const_expr(kind, v):
    if kind == "bool":
        return "true" if v else "false"
    if kind in ("uint", "int"):
        return str(v)
    v = Fraction(v)
    if v.denominator == 1:
        return "%d.0" % v.numerator if abs(v.numerator) < 10 ** 15 else "%d/1" % v.numerator
    return "%d/%d" % (v.numerator, v.denominator)


def const_type(kind, w):
    return {"uint": "uint%d", "int": "int%d", "float": "float%d"}.get(kind, "bool") % w if kind != "bool" else "bool"


def bits_of(n):
    return [int(c) for c in bin(n)[2:][::-1]] if n else [0]


def cps(s):
    return [ord(c) for c in s]


class Definition:
    def __init__(self, ns, name, ver, port, desc, consts, service_resp=None, resp_consts=()):
        self.ns, self.name, self.ver, self.port, self.desc, self.consts = ns, name, ver, port, desc, list(consts)
        self.resp, self.resp_consts = service_resp, list(resp_consts)


def build_universe(rng, quick):
    pool = consts_pool()
    rng.shuffle(pool)
    defs = []
    versions = [(1, 0), (0, 1), (1, 2), (12, 34), (255, 255)]
    mports = [0, None, 1, 100, None, 6143, 7509, 8191, 2, 4095]  # fixed port-IDs must be unique among definitions
    sports = [0, 5, None, 255, 511, 1]
    shapes = [dsdl.S([dsdl.U(8)]), dsdl.S([dsdl.VA(dsdl.I(8), 5), dsdl.U(3)], sealed=False, slack=9), dsdl.UN([dsdl.U(8), dsdl.U(16, False), dsdl.VA(dsdl.B(), 9)]),
              dsdl.S([dsdl.VA(dsdl.U(8), 255), dsdl.VA(dsdl.F(16), 256), dsdl.FA(dsdl.I(13), 7)]), dsdl.S([]), dsdl.UN([dsdl.F(32), dsdl.I(64)], sealed=False, slack=1)]
    per = 6 if quick else 4
    i = 0
    k = 0
    while k < len(pool):
        cs = pool[k:k + per]
        k += per
        desc = copy.deepcopy(shapes[i % len(shapes)])
        sub = "" if i % 3 else ".sub"
        if i % 4 == 3:
            resp = copy.deepcopy(shapes[(i + 2) % len(shapes)])
            defs.append(Definition("mns" + sub, "Svc%d" % i, versions[i % 5], sports.pop(0) if sports else None, desc, cs[: len(cs) // 2], resp, cs[len(cs) // 2:]))
        else:
            defs.append(Definition("mns" + sub, "Msg%d" % i, versions[i % 5], mports.pop(0) if mports else None, desc, cs))
        i += 1
    return defs


def _body(desc, consts):
    lines = []
    if desc["k"] == "union":
        lines.append("@union")
    for (n, kind, w, v) in consts:
        lines.append("%s %s = %s" % (const_type(kind, w), n, const_expr(kind, v)))
    ts = dsdl.TypeSet("x")
    for i, f in enumerate(desc["fields"]):
        lines.append(ts.expr(f) if f["k"] == "void" else "%s f%d" % (ts.expr(f), i))
    lines.append("@sealed" if desc["sealed"] else "@extent %d" % desc["extent"])
    return "\n".join(lines) + "\n"


def write(defs, root):
    for d in defs:
        p = pathlib.Path(root) / d.ns.replace(".", "/")
        p.mkdir(parents=True, exist_ok=True)
        fn = "%s%s.%d.%d.dsdl" % ("" if d.port is None else "%d." % d.port, d.name, d.ver[0], d.ver[1])
        txt = _body(d.desc, d.consts)
        if d.resp is not None:
            txt += "---\n" + _body(d.resp, d.resp_consts)
        (p / fn).write_text(txt)
    return pathlib.Path(root) / "mns"


def parts(d):
    """(suffix, descriptor, constants) for the serializable parts of a definition"""
    if d.resp is None:
        return [("", d.desc, d.consts)]
    return [("Request", d.desc, d.consts), ("Response", d.resp, d.resp_consts)]


def expected(d, suffix, desc, consts):
    full = d.ns + "." + d.name + ("." + suffix if suffix else "")
    cs = []
    for (n, kind, w, v) in consts:
        fr = Fraction(int(v)) if kind != "float" else Fraction(v)
        cs.append({"name": cps(n), "k": kind, "w": w, "neg": fr < 0, "num": bits_of(abs(fr.numerator)), "den": bits_of(fr.denominator)})
    caps = [f["cap"] if f["k"] == "varr" else f["n"] for f in desc["fields"] if f["k"] in ("varr", "farr")]
    return {"full_name": cps(full), "major": d.ver[0], "minor": d.ver[1], "port": -1 if d.port is None else d.port, "consts": cs, "caps": caps,
            "nopt": len(desc["fields"]) if desc["k"] == "union" else -1}


# ------------------------------------------------------------------ probes

def _c_ident(d, suffix):
    return "%s_%s%s_%d_%d" % (d.ns.replace(".", "_"), d.name, "_" + suffix if suffix else "", d.ver[0], d.ver[1])


def c_probe_source(defs):
    out = ["#include <stdio.h>", "#include <stdint.h>", "#include <string.h>", "#include <stdbool.h>"]
    for d in defs:
        out.append('#include "%s/%s_%d_%d.h"' % (d.ns.replace(".", "/"), d.name, d.ver[0], d.ver[1]))
    out.append('static void hex(const void* p, size_t n) { const uint8_t* b = (const uint8_t*) p; putchar(\'"\'); for (size_t i = 0; i < n; i++) printf("%02x", b[i]); putchar(\'"\'); }')
    out.append("int main(void) {")
    k = 0
    for d in defs:
        base = _c_ident(d, "")
        for suffix, desc, consts in parts(d):
            p = _c_ident(d, suffix)
            out.append('  printf("{\\"k\\":%d,\\"full_name\\":\\"%%s\\",\\"fnv\\":\\"%%s\\",", %s_FULL_NAME_, %s_FULL_NAME_AND_VERSION_);' % (k, p, p))
            out.append('  printf("\\"has_port\\":%%d,", (int) %s_HAS_FIXED_PORT_ID_);' % base)
            out.append("#ifdef %s_FIXED_PORT_ID_" % base)
            out.append('  printf("\\"port\\":%%lu,", (unsigned long) %s_FIXED_PORT_ID_);' % base)
            out.append("#else")
            out.append('  printf("\\"port\\":-1,");')
            out.append("#endif")
            out.append('  printf("\\"extent\\":%%lu,\\"bufsize\\":%%lu,\\"consts\\":[", (unsigned long) %s_EXTENT_BYTES_, (unsigned long) %s_SERIALIZATION_BUFFER_SIZE_BYTES_);' % (p, p))
            for j, (n, kind, w, v) in enumerate(consts):
                m = "%s_%s" % (p, n)
                sep = "," if j else ""
                out.append("#ifdef %s" % m)
                if kind == "bool":
                    out.append('  { uint8_t b = (%s) ? 1 : 0; printf("%s{\\"present\\":true,\\"neg\\":0,\\"bytes\\":"); hex(&b, 1); printf("}"); }' % (m, sep))
                elif kind == "float":
                    ty = "double" if w == 64 else "float"
                    out.append('  { %s f = %s; printf("%s{\\"present\\":true,\\"neg\\":0,\\"bytes\\":"); hex(&f, sizeof f); printf("}"); }' % (ty, m, sep))
                else:
                    out.append('  { uint64_t u = (uint64_t) (%s); printf("%s{\\"present\\":true,\\"neg\\":%%d,\\"bytes\\":", (int) ((%s) < 0)); hex(&u, 8); printf("}"); }' % (m, sep, m))
                out.append("#else")
                out.append('  printf("%s{\\"present\\":false,\\"neg\\":0,\\"bytes\\":\\"\\"}");' % sep)
                out.append("#endif")
            out.append('  printf("],\\"caps\\":[");')
            first = True
            for i, f in enumerate(desc["fields"]):
                if f["k"] in ("varr", "farr"):
                    out.append('  printf("%s%%lu", (unsigned long) %s_f%d_ARRAY_CAPACITY_);' % ("" if first else ",", p, i))
                    first = False
            if desc["k"] == "union":
                out.append('  printf("],\\"nopt\\":%%lu}\\n", (unsigned long) %s_UNION_OPTION_COUNT_);' % p)
            else:
                out.append('  printf("],\\"nopt\\":-1}\\n");')
            k += 1
    out += ["  return 0;", "}"]
    return "\n".join(out)


def _cpp_ident(d, suffix):
    ns = d.ns.replace(".", "::")
    if suffix:
        return "%s::%s::%s_%d_%d" % (ns, d.name, suffix, d.ver[0], d.ver[1])
    return "%s::%s_%d_%d" % (ns, d.name, d.ver[0], d.ver[1])


def cpp_probe_source(defs):
    out = ["#include <cstdio>", "#include <cstdint>", "#include <cstring>"]
    for d in defs:
        out.append('#include "%s/%s_%d_%d.hpp"' % (d.ns.replace(".", "/"), d.name, d.ver[0], d.ver[1]))
    out.append('static void hex(const void* p, std::size_t n) { const std::uint8_t* b = static_cast<const std::uint8_t*>(p); std::putchar(\'"\'); for (std::size_t i = 0; i < n; i++) std::printf("%02x", b[i]); std::putchar(\'"\'); }')
    out.append("template <typename T> static int isneg(T v) { return v < T(0) ? 1 : 0; }")
    out.append("template <typename T> static void pint(T v) { std::uint64_t u = static_cast<std::uint64_t>(v); std::printf(\"{\\\"present\\\":true,\\\"neg\\\":%d,\\\"bytes\\\":\", isneg(v)); hex(&u, 8); std::printf(\"}\"); }")
    out.append("int main() {")
    k = 0
    for d in defs:
        for suffix, desc, consts in parts(d):
            p = _cpp_ident(d, suffix)
            out.append('  std::printf("{\\"k\\":%d,\\"full_name\\":\\"\\",\\"fnv\\":\\"\\",\\"has_port\\":%%d,", %s::_traits_::HasFixedPortID ? 1 : 0);' % (k, p))
            if d.port is not None:
                out.append('  std::printf("\\"port\\":%%lu,", static_cast<unsigned long>(%s::_traits_::FixedPortId));' % p)
            else:
                out.append('  std::printf("\\"port\\":-1,");')
            out.append('  std::printf("\\"extent\\":%%lu,\\"bufsize\\":%%lu,\\"consts\\":[", static_cast<unsigned long>(%s::_traits_::ExtentBytes), static_cast<unsigned long>(%s::_traits_::SerializationBufferSizeBytes));' % (p, p))
            for j, (n, kind, w, v) in enumerate(consts):
                if j:
                    out.append('  std::putchar(\',\');')
                m = "%s::%s" % (p, n)
                if kind == "bool":
                    out.append('  { std::uint8_t b = (%s) ? 1 : 0; std::printf("{\\"present\\":true,\\"neg\\":0,\\"bytes\\":"); hex(&b, 1); std::printf("}"); }' % m)
                elif kind == "float":
                    ty = "double" if w == 64 else "float"
                    out.append('  { %s f = %s; std::printf("{\\"present\\":true,\\"neg\\":0,\\"bytes\\":"); hex(&f, sizeof f); std::printf("}"); }' % (ty, m))
                else:
                    out.append("  pint(%s);" % m)
            if desc["k"] == "union":
                out.append('  std::printf("],\\"caps\\":[],\\"nopt\\":%%lu}\\n", static_cast<unsigned long>(%s::VariantType::MAX_INDEX));' % p)
            else:
                out.append('  std::printf("],\\"caps\\":[],\\"nopt\\":-1}\\n");')
            k += 1
    out += ["  return 0;", "}"]
    return "\n".join(out)


def run_native_probe(scratch, lang, defs, options, tag, std="c++14"):
    from .harness_py import generate

    root = pathlib.Path(scratch) / ("meta_" + tag)
    nsdir = write(defs, root / "dsdl")
    generate(lang, nsdir, root / "out", language_options=options, allow_unregulated=True)
    src = root / ("probe.c" if lang == "c" else "probe.cpp")
    src.write_text(c_probe_source(defs) if lang == "c" else cpp_probe_source(defs))
    exe = root / "probe"
    cmd = (["gcc", "-std=c11"] if lang == "c" else ["g++", "-std=" + std]) + ["-O0", "-w", "-I", str(root / "out"), str(src), "-o", str(exe), "-lm"]
    p = subprocess.run(cmd, stdout=subprocess.PIPE, stderr=subprocess.STDOUT, text=True)
    if p.returncode != 0:
        return None, p.stdout[-3000:]
    r = subprocess.run([str(exe)], stdout=subprocess.PIPE, text=True)
    res = []
    for ln in r.stdout.splitlines():
        res.append(json.loads(ln))
    return res, ""


def run_py_probe(ctx, defs):
    from .harness_py import generate

    root = ctx.scratch / "meta_py"
    nsdir = write(defs, root / "dsdl")
    generate("py", nsdir, root / "out", allow_unregulated=True)
    sys.path.insert(0, str(root / "out"))
    for m in [m for m in sys.modules if m == "mns" or m.startswith("mns.")]:
        del sys.modules[m]
    res = []
    for d in defs:
        mod = importlib.import_module("%s.%s_%d_%d" % (d.ns, d.name, d.ver[0], d.ver[1]))
        cls0 = getattr(mod, "%s_%d_%d" % (d.name, d.ver[0], d.ver[1]))
        for suffix, desc, consts in parts(d):
            cls = getattr(cls0, suffix) if suffix else cls0
            port = getattr(cls, "_FIXED_PORT_ID_", None)
            o = {"full_name": "", "fnv": "", "has_port": 0 if port is None else 1, "port": -1 if port is None else int(port), "extent": int(cls._EXTENT_BYTES_), "bufsize": -1,
                 "consts": [], "caps": [], "nopt": -1}
            for (n, kind, w, v) in consts:
                if not hasattr(cls, n):
                    o["consts"].append({"present": False, "neg": 0, "bytes": ""})
                    continue
                x = getattr(cls, n)
                if kind == "bool":
                    o["consts"].append({"present": True, "neg": 0, "bytes": "01" if x else "00"})
                elif kind == "float":
                    o["consts"].append({"present": True, "neg": 0, "bytes": struct.pack("<d", float(x)).hex()})
                else:
                    o["consts"].append({"present": True, "neg": 1 if x < 0 else 0, "bytes": (int(x) & ((1 << 64) - 1)).to_bytes(8, "little").hex()})
            res.append(o)
    return res


def to_record(d, suffix, desc, consts, obs, lang):
    o = {"full_name": cps(obs["full_name"]), "fnv": cps(obs["fnv"]), "has_name": bool(obs["full_name"]), "has_port": bool(obs["has_port"]), "port": obs["port"],
         "extent": obs["extent"], "bufsize": obs["bufsize"], "consts": [{"present": c["present"], "neg": c["neg"], "bytes": list(bytes.fromhex(c["bytes"]))} for c in obs["consts"]],
         "caps": obs["caps"], "has_caps": lang == "c", "nopt": obs["nopt"]}
    return {"ev": "metad", "L": lang, "t": dsdl.strip(desc), "exp": expected(d, suffix, desc, consts), "obs": o}
