"""Shared plumbing: context, verdict policy (VIOLATION / KNOWN-FINDING / drift note / machinery failure), evidence."""
import atexit
import hashlib
import json
import os
import pathlib
import random
import shutil
import sys
import tempfile
import time

VERIF = pathlib.Path(__file__).resolve().parent.parent
REPO = pathlib.Path(os.environ.get("VERIF_REPO", "/repo"))
SPECS = VERIF / "specs"
NCPU = min(16, os.cpu_count() or 1)

LEVEL = "model_checking"


class MachineryFailure(Exception):
    """Something unrelated to the property broke (TLC crashed, compiler missing...). Exit code 2."""


def sha(b):
    if isinstance(b, str):
        b = b.encode("utf-8", "surrogatepass")
    return hashlib.sha256(b).hexdigest()


class Ctx:
    def __init__(self, pid, tier="quick", seed=0, level=LEVEL):
        self.pid = pid
        self.tier = tier
        self.seed = seed
        self.level = level
        self.rng = random.Random(seed * 1000003 + sum(map(ord, pid)))
        self.t0 = time.time()
        base = "/dev/shm" if os.path.isdir("/dev/shm") and os.access("/dev/shm", os.W_OK) else None
        self.scratch = pathlib.Path(tempfile.mkdtemp(prefix="vf-%s-" % pid, dir=base))
        atexit.register(shutil.rmtree, str(self.scratch), True)
        self.cov = {
            "states": 0,
            "transitions": 0,
            "traces_validated_against_impl": 0,
            "evaluations": 0,
            "distinct_nontrivial": 0,
            "rule": "",
            "samples": [],
            "model_runs": [],
            "model_drift": [],
            "ambiguous_cases": [],
            "known_findings_hit": [],
            "not_exercised": [],
            "binding_selftests": [],
        }
        self._distinct = set()
        self.assumptions = []
        self.violations = []  # (signature, what, replay path)
        self.known_hit = {}
        self._nreplay = 0
        kf = VERIF / "known_findings.json"
        self.known = []
        if kf.exists():
            self.known = [f for f in json.loads(kf.read_text()).get("findings", []) if f["property"] == pid]

    # ---- coverage bookkeeping
    @property
    def quick(self):
        return self.tier != "thorough"

    def pick(self, quick, thorough):
        return quick if self.quick else thorough

    def add_model(self, res, name):
        """Account an exhaustive / simulation TLC run."""
        self.cov["states"] += res.distinct
        self.cov["transitions"] += res.generated
        self.cov["model_runs"].append(
            {"spec": name, "generated": res.generated, "distinct": res.distinct, "depth": res.depth, "wall_s": round(res.wall, 1),
             "mode": res.mode, "constants": res.constants}
        )

    def count(self, n=1):
        self.cov["evaluations"] += n

    def distinct(self, key, nontrivial=True):
        if nontrivial:
            self._distinct.add(key if isinstance(key, (str, int, tuple)) else json.dumps(key, sort_keys=True))

    def sample(self, obj, limit=6):
        if len(self.cov["samples"]) < limit:
            self.cov["samples"].append(obj)

    def validated(self, n):
        self.cov["traces_validated_against_impl"] += n

    def drift(self, what):
        if len(self.cov["model_drift"]) < 50:
            self.cov["model_drift"].append(what)
        if len(self.cov["model_drift"]) <= 5:
            print("NOTE model-drift property=%s %s" % (self.pid, what))

    def ambiguous(self, what):
        if len(self.cov["ambiguous_cases"]) < 50:
            self.cov["ambiguous_cases"].append(what)

    def not_exercised(self, what):
        self.cov["not_exercised"].append(what)

    def selftest(self, name, ok):
        self.cov["binding_selftests"].append({"name": name, "rejected_as_expected": bool(ok)})
        if not ok:
            raise MachineryFailure("binding self-test '%s' passed vacuously (corruption was accepted)" % name)

    # ---- verdicts
    def violation(self, signature, what, case):
        """A recorded execution of the real code that the P-layer rejects."""
        for f in self.known:
            if f["signature"] == signature:
                if signature not in self.known_hit:
                    self.known_hit[signature] = f
                    print("KNOWN-FINDING: property=%s %s [%s]" % (self.pid, f["what"], signature))
                    self.cov["known_findings_hit"].append({"signature": signature, "example": case})
                return False
        # one replay file per distinct signature (first case), count the rest
        for v in self.violations:
            if v[0] == signature:
                v[3] += 1
                return True
        self._nreplay += 1
        d = VERIF / "out" / "replay" / self.pid
        d.mkdir(parents=True, exist_ok=True)
        path = d / ("%s-%03d.json" % (self.tier, self._nreplay))
        path.write_text(json.dumps({"property": self.pid, "signature": signature, "what": what, "case": case}, indent=1, default=str))
        self.violations.append([signature, what, str(path), 1])
        print("VIOLATION property=%s replay=%s" % (self.pid, path))
        print("  clause/signature: %s\n  %s" % (signature, what))
        sys.stdout.flush()
        return True

    def finish(self):
        cov = self.cov
        cov["distinct_nontrivial"] = len(self._distinct)
        if not cov["samples"]:
            cov["samples"] = [{"note": "no case was executed"}]
        ev = {
            "property_id": self.pid,
            "tier": self.tier,
            "seed": self.seed,
            "level": self.level,
            "coverage": cov,
            "assumptions": self.assumptions,
            "wall_s": round(time.time() - self.t0, 2),
            "violations": sum(v[3] for v in self.violations),
        }
        cov["violation_signatures"] = [{"signature": v[0], "what": v[1], "replay": v[2], "count": v[3]} for v in self.violations]
        # evidence describes the tree under /repo; a run against another tree (VERIF_REPO: seeded changes, experiments) must not replace it
        evdir = VERIF / "evidence" if str(REPO) == "/repo" else VERIF / "out" / "evidence-other-tree"
        evdir.mkdir(parents=True, exist_ok=True)
        (evdir / (self.pid + ".json")).write_text(json.dumps(ev, indent=1, default=str) + "\n")
        print(
            "%s %s: states=%d transitions=%d traces_validated=%d evaluations=%d distinct=%d drift=%d known=%d violations=%d wall=%.1fs"
            % (self.pid, self.tier, cov["states"], cov["transitions"], cov["traces_validated_against_impl"], cov["evaluations"],
               cov["distinct_nontrivial"], len(cov["model_drift"]), len(self.known_hit), len(self.violations), time.time() - self.t0)
        )
        return 1 if self.violations else 0
