"""Python target: generate the package from /repo's working tree, import it in-process, drive serialize/deserialize."""
import importlib
import math
import struct
import sys

from . import dsdl
from .core import MachineryFailure, REPO

_counter = [0]


def generate(lang, root_ns_dir, out_dir, language_options=None, omit=False, lookup=None, allow_unregulated=False):
    import nunavut

    nunavut.generate_types(lang, root_ns_dir, out_dir, omit_serialization_support=omit, language_options=language_options or {},
                           include_experimental_languages=True, lookup_directories=lookup, allow_unregulated_fixed_port_id=allow_unregulated)


class PyTarget:
    L = "py"
    kinds = False  # error kinds are not distinguishable (deserialize -> None, serialize -> exception)

    def __init__(self, ctx, types, tag="py"):
        import copy

        _counter[0] += 1
        self.ts = dsdl.TypeSet("vpy%d" % _counter[0])
        self.types = copy.deepcopy(list(types))
        for t in self.types:
            self.ts.add(t)
        self.root = ctx.scratch / ("%s%d" % (tag, _counter[0]))
        nsdir = self.ts.write(self.root / "dsdl")
        self.out = self.root / "out"
        generate("py", nsdir, self.out)
        sys.path.insert(0, str(self.out))
        try:
            import numpy  # noqa: F401
        except ImportError:
            raise MachineryFailure("numpy is not importable (run ./setup.sh)")
        self.np = importlib.import_module("numpy")
        if "nunavut_support" in sys.modules and not str(getattr(sys.modules["nunavut_support"], "__file__", "")).startswith(str(ctx.scratch)):
            del sys.modules["nunavut_support"]
        self.support = importlib.import_module("nunavut_support")
        self.cls = {}
        for t in self.ts.all:
            m = importlib.import_module("%s.%s_1_0" % (self.ts.ns, t["name"]))
            c = getattr(m, "%s_1_0" % t["name"])
            if t.get("svc") == "Request":
                self.cls[t["name"] + "Request"] = c.Request
                self.cls[t["name"] + "Response"] = c.Response
            else:
                self.cls[t["name"]] = c

    # -- value conversion
    def normalize(self, t, v, in_array=False):
        """what a Python object can hold: float array elements live in numpy arrays of the declared width"""
        k = t["k"]
        if k == "float" and in_array and t["w"] < 64:
            import warnings

            with warnings.catch_warnings():
                warnings.simplefilter("ignore")
                return float(self.np.float16(v) if t["w"] == 16 else self.np.float32(v))
        if dsdl.is_prim(t):
            return v
        if k in ("farr", "varr"):
            return [self.normalize(t["e"], x, True) for x in v]
        if k == "struct":
            return [self.normalize(f, x) for f, x in zip(t["fields"], v)]
        return (v[0], self.normalize(t["fields"][v[0]], v[1]))

    def build(self, t, v):
        k = t["k"]
        if k in ("uint", "int"):
            return int(v)
        if k == "bool":
            return bool(v)
        if k == "float":
            return float(v)
        if k in ("farr", "varr"):
            return self.present(t, [self.build(t["e"], x) for x in v])
        cls = self.cls[t["name"] + (t.get("svc") or "")]
        if k == "struct":
            return cls(**{"f%d" % i: self.build(f, x) for i, (f, x) in enumerate(zip(t["fields"], v)) if f["k"] != "void"})
        tag, x = v
        return cls(**{"f%d" % tag: self.build(t["fields"][tag], x)})

    def present(self, t, lst):
        """the same array value in the forms user code hands to a field: list, tuple, ndarray of the storage type, ndarray in the NON-native byte
        order, a strided (non-contiguous) view, a read-only ndarray.  The value is the same, so the representation must be the same; which form a
        value gets depends on the value only (reproducible)."""
        e = t["e"]
        if not lst or e["k"] not in ("uint", "int", "float", "bool") or not getattr(self, "presentations", True):
            return lst
        np = self.np
        mode = (len(lst) + sum(int(abs(x)) % 97 if isinstance(x, (int, bool)) else 3 for x in lst)) % 8
        if mode < 2:
            return lst
        if mode == 2:
            return tuple(lst)
        try:
            if e["k"] == "bool":
                dt = np.dtype(np.bool_)
            elif e["k"] == "float":
                dt = np.dtype("f%d" % (e["w"] // 8))
            else:
                dt = np.dtype("%s%d" % ("u" if e["k"] == "uint" else "i", dsdl.store_w(e["w"]) // 8))
            a = np.array(lst, dtype=dt)
            if [x for x in a.tolist()] != [x for x in lst] and e["k"] != "float":
                return lst
            if mode == 3:
                return a
            if mode in (4, 7):
                return a.astype(dt.newbyteorder(">" if sys.byteorder == "little" else "<")) if dt.itemsize > 1 else a
            if mode == 5:
                b = np.zeros(2 * len(lst), dtype=dt)
                b[::2] = a
                return b[::2]
            a.setflags(write=False)
            return a
        except (OverflowError, ValueError, TypeError):
            return lst

    def dump(self, t, o):
        k = t["k"]
        if k in ("uint", "int"):
            return int(o)
        if k == "bool":
            return 1 if bool(o) else 0
        if k == "float":
            return float(o)
        if k == "void":
            return None
        if k in ("farr", "varr"):
            return [self.dump(t["e"], x) for x in o]
        if k == "struct":
            return [None if f["k"] == "void" else self.dump(f, getattr(o, "f%d" % i)) for i, f in enumerate(t["fields"])]
        sel = [i for i in range(len(t["fields"])) if getattr(o, "f%d" % i) is not None]
        if len(sel) != 1:
            return (255, None)
        return (sel[0], self.dump(t["fields"][sel[0]], getattr(o, "f%d" % sel[0])))

    # -- events
    def ser(self, t, v):
        """returns the `ser` record fields (without id/case/t)"""
        rec = {"L": "py", "buf": -1, "guard": 1, "kinds": False, "det": False, "size": 0, "bytes": []}
        try:
            import warnings

            with warnings.catch_warnings():
                warnings.simplefilter("ignore")
                obj = self.build(t, v)
                data = b"".join(bytes(x) for x in self.support.serialize(obj))
            rec.update(err="none", size=len(data), bytes=list(data))
        except Exception as ex:  # noqa
            rec.update(err="error", exc=type(ex).__name__)
        rec["v"] = encode_py_in(t, v)
        return rec

    def des(self, t, data):
        rec = {"L": "py", "kinds": False, "consumed": -1, "bytes": list(data), "val": []}
        try:
            o = self.support.deserialize(self.cls[t["name"] + (t.get("svc") or "")], [memoryview(bytearray(data))])
            if o is None:
                rec["err"] = "format"
            else:
                rec["err"] = "none"
                rec["val"] = dsdl.encode(t, self.dump(t, o), "py")
                rec["obj"] = o
        except Exception as ex:  # noqa
            rec.update(err="exception", exc=type(ex).__name__)
        return rec

    def extent(self, t):
        return int(self.cls[t["name"] + (t.get("svc") or "")]._EXTENT_BYTES_)


def encode_py_in(t, v, in_array=False):
    """storage form of a Python OBJECT's content: scalar floats are doubles, float array elements have the declared width"""
    k = t["k"]
    if k == "float":
        if in_array and t["w"] == 16:
            return list(struct.pack("<e", v)) if not (math.isinf(v) or math.isnan(v)) else list(struct.pack("<e", v))
        if in_array and t["w"] == 32:
            return list(struct.pack("<f", v))
        return list(struct.pack("<d", v))
    if dsdl.is_prim(t):
        return dsdl.encode(t, v, "py")
    if k == "farr":
        return [encode_py_in(t["e"], x, True) for x in v]
    if k == "varr":
        return {"n": len(v), "e": [encode_py_in(t["e"], x, True) for x in v]}
    if k == "struct":
        return [encode_py_in(f, x) for f, x in zip(t["fields"], v)]
    return {"tag": v[0], "v": encode_py_in(t["fields"][v[0]], v[1])}
