"""Unbounded lemmas next to the bounded TLC runs: TLA+ proof system (tlapm, SMT back end) for the integer operators the P-layer uses
(specs/ArithLemmas.tla: SatBits, PadUp, bits2bytes) and Apalache inductive-invariant checks (unbounded integers) for the memory argument
of the cursor machines (specs/CursorInd.tla: decoder frames with the clamped nested-call pointer; specs/CursorIndSer.tla: the single
up-front capacity check of the encoder).  Each comes with a negative control that MUST be refuted (raw cursor = defect 1a6933a,
compiled-out capacity check = defect 268a21b).

The lemma modules copy three definitions; `same_definitions` compares the copies with the originals before the proofs are trusted.
A proof that fails or a control that is not refuted is a machinery failure (the specification is wrong, not the code); a tool that
cannot run in time is recorded under not_exercised (the bounded TLC runs of the same operators remain)."""
import concurrent.futures
import re
import shutil
import subprocess
import time

from .core import SPECS, MachineryFailure


def _defn(text, name):
    """body of the definition `name(params) == ...` with comments and blanks removed and the parameters renamed positionally"""
    m = re.search(r"^%s\((.*?)\)\s*==(.*?)(?=^\S|\Z)" % re.escape(name), text, re.S | re.M)
    if not m:
        return None
    body = re.sub(r"\(\*.*?\*\)|\\\*[^\n]*", "", m.group(2))
    for i, prm in enumerate(x.strip() for x in m.group(1).split(",")):
        body = re.sub(r"\b%s\b" % re.escape(prm), "#%d" % i, body)
    return re.sub(r"\s+", "", body)


def same_definitions():
    lem = (SPECS / "ArithLemmas.tla").read_text()
    pairs = [("Min2", "BitPrimsP.tla"), ("SatBits", "BitPrimsP.tla"), ("PadUp", "DsdlWire.tla")]
    bad = []
    for name, mod in pairs:
        a, b = _defn(lem, name), _defn((SPECS / mod).read_text(), name)
        if a is None or b is None or a != b:
            bad.append("%s: lemma module %r vs %s %r" % (name, a, mod, b))
    ci = (SPECS / "CursorInd.tla").read_text()
    if _defn(ci, "SatBits") != _defn(lem, "SatBits"):
        bad.append("SatBits copy in CursorInd differs")
    return bad


def _run(cmd, cwd, timeout):
    t0 = time.time()
    try:
        p = subprocess.run(cmd, cwd=str(cwd), capture_output=True, text=True, timeout=timeout)
        return p.returncode, p.stdout + p.stderr, time.time() - t0
    except subprocess.TimeoutExpired:
        return None, "timeout", time.time() - t0
    except FileNotFoundError:
        return None, "tool missing", time.time() - t0


def tlaps(ctx, timeout=600):
    """prove specs/ArithLemmas.tla; returns the number of proof obligations (None: tool could not run)"""
    d = ctx.scratch / "tlaps"
    d.mkdir(exist_ok=True)
    shutil.copy(SPECS / "ArithLemmas.tla", d)
    rc, out, wall = _run(["tlapm", "--cleanfp", "ArithLemmas.tla"], d, timeout)
    if rc is None:
        ctx.not_exercised("tlapm on ArithLemmas.tla: %s after %.0f s" % (out, wall))
        return None
    m = re.search(r"All (\d+) obligations? proved", out)
    if rc != 0 or not m:
        raise MachineryFailure("ArithLemmas.tla: proof obligations failed: " + " ".join(out.split())[-600:])
    n = int(m.group(1))
    ctx.cov["model_runs"].append({"spec": "ArithLemmas (tlapm, SMT back end)", "obligations_proved": n, "wall_s": round(wall, 1), "mode": "proof",
                                  "constants": "all naturals"})
    return n


APALACHE = {
    "CursorInd": [("InitClamped", "IndInv", 0, True), ("IndInv", "IndInv", 1, True), ("IndInvRaw", "IndInvRaw", 1, False)],
    "CursorIndSer": [("InitChecked", "IndInv", 0, True), ("IndInv", "IndInv", 1, True), ("IndInvUnchecked", "IndInvUnchecked", 1, False)],
}


def apalache(ctx, modules=("CursorInd", "CursorIndSer"), timeout=900):
    jobs = []
    for mod in modules:
        for k, (init, inv, length, holds) in enumerate(APALACHE[mod]):
            d = ctx.scratch / ("apa-%s-%d" % (mod, k))
            d.mkdir(exist_ok=True)
            shutil.copy(SPECS / (mod + ".tla"), d)
            jobs.append((mod, init, inv, length, holds, d))

    def one(j):
        mod, init, inv, length, holds, d = j
        return j, _run(["apalache-mc", "check", "--init=" + init, "--inv=" + inv, "--length=%d" % length, "--out-dir=" + str(d / "out"), mod + ".tla"], d, timeout)

    done = 0
    with concurrent.futures.ThreadPoolExecutor(max_workers=6) as ex:
        for (mod, init, inv, length, holds, d), (rc, out, wall) in ex.map(one, jobs):
            tag = "%s init=%s inv=%s length=%d" % (mod, init, inv, length)
            if rc is None:
                ctx.not_exercised("apalache-mc %s: %s after %.0f s" % (tag, out, wall))
                continue
            ok = "The outcome is: NoError" in out
            err = "Checker has found an error" in out
            if holds and not ok:
                raise MachineryFailure("inductive step not established: %s: %s" % (tag, " ".join(out.split())[-400:]))
            if not holds:
                if not err:
                    raise MachineryFailure("negative control not refuted: " + tag)
                ctx.selftest("apalache negative control " + tag, True)
            ctx.cov["model_runs"].append({"spec": tag + " (Apalache, unbounded integers)", "outcome": "holds" if holds else "refuted (control)",
                                          "wall_s": round(wall, 1), "mode": "inductive", "constants": "all naturals"})
            done += 1
    return done


def run_arith(ctx):
    bad = same_definitions()
    if bad:
        raise MachineryFailure("lemma modules out of date with the specifications: " + "; ".join(bad))
    return tlaps(ctx)


def run_cursor(ctx):
    bad = same_definitions()
    if bad:
        raise MachineryFailure("lemma modules out of date with the specifications: " + "; ".join(bad))
    return apalache(ctx)
