"""./check <ID> [--tier quick|thorough] [--replay path]"""
import argparse
import importlib
import json
import os
import sys
import traceback

from .core import Ctx, MachineryFailure


def main(argv=None):
    ap = argparse.ArgumentParser()
    ap.add_argument("pid")
    ap.add_argument("--tier", default=os.environ.get("VERIF_TIER", "quick"), choices=["quick", "thorough"])
    ap.add_argument("--replay", default=None)
    ap.add_argument("--seed", type=int, default=int(os.environ.get("VERIF_SEED", "0") or 0))
    a = ap.parse_args(argv)
    pid = a.pid.upper()
    try:
        mod = importlib.import_module("vf.props." + pid.lower())
    except ImportError:
        traceback.print_exc()
        print("no check for", pid)
        return 2
    ctx = Ctx(pid, a.tier, a.seed, level=getattr(mod, "LEVEL", "model_checking"))
    try:
        if a.replay:
            doc = json.loads(open(a.replay).read())
            ctx.tier = "replay"  # replay files written now must not overwrite the file being replayed
            mod.replay(ctx, doc["case"])
            if ctx.violations:
                return 1
            print("replay: property held on this case (or it is a listed known finding)")
            return 0
        mod.run(ctx)
        return ctx.finish()
    except MachineryFailure as e:
        if ctx.violations and not a.replay:
            # violations already reported (each one a recorded execution the P-layer rejected, with its replay file) stand on their own: a later
            # step of the machinery that cannot cope with the misbehaving tree (e.g. a self-test that needs an accepted record) does not erase them
            print("NOTE property=%s: after the violations above the machinery stopped: %s" % (pid, e))
            ctx.cov["not_exercised"].append("run ended early after reported violations: %s" % e)
            return ctx.finish()
        print("MACHINERY-FAILURE property=%s: %s" % (pid, e))
        return 2
    except Exception:  # a crash of the harness is never a verdict
        traceback.print_exc()
        if ctx.violations and not a.replay:
            print("NOTE property=%s: after the violations above the harness crashed (traceback above)" % pid)
            ctx.cov["not_exercised"].append("run ended early after reported violations: harness crashed")
            return ctx.finish()
        print("MACHINERY-FAILURE property=%s: harness crashed" % pid)
        return 2


if __name__ == "__main__":
    sys.exit(main())
