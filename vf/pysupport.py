"""Growth build G2 - the Python support library's Serializer / Deserializer / ZeroExtendingBuffer as explicit state machines.

Model:      specs/PySupportP.tla (P: abstract objects [store of bits, cursors] / [data, cursor], zero extension, forks), specs/PySupport.tla (I: the
            byte buffer with its extra byte, aligned assignments, the OR/assign loop of add_unaligned_bytes, the fragment list of ZeroExtendingBuffer,
            fork_bytes as a view); TLC: every call history up to 4 calls over a reduced alphabet, every fragmentation of every input over {00,FF,A5},
            I refines P, fragmentation independence, five negative controls.
spec->code: TLC-emitted histories (exhaustive short ones + -simulate long ones over a rich alphabet) with the expected abstract state after every
            step, replayed on the real objects generated from the current tree.
code->spec: seeded random histories of 20-60 calls (all public methods, widths 1..64, boundary values, NumPy scalars and Python ints, arrays of every
            standard dtype, bool arrays, bytes; forks used while the parent continues; deserializer inputs x fragmentations x data ending before /
            inside / after the fetches), recorded step by step and judged by specs/PySupportTrace.tla.
Entry:      run_pysupport(ctx, owner_of_clause) from a property file;  python -m vf.pysupport [--tier quick|thorough] [--replay file] standalone.
"""
import concurrent.futures
import importlib.util
import json
import math
import pathlib
import struct
import sys

from . import tlc
from .core import MachineryFailure, NCPU, REPO, VERIF

DEFAULT_PROP = "C14"
CLAUSES = ("pysup.bits", "pysup.cursor", "pysup.untouched", "pysup.fetch", "pysup.zero_ext", "pysup.signext", "pysup.frag_indep", "pysup.fork",
           "pysup.noret", "pysup.raises")
STD = (8, 16, 32, 64)
INT_DTYPES = ["uint8", "uint16", "uint32", "uint64", "int8", "int16", "int32", "int64"]
FLOAT_DTYPES = ["float16", "float32", "float64"]


# ------------------------------------------------------------------ the library under test
def load_support(ctx):
    """render nunavut_support.py from the CURRENT tree into scratch and import it under a private module name"""
    pydeps = str(VERIF / ".pydeps")
    if pydeps not in sys.path:
        sys.path.append(pydeps)
    src = str(REPO / "src")
    if src not in sys.path:
        sys.path.insert(0, src)
    try:
        import numpy  # noqa: F401
    except ImportError:
        raise MachineryFailure("numpy is not importable (run ./setup.sh)")
    from .harness_py import generate

    root = pathlib.Path(ctx.scratch) / "pysup"
    ns = root / "dsdl" / "psns"
    ns.mkdir(parents=True, exist_ok=True)
    (ns / "T.1.0.dsdl").write_text("uint8 a\n@sealed\n")
    generate("py", ns, root / "out")
    path = root / "out" / "nunavut_support.py"
    if not path.exists():
        raise MachineryFailure("the py target did not render nunavut_support.py")
    spec = importlib.util.spec_from_file_location("nunavut_support_pysup_%d" % id(ctx), str(path))
    mod = importlib.util.module_from_spec(spec)
    spec.loader.exec_module(mod)
    for name in ("Serializer", "Deserializer"):
        if not hasattr(mod, name):
            raise MachineryFailure("nunavut_support.py has no %s" % name)
    return mod


# ------------------------------------------------------------------ concrete calls
# A call is a dict: o (object, 1 = root), m (method class), n, k ("ow" aligned method / "or" unaligned method), std (1: the fixed-width method),
# val (python-level argument description), np (numpy scalar / dtype name), which (variant of an error call)
def ser_method(c):
    m, k, n = c["m"], c["k"], c["n"]
    pre = "aligned" if k == "ow" else "unaligned"
    if m == "skip":
        return "skip_bits"
    if m == "pad":
        return "pad_to_alignment"
    if m == "fork":
        return "fork_bytes"
    if m in ("u", "uneg"):
        return "add_aligned_u%d" % n if (c.get("std") and k == "ow") else "add_%s_unsigned" % pre
    if m == "s":
        return "add_aligned_i%d" % n if (c.get("std") and k == "ow") else "add_%s_signed" % pre
    if m == "f":
        return "add_%s_f%d" % (pre, n)
    if m == "bit":
        return "add_unaligned_bit"
    if m == "bytes":
        return "add_%s_bytes" % pre
    if m == "bits":
        return "add_%s_array_of_bits" % pre
    if m == "arr":
        return "add_%s_array_of_standard_bit_length_primitives" % pre
    raise MachineryFailure("unknown serializer call %r" % (c,))


def des_method(c):
    m, k, n = c["m"], c["k"], c["n"]
    pre = "aligned" if k == "ow" else "unaligned"
    if m == "skip":
        return "skip_bits"
    if m == "pad":
        return "pad_to_alignment"
    if m == "fork":
        return "fork_bytes"
    if m == "neg":
        return c.get("which") or "fetch_aligned_bytes"
    if m == "u":
        return "fetch_aligned_u%d" % n if (c.get("std") and k == "ow") else "fetch_%s_unsigned" % pre
    if m == "s":
        return "fetch_aligned_i%d" % n if (c.get("std") and k == "ow") else "fetch_%s_signed" % pre
    if m == "f":
        return "fetch_%s_f%d" % (pre, n)
    if m == "bit":
        return "fetch_unaligned_bit"
    if m == "bytes":
        return "fetch_%s_bytes" % pre
    if m == "bits":
        return "fetch_%s_array_of_bits" % pre
    if m == "arr":
        return "fetch_%s_array_of_standard_bit_length_primitives" % pre
    raise MachineryFailure("unknown deserializer call %r" % (c,))


def _int_arg(np, c):
    v = int(c["val"])
    if c.get("np"):
        return getattr(np, c["np"])(v)
    return v


def ser_invoke(np, obj, c):
    """perform one call on a real Serializer; returns the forked object or None"""
    name = ser_method(c)
    f = getattr(obj, name)
    m = c["m"]
    if m in ("skip", "pad", "fork"):
        return f(c["n"])
    if m in ("u", "s", "uneg"):
        return f(_int_arg(np, c)) if name[-1].isdigit() else f(_int_arg(np, c), c["n"])
    if m == "f":
        x = struct.unpack("<d", bytes(c["val"]))[0]
        if c.get("np"):
            import warnings

            with warnings.catch_warnings():
                warnings.simplefilter("ignore")
                x = getattr(np, c["np"])(x)
        return f(x)
    if m == "bit":
        return f(np.bool_(c["val"]) if c.get("np") else bool(c["val"]))
    if m == "bytes":
        return f(np.array(c["val"], dtype=np.uint8))
    if m == "bits":
        return f(np.array(c["val"], dtype=np.bool_))
    if m == "arr":
        return f(np.frombuffer(bytes(c["val"]), dtype=getattr(np, c["np"])).copy())
    raise MachineryFailure("unknown serializer call %r" % (c,))


def des_invoke(np, obj, c):
    name = des_method(c)
    f = getattr(obj, name)
    m = c["m"]
    if m in ("skip", "pad", "fork"):
        return f(c["n"])
    if m == "neg":
        return f(-1 - (c["n"] % 3))
    if m in ("u", "s"):
        return f() if name[-1].isdigit() else f(c["n"])
    if m in ("f", "bit"):
        return f()
    if m in ("bytes", "bits"):
        return f(c["n"])
    if m == "arr":
        dt = getattr(np, c["np"])
        return f(dt, c["n"] // np.dtype(dt).itemsize)
    raise MachineryFailure("unknown deserializer call %r" % (c,))


def call_value_bytes(c):
    """the `v` field of the trace record (see PySupportTrace.tla)"""
    m = c["m"]
    if m in ("u", "s"):
        return list((int(c["val"]) & ((1 << 128) - 1)).to_bytes(16, "little"))
    if m in ("f", "bytes", "arr"):
        return list(c["val"])
    if m in ("bit",):
        return [1 if c["val"] else 0]
    if m == "bits":
        return [1 if b else 0 for b in c["val"]]
    return []


def _fl(c):
    return {"float16": 16, "float32": 32, "float64": 64}.get(c.get("np") or "", 0) if c["m"] == "arr" else 0


def _res_bytes(np, c, r):
    m = c["m"]
    if m in ("u", "s"):
        return list((int(r) & ((1 << 64) - 1)).to_bytes(8, "little")) if -(1 << 63) <= int(r) < (1 << 64) else [255] * 9
    if m == "f":
        return list(struct.pack("<d", float(r)))
    if m == "bit":
        return [1 if r else 0]
    if m == "bits":
        return [1 if b else 0 for b in r]
    if m in ("bytes", "arr"):
        a = np.asarray(r)
        if m == "arr" and a.dtype != np.dtype(getattr(np, c["np"])):
            return [255] * (len(a.tobytes()) + 1)  # wrong dtype: a result that cannot be right
        return list(a.tobytes())
    return []


def frag_views(np, frags, style):
    """the Sequence[memoryview] handed to Deserializer.new"""
    out = []
    for i, f in enumerate(frags):
        s = (style + i) % 3 if style >= 3 else style
        if s == 0:
            out.append(memoryview(bytes(f)))
        elif s == 1:
            out.append(memoryview(bytearray(f)))
        else:
            out.append(memoryview(np.array(list(f), dtype=np.uint8)))
    return out


def execute(sup, hist):
    """run one history on real objects; returns the trace record (observations after every step)"""
    import numpy as np

    kind = hist["kind"]
    if kind == "ser":
        objs = [sup.Serializer.new(hist["cap"])]
    else:
        objs = [sup.Deserializer.new(frag_views(np, hist["frags"], hist.get("style", 0)))]
    steps = []
    for c in hist["calls"]:
        st = {"o": c["o"], "m": c["m"], "n": c["n"], "k": c["k"], "std": 1 if c.get("std") else 0, "fl": _fl(c), "v": call_value_bytes(c) if kind == "ser" else [],
              "err": "", "r": []}
        try:
            if c["o"] - 1 >= len(objs):  # an earlier fork_bytes did not deliver the object (that step is rejected already)
                raise LookupError("no such object")
            obj = objs[c["o"] - 1]
            res = (ser_invoke if kind == "ser" else des_invoke)(np, obj, c)
            if c["m"] == "fork":
                objs.append(res)
            elif kind == "des":
                st["r"] = _res_bytes(np, c, res)
        except Exception as ex:  # pylint: disable=broad-except
            st["err"] = type(ex).__name__
            st["errtext"] = str(ex)[:160]
        try:
            if kind == "ser":
                st["curs"] = [int(x.current_bit_length) for x in objs]
                st["imgs"] = [list(bytes(x.buffer.tobytes())) for x in objs]
            else:
                st["curs"] = [int(x.consumed_bit_length) for x in objs]
                st["tots"] = [int(x.consumed_bit_length + x.remaining_bit_length) for x in objs]
        except Exception as ex:  # pylint: disable=broad-except
            st["err"] = st["err"] or ("observe:" + type(ex).__name__)
            st.setdefault("curs", [])
            st.setdefault("imgs" if kind == "ser" else "tots", [])
        steps.append(st)
    return {"kind": kind, "cap": hist.get("cap", 0), "frags": [list(f) for f in hist.get("frags", [])], "steps": steps}


# ------------------------------------------------------------------ random histories (code -> spec)
def _uval(rng, n):
    r = rng.random()
    top = (1 << n) - 1
    if r < 0.12:
        return 0
    if r < 0.24:
        return top
    if r < 0.32:
        return 1 << (n - 1)
    if r < 0.38:
        return top - 1
    if r < 0.44:
        return 1
    return rng.getrandbits(n)


def _sval(rng, n):
    r = rng.random()
    lo, hi = -(1 << (n - 1)), (1 << (n - 1)) - 1
    if r < 0.15:
        return lo
    if r < 0.3:
        return hi
    if r < 0.42:
        return -1
    if r < 0.5:
        return 0
    if r < 0.56:
        return lo + 1
    return rng.randint(lo, hi)


_F_SPECIAL = [0.0, -0.0, 1.0, -1.0, math.inf, -math.inf, math.nan, 65504.0, 65519.99, 65520.0, -65520.0, 1e5, -1e5, 5.96e-8, 2.9e-8, 6.1e-5, 3.4028234663852886e38,
              3.5e38, -3.5e38, 1e39, 1e-46, 1.4e-45, 1.7976931348623157e308, 5e-324, 0.1, 1 / 3, 1e-7]


def _fval(rng, w):
    r = rng.random()
    if r < 0.45:
        return rng.choice(_F_SPECIAL)
    if r < 0.8:  # a pattern of the target width: exactly representable
        fmt = {16: "<e", 32: "<f", 64: "<d"}[w]
        return struct.unpack(fmt, rng.getrandbits(w).to_bytes(w // 8, "little"))[0]
    return struct.unpack("<d", rng.getrandbits(64).to_bytes(8, "little"))[0]


def _np_for(n, signed):
    w = next(x for x in STD if x >= n)
    return ("int%d" if signed else "uint%d") % w


def gen_ser_call(rng, o, cur, room):
    """one random write-side call for an object with cursor `cur` and `room` bits left; returns (call, advance) or None"""
    al = cur % 8 == 0
    for _ in range(20):
        m = rng.choice(["u", "u", "s", "s", "f", "bit", "bytes", "bits", "arr", "skip", "pad", "uneg"])
        k = rng.choice(["ow", "or"]) if (al and m not in ("bit", "skip", "pad")) else "or"  # add_unaligned_bit is the only single-bit method
        c = {"o": o, "m": m, "k": k, "n": 0, "std": 0}
        if m in ("u", "s"):
            n = rng.choice([rng.randint(1 if m == "u" else 2, 64), rng.choice([8, 16, 32, 64]), rng.choice([1, 2, 3, 7, 9, 15, 17, 31, 33, 63, 64])])
            n = max(n, 2) if m == "s" else n
            c["n"] = n
            c["std"] = 1 if (n in STD and k == "ow" and rng.random() < 0.6) else 0
            c["val"] = _uval(rng, n) if m == "u" else _sval(rng, n)
            if m == "u" and rng.random() < 0.15 and not (c["std"] and n == 8):
                c["val"] |= rng.getrandbits(8) << n  # implicit truncation (add_aligned_u8 beyond 255: see truncation_probe)
            if not c["std"] and rng.random() < 0.4 and abs(c["val"]) < (1 << n):
                c["np"] = _np_for(n, m == "s")  # elements of integer arrays reach the library as NumPy scalars of the storage type
            adv = n
        elif m == "uneg":
            n = rng.choice([8, 16, 32, 64, rng.randint(1, 64)])
            c.update(n=n, std=1 if (n in STD and k == "ow" and rng.random() < 0.6) else 0, val=-rng.choice([1, 42, 1 << 20]))
            adv = 0
        elif m == "f":
            n = rng.choice([16, 32, 64])
            c.update(n=n, val=list(struct.pack("<d", _fval(rng, n))))
            adv = n
        elif m == "bit":
            c.update(n=1, val=rng.getrandbits(1), np="bool_" if rng.random() < 0.3 else None)
            adv = 1
        elif m == "bytes":
            cnt = rng.choice([0, 1, 2, 3, rng.randint(0, 9)])
            c.update(n=cnt, val=[rng.choice([0, 255, rng.getrandbits(8)]) for _ in range(cnt)])
            adv = 8 * cnt
        elif m == "bits":
            cnt = rng.choice([0, 1, 3, 7, 8, 9, rng.randint(0, 24)])
            c.update(n=cnt, val=[rng.getrandbits(1) for _ in range(cnt)])
            adv = cnt
        elif m == "arr":
            dt = rng.choice(INT_DTYPES + FLOAT_DTYPES)
            size = int(dt.lstrip("uintfloa")) // 8
            cnt = rng.choice([0, 1, 2, rng.randint(0, 5)])
            if dt.startswith("float"):
                raw = b"".join(struct.pack({2: "<e", 4: "<f", 8: "<d"}[size], _safe_float(rng, size * 8)) for _ in range(cnt))
            else:
                raw = bytes(rng.choice([0, 255, rng.getrandbits(8)]) for _ in range(cnt * size))
            c.update(n=cnt * size, val=list(raw), np=dt)
            adv = 8 * cnt * size
        elif m == "skip":
            adv = rng.choice([0, 1, 3, 5, 7, 8, 16, rng.randint(0, 40)])
            c["n"] = adv
        else:  # pad
            a = rng.choice([8, 8, 8, 16, 32, 64, 1])
            c["n"] = a
            adv = (a - cur % a) % a
        if adv <= room:
            return c, adv
    return None


def _safe_float(rng, w):
    """a float that struct can pack into width w (arrays hold values of their own width)"""
    fmt = {16: "<e", 32: "<f", 64: "<d"}[w]
    return struct.unpack(fmt, rng.getrandbits(w).to_bytes(w // 8, "little"))[0]


def gen_ser_history(rng, ncalls, wild):
    cap = rng.choice([rng.randint(8, 40), rng.randint(20, 48)])
    objs = [{"base": 0, "cap": cap, "cur": 0, "done": False, "parent": None, "hdr": 0}]  # python-side bookkeeping of the cursors (not an oracle)
    calls = []
    active = 0  # disciplined mode: the object that writes now
    while len(calls) < ncalls:
        if wild:
            oi = rng.randrange(len(objs))
        else:
            oi = active
            par = objs[oi]["parent"]
            if par is not None and not objs[oi].get("hdr_done") and objs[oi]["hdr"] and rng.random() < 0.25:
                # the parent continues while the child is in use: it writes the delimiter header the child skipped
                objs[oi]["hdr_done"] = True
                calls.append({"o": par + 1, "m": "u", "k": "ow", "n": 32, "std": 1, "val": rng.getrandbits(16)})
                objs[par]["cur"] += 32
                continue
        ob = objs[oi]
        room = 8 * ob["cap"] - ob["cur"]
        r = rng.random()
        if ob["cur"] % 8 == 0 and len(objs) < 6 and r < (0.12 if not wild else 0.08):
            avail = ob["cap"] - ob["cur"] // 8
            k = rng.choice([0, 1, 2, 4, 6, avail, avail + 1, max(avail - 1, 0), rng.randint(0, max(avail, 1))])
            calls.append({"o": oi + 1, "m": "fork", "k": "or", "n": k, "std": 0})
            if k <= avail:
                hdr = 4 if (k >= 5 and rng.random() < 0.7) else 0
                objs.append({"base": ob["base"] + ob["cur"], "cap": k, "cur": 0, "done": False, "parent": oi, "hdr": hdr})
                if not wild:
                    active = len(objs) - 1
                    if hdr:
                        calls.append({"o": active + 1, "m": "skip", "k": "or", "n": 32, "std": 0})
                        objs[active]["cur"] = 32
            continue
        if ob["cur"] % 8 != 0 and r < 0.03:
            calls.append({"o": oi + 1, "m": "fork", "k": "or", "n": 0, "std": 0})  # "raises ValueError if the forked instance is not byte-aligned"
            continue
        if not wild and ob["parent"] is not None and (r > 0.85 or room < 8):
            # the child is finished: the parent writes the header (if it has not yet) and skips what the child wrote
            par = ob["parent"]
            if ob["hdr"] and not ob.get("hdr_done"):
                calls.append({"o": par + 1, "m": "u", "k": "ow", "n": 32, "std": 1, "val": max(ob["cur"] - 32, 0) // 8})
                objs[par]["cur"] += 32
            skip = ob["cur"] - (32 if ob["hdr"] else 0)
            calls.append({"o": par + 1, "m": "skip", "k": "or", "n": skip, "std": 0})
            objs[par]["cur"] += skip
            ob["done"] = True
            active = par
            continue
        g = gen_ser_call(rng, oi + 1, ob["cur"], room)
        if g is None:
            if not wild and ob["parent"] is not None:
                continue
            if all(8 * x["cap"] - x["cur"] < 1 for x in objs):
                break
            calls.append({"o": oi + 1, "m": "skip", "k": "or", "n": 0, "std": 0})
            continue
        c, adv = g
        calls.append(c)
        ob["cur"] += adv
    return {"kind": "ser", "cap": cap, "calls": calls, "wild": wild}


def gen_des_calls(rng, ncalls, datalen):
    """a random call sequence for a deserializer whose input has `datalen` bytes (cursors tracked only to respect the alignment precondition)"""
    objs = [{"len": datalen, "cur": 0}]
    calls = []
    while len(calls) < ncalls:
        oi = rng.randrange(len(objs)) if rng.random() < 0.5 else len(objs) - 1
        ob = objs[oi]
        al = ob["cur"] % 8 == 0
        m = rng.choice(["u", "u", "s", "s", "f", "bit", "bytes", "bits", "arr", "skip", "pad", "fork", "neg"])
        k = rng.choice(["ow", "or"]) if (al and m not in ("bit", "skip", "pad")) else "or"
        c = {"o": oi + 1, "m": m, "k": k, "n": 0, "std": 0}
        if m in ("u", "s"):
            n = rng.choice([rng.randint(1 if m == "u" else 2, 64), rng.choice([8, 16, 32, 64]), rng.choice([2, 3, 7, 9, 15, 17, 31, 33, 63, 64])])
            c.update(n=n, std=1 if (n in STD and k == "ow" and rng.random() < 0.6) else 0)
            adv = n
        elif m == "f":
            c["n"] = rng.choice([16, 32, 64])
            adv = c["n"]
        elif m == "bit":
            c["n"] = 1
            adv = 1
        elif m == "bytes":
            c["n"] = rng.choice([0, 1, 2, 3, rng.randint(0, 9)])
            adv = 8 * c["n"]
        elif m == "bits":
            c["n"] = rng.choice([0, 1, 3, 7, 8, 9, rng.randint(0, 24)])
            adv = c["n"]
        elif m == "arr":
            dt = rng.choice(INT_DTYPES + FLOAT_DTYPES)
            size = int(dt.lstrip("uintfloa")) // 8
            c.update(n=size * rng.choice([0, 1, 2, rng.randint(0, 4)]), np=dt)
            adv = 8 * c["n"]
        elif m == "skip":
            c["n"] = rng.choice([0, 1, 3, 5, 7, 8, 16, rng.randint(0, 40)])
            adv = c["n"]
        elif m == "pad":
            c["n"] = rng.choice([8, 8, 8, 16, 32, 64, 1])
            adv = (c["n"] - ob["cur"] % c["n"]) % c["n"]
        elif m == "neg":
            if not al or rng.random() < 0.7:
                continue
            c.update(k="ow", n=rng.randint(0, 2), which=rng.choice(["fetch_aligned_bytes", "fetch_aligned_array_of_bits"]))
            adv = 0
        else:  # fork: inside, exactly the rest, one too many, beyond the end, unaligned
            if len(objs) >= 6 or rng.random() < 0.5:
                continue
            rem = max(8 * ob["len"] - ob["cur"], 0) // 8
            kk = rng.choice([0, 1, 2, rem, rem + 1, max(rem - 1, 0), rng.randint(0, rem + 1)])
            c.update(k="or", n=kk)
            if al and kk <= rem:
                objs.append({"len": kk, "cur": 0})
            adv = 0
        calls.append(c)
        ob["cur"] += adv
    return calls


def fragmentations(rng, data, how):
    """how: "whole" | "bytes" | "random" | ("cut", p)"""
    data = bytes(data)
    if how == "whole":
        return [data]
    if how == "bytes":
        return [data[i:i + 1] for i in range(len(data))]
    if isinstance(how, tuple):
        return [data[:how[1]], data[how[1]:]]
    cuts = sorted(rng.sample(range(len(data) + 1), min(len(data) + 1, rng.randint(0, 4)))) if data else []
    parts, prev = [], 0
    for cpos in cuts:
        parts.append(data[prev:cpos])
        prev = cpos
    parts.append(data[prev:])
    out = []
    for p in parts:  # empty fragments anywhere
        if rng.random() < 0.25:
            out.append(b"")
        out.append(p)
    if rng.random() < 0.25:
        out.append(b"")
    return out


# ------------------------------------------------------------------ spec -> code
def _bits_to_int(bits):
    return sum(b << i for i, b in enumerate(bits))


def call_from_model(kind, s):
    """a step emitted by PySupport.tla -> concrete call"""
    c = {"o": s["o"], "m": s["m"], "n": s["n"], "k": s["k"], "std": s.get("std", 0)}
    if kind == "ser":
        v = s.get("v", [])
        if s["m"] == "u":
            c["val"] = _bits_to_int(v)
            # add_aligned_u8 with a value beyond 255 is the business of truncation_probe (one call per history there)
            c["std"] = 1 if (s["n"] in STD and s["k"] == "ow" and (s["o"] + sum(v)) % 2 == 0 and not (s["n"] == 8 and c["val"] > 255)) else 0
        elif s["m"] == "uneg":
            c["val"] = -42
            c["std"] = 1 if s["k"] == "ow" else 0
        elif s["m"] == "bit":
            c["val"] = v[0]
        elif s["m"] == "bytes":
            c["val"] = [_bits_to_int(v[i:i + 8]) for i in range(0, len(v), 8)]
        elif s["m"] == "bits":
            c["val"] = list(v)
    elif s["m"] == "neg":
        c["k"] = "ow"
        c["which"] = "fetch_aligned_bytes" if s["o"] % 2 else "fetch_aligned_array_of_bits"
    return c


def _bytes_to_bits(bs, nbits=None):
    out = []
    for b in bs:
        out.extend((b >> i) & 1 for i in range(8))
    return out if nbits is None else out[:nbits]


def compare_step(kind, exp, obs, before):
    """expected abstract outcome of one emitted step vs what the real object did; returns a clause or None.
    `before`: cursors (and bases, for the serializer) of the objects before the call"""
    if obs["err"] != exp["err"]:
        return "pysup.fork" if exp["m"] == "fork" else ("pysup.noret" if exp["err"] == "" else "pysup.raises")
    if len(obs["curs"]) != len(exp["curs"]):
        return "pysup.fork"
    if list(obs["curs"]) != list(exp["curs"]):
        return "pysup.fork" if exp["m"] == "fork" else "pysup.cursor"
    if kind == "ser":
        o = exp["o"] - 1
        pos = before["base"][o] + before["cur"][o]
        adv = exp["curs"][o] - before["cur"][o]
        bases = before["base"] + ([pos] if len(exp["curs"]) > len(before["cur"]) else [])
        worst = None
        for j, view in enumerate(exp["views"]):
            ob = _bytes_to_bits(obs["imgs"][j])
            if len(ob) != len(view):
                return "pysup.fork" if exp["m"] == "fork" else "pysup.bits"
            for i, (e, g) in enumerate(zip(view, ob)):
                if e != 2 and e != g:
                    a = bases[j] + i
                    if pos <= a < pos + adv:
                        return "pysup.bits"
                    worst = "pysup.fork" if exp["m"] == "fork" else "pysup.untouched"
        return worst
    if list(obs["tots"]) != list(exp["tots"]):
        return "pysup.fork" if exp["m"] == "fork" else "pysup.cursor"
    if exp["err"] == "":
        m = exp["m"]
        got = obs["r"] if m in ("bit", "bits") else _bytes_to_bits(obs["r"])
        if list(got) != list(exp["res"]):
            o = exp["o"] - 1
            if m == "s" and got[:exp["n"]] == list(exp["res"])[:exp["n"]]:
                return "pysup.signext"
            if exp["curs"][o] > before["tot"][o]:
                return "pysup.zero_ext"
            return "pysup.fetch"
    return None


def replay_model_history(sup, rec):
    """execute one TLC-emitted history; returns (clause, step index, trace record, history) for the first mismatch or (None, ...)"""
    kind = rec["kind"]
    calls = [call_from_model(kind, s) for s in rec["steps"]]
    hist = {"kind": kind, "cap": rec.get("cap", 0), "frags": [bytes(f) for f in rec.get("frags", [])], "calls": calls, "style": len(calls) % 3}
    tr = execute(sup, hist)
    before = {"base": [0], "cur": [0], "tot": [8 * sum(len(f) for f in hist["frags"])]}
    for i, (exp, obs) in enumerate(zip(rec["steps"], tr["steps"])):
        clause = compare_step(kind, exp, obs, before)
        if clause:
            return clause, i, tr, hist
        if len(exp["curs"]) > len(before["cur"]):
            o = exp["o"] - 1
            before["base"].append(before["base"][o] + before["cur"][o])
            if kind == "des":
                before["tot"].append(exp["tots"][-1])
        before["cur"] = list(exp["curs"])
    return None, -1, tr, hist


def _emit_cfg(ctx, name, kind, maxcalls, level, fragmode="join", sim=False):
    p = pathlib.Path(ctx.scratch) / (name + ".cfg")
    p.write_text("SPECIFICATION " + ("SimSpec" if sim else "Spec") + "\nCONSTANTS\n  Kind = \"%s\"\n  MaxCalls = %d\n  Level = %d\n  FragMode = \"%s\"\n  Bug = \"none\"\n  Emit = TRUE\n"
                 "INVARIANT EmitInv\nCHECK_DEADLOCK FALSE\n" % (kind, maxcalls, level, fragmode))
    return str(p)


# ------------------------------------------------------------------ verdict plumbing
def _owner(owner_of_clause, clause):
    if owner_of_clause is None:
        return DEFAULT_PROP
    if callable(owner_of_clause):
        return owner_of_clause(clause) or DEFAULT_PROP
    return owner_of_clause.get(clause, DEFAULT_PROP)


def _method_of(hist, step):
    if step is None and hist.get("probe"):
        return "buffer"
    if step is None or step < 0 or step >= len(hist["calls"]):
        return "history"
    c = hist["calls"][step]
    return (ser_method if hist["kind"] == "ser" else des_method)(c)


_ONLY_OWNED = [False]


def _report(ctx, owner_of_clause, clause, hist, step, what, trace=None):
    method = _method_of(hist, step)
    owner = _owner(owner_of_clause, clause)
    if _ONLY_OWNED[0] and owner != ctx.pid:  # the property that owns the clause reports it (its own run of this campaign)
        tally = ctx.cov.setdefault("clauses_owned_by_other_checks", {})
        tally["%s (%s)" % (clause, owner)] = tally.get("%s (%s)" % (clause, owner), 0) + 1
        return
    sig = "%s|%s|py|%s" % (owner, clause, method)
    case = {"mode": "history", "history": _jsonable(hist), "step": step, "clause": clause}
    if trace is not None and step is not None and 0 <= step < len(trace["steps"]):
        case["observed_step"] = trace["steps"][step]
    ctx.violation(sig, "%s at call %s (%s) of a %s history: %s" % (clause, step, method, hist["kind"], what), case)


def _jsonable(hist):
    h = dict(hist)
    if "frags" in h:
        h["frags"] = [list(f) for f in h["frags"]]
    return h


def _from_jsonable(h):
    h = dict(h)
    if "frags" in h:
        h["frags"] = [bytes(f) for f in h["frags"]]
    return h


def judge(ctx, records, batch):
    """T-layer verdicts {id: (clause, step)}"""
    rej = tlc.validate_traces(ctx, "PySupportTrace", records, batch=batch, timeout=1800, xmx="2g")
    out = {}
    for rid, txt in rej.items():
        parts = txt.split()
        out[rid] = (parts[0], int(parts[1]) - 1 if len(parts) > 1 and parts[1].lstrip("-").isdigit() else None)
    return out


# ------------------------------------------------------------------ the check
def truncation_probe(ctx, sup, owner_of_clause, histories):
    """"All methods operating on scalars implicitly truncate the value if it exceeds the range, excepting signed integers": every unsigned scalar
    method with a value beyond its width, at an aligned and at an unaligned cursor (one call per history so that one failure hides nothing)"""
    for n, std, k in [(8, 1, "ow"), (16, 1, "ow"), (32, 1, "ow"), (64, 1, "ow"), (8, 0, "ow"), (5, 0, "ow"), (13, 0, "ow"), (64, 0, "ow"), (8, 0, "or"), (5, 0, "or"),
                      (13, 0, "or"), (64, 0, "or")]:
        for extra in (1, 0xA5):
            val = (extra << n) | (0x5A5A5A5A5A5A5A5A & ((1 << n) - 1))
            pre = [] if k == "ow" else [{"o": 1, "m": "skip", "k": "or", "n": 3, "std": 0}]
            histories.append({"kind": "ser", "cap": 12, "calls": pre + [{"o": 1, "m": "u", "k": k, "n": n, "std": std, "val": val},
                                                                         {"o": 1, "m": "pad", "k": "or", "n": 8, "std": 0}], "origin": "truncation"})


def systematic_ser(histories):
    """aligned methods ASSIGN: a parent that writes where its fork has written already replaces those bits (every aligned method class); and the
    documented delimited pattern: fork, skip the header, write, the parent writes the header and skips what the fork wrote, then goes on"""
    ff = {"o": 2, "m": "bytes", "k": "ow", "n": 8, "std": 0, "val": [255] * 8}
    writes = [{"m": "u", "k": "ow", "n": 8, "std": 1, "val": 0x21}, {"m": "u", "k": "ow", "n": 32, "std": 1, "val": 0x01020304}, {"m": "u", "k": "ow", "n": 13, "std": 0, "val": 0x0A51},
              {"m": "s", "k": "ow", "n": 16, "std": 1, "val": -32767}, {"m": "s", "k": "ow", "n": 11, "std": 0, "val": -1000}, {"m": "f", "k": "ow", "n": 32, "val": list(struct.pack("<d", 1.5))},
              {"m": "f", "k": "ow", "n": 16, "val": list(struct.pack("<d", 0.5))}, {"m": "bytes", "k": "ow", "n": 3, "val": [1, 0, 0x80]}, {"m": "bits", "k": "ow", "n": 11, "val": [1, 0, 0, 1, 0, 0, 0, 0, 0, 1, 0]},
              {"m": "arr", "k": "ow", "n": 4, "val": [1, 0, 2, 0], "np": "uint16"}, {"m": "arr", "k": "ow", "n": 4, "val": [0, 0, 0x80, 0x3F], "np": "float32"}]
    for w in writes:
        c = dict(w, o=1)
        c.setdefault("std", 0)
        histories.append({"kind": "ser", "cap": 16, "origin": "systematic", "calls": [{"o": 1, "m": "fork", "k": "or", "n": 12, "std": 0}, ff, c, {"o": 1, "m": "pad", "k": "or", "n": 8, "std": 0},
                                                                                     {"o": 1, "m": "skip", "k": "or", "n": 16, "std": 0}]})
    for lead in (0, 8, 24):
        for body in ([{"m": "u", "k": "or", "n": 5, "std": 0, "val": 21}, {"m": "s", "k": "or", "n": 12, "std": 0, "val": -3}], [{"m": "bytes", "k": "ow", "n": 3, "std": 0, "val": [9, 8, 7]}],
                     [{"m": "bit", "k": "or", "n": 1, "std": 0, "val": 1}, {"m": "pad", "k": "or", "n": 8, "std": 0}, {"m": "u", "k": "ow", "n": 16, "std": 1, "val": 0xBEEF}]):
            calls = ([{"o": 1, "m": "skip", "k": "or", "n": lead, "std": 0}] if lead else []) + [{"o": 1, "m": "fork", "k": "or", "n": 10, "std": 0}, {"o": 2, "m": "skip", "k": "or", "n": 32, "std": 0}]
            calls += [dict(b, o=2) for b in body] + [{"o": 2, "m": "pad", "k": "or", "n": 8, "std": 0}]
            adv = sum({"u": b["n"], "s": b["n"], "bit": 1, "bytes": 8 * b["n"], "pad": 0}[b["m"]] for b in body)
            adv = (adv + 7) // 8 * 8
            calls += [{"o": 1, "m": "u", "k": "ow", "n": 32, "std": 1, "val": adv // 8}, {"o": 1, "m": "skip", "k": "or", "n": adv, "std": 0}, {"o": 1, "m": "u", "k": "or", "n": 7, "std": 0, "val": 0x55},
                      {"o": 2, "m": "fork", "k": "or", "n": 1, "std": 0}]
            histories.append({"kind": "ser", "cap": 20, "origin": "systematic", "calls": calls})


def systematic_des(rng, histories):
    """a multi-byte fetch x every data length around it (ends before / inside / after the fetch) x every single cut and the per-byte fragmentation"""
    fetches = [{"m": "u", "k": "ow", "n": 32, "std": 1}, {"m": "u", "k": "ow", "n": 29, "std": 0}, {"m": "s", "k": "or", "n": 27, "std": 0}, {"m": "f", "k": "ow", "n": 32, "std": 0},
               {"m": "f", "k": "or", "n": 64, "std": 0}, {"m": "bytes", "k": "ow", "n": 4, "std": 0}, {"m": "bytes", "k": "or", "n": 3, "std": 0}, {"m": "bits", "k": "ow", "n": 19, "std": 0},
               {"m": "bits", "k": "or", "n": 21, "std": 0}, {"m": "arr", "k": "ow", "n": 4, "std": 0, "np": "uint16"}, {"m": "arr", "k": "or", "n": 8, "std": 0, "np": "float32"},
               {"m": "s", "k": "ow", "n": 64, "std": 1}, {"m": "bit", "k": "or", "n": 1, "std": 0}]
    for fi, f in enumerate(fetches):
        for lead in (0, 3, 8, 13):
            if f["k"] == "ow" and lead % 8:
                continue
            calls = ([{"o": 1, "m": "skip", "k": "or", "n": lead, "std": 0}] if lead else []) + [dict(f, o=1), {"o": 1, "m": "u", "k": "or", "n": 9, "std": 0}]
            need = (lead + 80 + 7) // 8
            for dl in sorted({0, lead // 8, lead // 8 + 1, (lead + 12) // 8, need - 2, need, need + 2}):
                if dl < 0:
                    continue
                data = bytes(rng.choice([255, rng.getrandbits(8)]) for _ in range(dl))
                group = "sys-%d-%d-%d" % (fi, lead, dl)
                hows = ["whole", "bytes"] + [("cut", p) for p in range(0, dl + 1)]
                for hi, how in enumerate(hows):
                    histories.append({"kind": "des", "frags": fragmentations(rng, data, how), "calls": calls, "style": hi % 4, "group": group, "origin": "systematic"})


def run_pysupport(ctx, owner_of_clause=None, report_only_owned=False):
    """owner_of_clause: {clause: property id} (or a callable), default C14 for every clause; signatures are "<PROP>|<clause>|py|<method>".
    report_only_owned: clauses owned by another property than ctx.pid are tallied in the evidence instead of reported (when two property files call this)"""
    _ONLY_OWNED[0] = bool(report_only_owned)
    rng = ctx.rng
    sup = load_support(ctx)
    import numpy as np  # noqa: F401

    # ---- 1. the bounded design: I refines P for every history, fragmentation independence, negative controls
    models = [("PySupport_ser", "ser: every history of <= 4 calls, capacity 3, 2 objects"), ("PySupport_des", "des: every history of <= 4 calls x every input <= 2 bytes over {00,FF,A5} x every fragmentation"),
              ("PySupport_des_walk", "des, fragment-walking buffer: <= 3 calls")]
    if not ctx.quick:
        models += [("PySupport_ser_2", "ser: <= 4 calls, capacities 0 and 4, 3 objects, larger alphabet"), ("PySupport_des_2", "des: <= 3 calls x inputs <= 3 bytes x every fragmentation (one empty fragment)"),
                   ("PySupport_des_4", "des: <= 2 calls x inputs <= 4 bytes x every fragmentation with empty fragments in every subset of the gaps")]
    negs = [("PySupport_neg_aligned_or", "RefinesSer"), ("PySupport_neg_unaligned_clear", "RefinesSer"), ("PySupport_neg_walk_nozx", "RefinesDes"),
            ("PySupport_neg_fork_noclamp", "RefinesDes"), ("PySupport_neg_getbyte_off1", "FragIndep")]
    def model_job(job):
        name, what = job
        return job, tlc.run_tlc(tlc.SPECS / "PySupport.tla", tlc.SPECS / (name + ".cfg"), ctx.scratch, workers=2 if "_neg_" in name else max(2, NCPU // 2), timeout=3000,
                                constants=what)

    def emit_job(job):
        name, kind, maxcalls, level, sim = job
        cfg = _emit_cfg(ctx, name, kind, maxcalls, level, sim=bool(sim))
        kw = dict(simulate="num=%d" % sim, depth=maxcalls + 1, seed=ctx.seed + 1) if sim else {}
        return job, tlc.run_tlc(tlc.SPECS / "PySupport.tla", cfg, ctx.scratch, workers=1, timeout=3000, constants="Level=%d MaxCalls=%d%s" % (level, maxcalls, " (-simulate)" if sim else ""), **kw)

    emits = [("emit_ser", "ser", ctx.pick(2, 3), 1, 0), ("emit_des", "des", ctx.pick(1, 2), 1, 0),
             ("sim_ser", "ser", 14, 3, ctx.pick(400, 4000)), ("sim_des", "des", 12, 3, ctx.pick(400, 4000))]
    with concurrent.futures.ThreadPoolExecutor(max_workers=NCPU) as ex:
        f_models = [ex.submit(model_job, j) for j in models]
        f_negs = [ex.submit(model_job, j) for j in negs]
        f_emits = [ex.submit(emit_job, j) for j in emits]
        # ---- 3. (meanwhile) code -> spec: drive the real objects
        histories = []
        truncation_probe(ctx, sup, owner_of_clause, histories)
        systematic_ser(histories)
        systematic_des(rng, histories)
        nser, ndes = ctx.pick(120, 1500), ctx.pick(80, 1000)
        for i in range(nser):
            h = gen_ser_history(rng, rng.randint(20, 60), wild=(i % 4 == 3))
            h["origin"] = "random"
            histories.append(h)
        for i in range(ndes):
            style = rng.choice(["random", "random", "zeros", "ones"])
            ncalls = rng.randint(20, 60)
            # data ends before / inside / after what the calls consume
            dl = rng.choice([0, 1, 2, rng.randint(0, 8), rng.randint(0, 40), rng.randint(20, 120)])
            data = bytes({"random": rng.getrandbits(8), "zeros": 0, "ones": 255}[style] if style != "random" else rng.getrandbits(8) for _ in range(dl))
            calls = gen_des_calls(rng, ncalls, dl)
            hows = ["whole", "random", "random"] + (["bytes"] if dl <= 24 else []) + ([("cut", rng.randint(0, dl))] if dl else [])
            for hi, how in enumerate(hows):
                histories.append({"kind": "des", "frags": fragmentations(rng, data, how), "calls": calls, "style": rng.randint(0, 5), "group": "rnd-%d" % i, "origin": "random"})
        records = []
        for hid, h in enumerate(histories, 1):
            tr = execute(sup, h)
            tr["id"] = hid
            records.append(tr)
            ctx.count(len(h["calls"]))
            ctx.distinct("%s|%s|%d" % (h["kind"], h.get("group", hid), len(h["calls"])))
        results_models = [f.result() for f in f_models]
        results_negs = [f.result() for f in f_negs]
        results_emits = [f.result() for f in f_emits]

    for (name, what), res in results_models:
        if not res.ok:
            raise MachineryFailure("model %s did not pass: %s %s\n%s" % (name, res.error, res.violated, res.out[-2500:]))
        ctx.add_model(res, name + ".cfg")
    for (name, inv), res in results_negs:
        if res.violated != inv:
            raise MachineryFailure("negative control %s was not refuted by %s (got %s / %s)" % (name, inv, res.violated, res.error))
    ctx.cov["pysupport_negative_controls"] = ["%s refuted by %s" % n for n in negs]

    # ---- 2. spec -> code: replay the emitted behaviours
    n_model_hist = 0
    sample_done = False
    for (name, kind, maxcalls, level, sim), res in results_emits:
        if not res.ok:
            raise MachineryFailure("case emission %s failed: %s %s\n%s" % (name, res.error, res.violated, res.out[-2500:]))
        ctx.add_model(res, name)
        recs = res.json_lines()
        if sim:
            recs = [r for r in recs if len(r["steps"]) == maxcalls][:sim]
        if len(recs) < (sim or 10):
            raise MachineryFailure("too few emitted histories from %s: %d" % (name, len(recs)))
        for rec in recs:
            n_model_hist += 1
            ctx.count(len(rec["steps"]))
            clause, step, tr, hist = replay_model_history(sup, rec)
            if clause:
                hist["origin"] = name
                _report(ctx, owner_of_clause, clause, hist, step, "the real object differs from the abstract state the model expects (%s)" % name, tr)
            elif not sample_done and sim:
                ctx.sample({"direction": "spec->code", "from": name, "calls": [_method_of(hist, i) for i in range(len(hist["calls"]))][:8]})
                sample_done = True
        ctx.cov.setdefault("pysupport_emitted", {})[name] = len(recs)
        ctx.validated(len(recs))
    # binding self-test, spec -> code: perturb one expected outcome
    probe = next(r for (name, *_), res in results_emits if name == "emit_ser" for r in res.json_lines() if any(s["m"] == "u" and s["err"] == "" for s in r["steps"]))
    bad = json.loads(json.dumps(probe))
    si = next(i for i, s in enumerate(bad["steps"]) if s["m"] == "u" and s["err"] == "")
    bad["steps"][si]["curs"][bad["steps"][si]["o"] - 1] += 1
    ctx.selftest("spec->code: a perturbed expected cursor is reported by the replay driver", replay_model_history(sup, bad)[0] == "pysup.cursor")
    probe = next(r for (name, *_), res in results_emits if name == "emit_des" for r in res.json_lines() if any(s["m"] in ("u", "bytes") and s["err"] == "" and s["res"] for s in r["steps"]))
    bad = json.loads(json.dumps(probe))
    si = next(i for i, s in enumerate(bad["steps"]) if s["m"] in ("u", "bytes") and s["err"] == "" and s["res"])
    bad["steps"][si]["res"][0] ^= 1
    ctx.selftest("spec->code: a perturbed expected fetch result is reported by the replay driver", replay_model_history(sup, bad)[0] in ("pysup.fetch", "pysup.zero_ext"))

    # ---- 3. judge the recorded histories
    verdicts = judge(ctx, records, batch=ctx.pick(60, 150))
    by_id = {r["id"]: (r, h) for r, h in zip(records, histories)}
    accepted_groups = {}
    for rid, (clause, step) in sorted(verdicts.items()):
        tr, h = by_id[rid]
        if clause.startswith("harness"):
            raise MachineryFailure("the history generator produced a call outside the documented preconditions: %s step %s of %s" % (clause, step, json.dumps(_jsonable(h))[:600]))
        what = "observed %s" % json.dumps(tr["steps"][step])[:300] if step is not None and step < len(tr["steps"]) else ""
        _report(ctx, owner_of_clause, clause, h, step, what, tr)
    # fragmentation independence, oracle-free: the same calls on the same bytes cut differently must be observed identically
    groups = {}
    for tr, h in zip(records, histories):
        if h["kind"] == "des" and "group" in h:
            groups.setdefault(h["group"], []).append((tr, h))
    nfrag = 0
    for g, members in groups.items():
        ref_tr, ref_h = members[0]
        ref = [(s["err"], s["r"], s["curs"], s["tots"]) for s in ref_tr["steps"]]
        for tr, h in members[1:]:
            nfrag += 1
            got = [(s["err"], s["r"], s["curs"], s["tots"]) for s in tr["steps"]]
            if got != ref:
                step = next(i for i, (a, b) in enumerate(zip(got, ref)) if a != b)
                _report(ctx, owner_of_clause, "pysup.frag_indep", h, step, "fragments %r give %r, the unfragmented input gives %r"
                        % ([len(f) for f in h["frags"]], got[step], ref[step]), tr)
    ctx.cov["pysupport_fragmentation_pairs"] = nfrag
    # ---- binding self-tests, code -> spec
    _selftests(ctx, records, histories)
    good = next(r for r, h in zip(records, histories) if h.get("origin") == "random" and h["kind"] == "ser" and r["id"] not in verdicts)
    ctx.sample({"direction": "code->spec", "kind": "ser", "calls": len(good["steps"]), "first_steps": good["steps"][:2]})
    # ---- Serializer.buffer: "a properly sized read-only slice"
    if _buffer_writable(sup):
        _report(ctx, owner_of_clause, "pysup.untouched", {"kind": "ser", "cap": 4, "calls": [{"o": 1, "m": "u", "k": "ow", "n": 8, "std": 1, "val": 1}], "probe": "buffer[0] = 9"}, None,
                "Serializer.buffer is writable: the documented read-only slice lets a caller change bytes already written")
    # ---- the aligned-method-at-an-unaligned-cursor contract: a precondition ("the current bit offset must be byte-aligned"), nothing is asserted
    obs = {"raises": 0, "returns": 0}
    for name in ("add_aligned_u8", "add_aligned_bytes", "add_aligned_array_of_bits", "add_aligned_unsigned"):
        s = sup.Serializer.new(8)
        s.skip_bits(3)
        try:
            {"add_aligned_u8": lambda: s.add_aligned_u8(1), "add_aligned_bytes": lambda: s.add_aligned_bytes(np.zeros(1, dtype=np.uint8)),
             "add_aligned_array_of_bits": lambda: s.add_aligned_array_of_bits(np.zeros(3, dtype=np.bool_)), "add_aligned_unsigned": lambda: s.add_aligned_unsigned(1, 3)}[name]()
            obs["returns"] += 1
        except Exception:  # pylint: disable=broad-except
            obs["raises"] += 1
    ctx.cov["pysupport_aligned_method_at_unaligned_cursor"] = obs
    ctx.ambiguous("aligned methods called at an unaligned cursor: the docstrings state a precondition (\"the current bit offset must be byte-aligned\") and say nothing about "
                  "what happens otherwise (today: AssertionError, %d of %d probes) - no history contains such a call and nothing is asserted" % (obs["raises"], sum(obs.values())))
    ctx.cov["pysupport"] = {"model_histories_replayed": n_model_hist, "recorded_histories": len(records),
                            "recorded_calls": sum(len(h["calls"]) for h in histories), "rejected": len(verdicts)}
    ctx.assumptions += ["pysupport: TLC + PySupportP/Ieee are the oracle; the objects are observed through their public properties only (current_bit_length, buffer, "
                        "consumed_bit_length, remaining_bit_length, return values)",
                        "pysupport: serializer histories stay inside the capacity the object was created with; integer fetches are >= 1 bit (>= 2 signed); aligned methods "
                        "are called at aligned cursors only; signed values are inside their range (overflow handling of signed integers is documented as not implemented)"]
    ctx.not_exercised("pysupport: _BigEndianSerializer/_BigEndianDeserializer (raise NotImplementedError by design); writes beyond the capacity of a serializer; negative skip_bits")


def _selftests(ctx, records, histories):
    before = ctx.cov["traces_validated_against_impl"]
    bad = []
    want = {}
    ser = next(r for r, h in zip(records, histories) if h["kind"] == "ser" and h.get("origin") == "random" and len(r["steps"]) > 5 and any(sum(len(i) for i in s["imgs"]) > 2 for s in r["steps"]))
    b = json.loads(json.dumps(ser))
    si = next(i for i, s in enumerate(b["steps"]) if s["m"] in ("u", "s", "bytes") and s["n"] >= 8 and s["err"] == "" and s["imgs"][s["o"] - 1])
    img = b["steps"][si]["imgs"][b["steps"][si]["o"] - 1]
    img[-1 if b["steps"][si]["curs"][b["steps"][si]["o"] - 1] % 8 == 0 else -2 if len(img) > 1 else -1] ^= 0x01
    b["id"] = 900001
    bad.append(b)
    want[900001] = ("pysup.bits", "pysup.untouched")
    b = json.loads(json.dumps(ser))
    b["steps"][2]["curs"][0] += 1
    b["id"] = 900002
    bad.append(b)
    want[900002] = ("pysup.cursor", "pysup.fork")
    des = next(r for r, h in zip(records, histories) if h["kind"] == "des" and any(s["m"] == "u" and s["err"] == "" for s in r["steps"]))
    b = json.loads(json.dumps(des))
    si = next(i for i, s in enumerate(b["steps"]) if s["m"] == "u" and s["err"] == "")
    b["steps"][si]["r"][0] ^= 1
    b["id"] = 900003
    bad.append(b)
    want[900003] = ("pysup.fetch", "pysup.zero_ext")
    # a fetch beyond the end of the data that does not come back as zeros
    b = {"id": 900004, "kind": "des", "cap": 0, "frags": [[1, 2]], "steps": [
        {"o": 1, "m": "skip", "n": 16, "k": "or", "std": 0, "fl": 0, "v": [], "err": "", "r": [], "curs": [16], "tots": [16]},
        {"o": 1, "m": "u", "n": 8, "k": "ow", "std": 1, "fl": 0, "v": [], "err": "", "r": [1, 0, 0, 0, 0, 0, 0, 0], "curs": [24], "tots": [16]}]}
    bad.append(b)
    want[900004] = ("pysup.zero_ext",)
    # sign extension
    b = {"id": 900005, "kind": "des", "cap": 0, "frags": [[0xFF]], "steps": [
        {"o": 1, "m": "s", "n": 5, "k": "ow", "std": 0, "fl": 0, "v": [], "err": "", "r": [31, 0, 0, 0, 0, 0, 0, 0], "curs": [5], "tots": [8]}]}
    bad.append(b)
    want[900005] = ("pysup.signext",)
    # a fork of the deserializer that would see the bytes behind its range
    b = {"id": 900006, "kind": "des", "cap": 0, "frags": [[1], [2, 3]], "steps": [
        {"o": 1, "m": "fork", "n": 1, "k": "or", "std": 0, "fl": 0, "v": [], "err": "", "r": [], "curs": [0, 0], "tots": [24, 8]},
        {"o": 2, "m": "u", "n": 16, "k": "ow", "std": 1, "fl": 0, "v": [], "err": "", "r": [1, 2, 0, 0, 0, 0, 0, 0], "curs": [0, 16], "tots": [24, 8]}]}
    bad.append(b)
    want[900006] = ("pysup.zero_ext", "pysup.fetch")
    got = judge(ctx, bad, batch=10)
    ctx.cov["traces_validated_against_impl"] = before
    for rid, clauses in want.items():
        ctx.selftest("code->spec: corrupted record %d is rejected by PySupportTrace (%s)" % (rid, "/".join(clauses)), rid in got and got[rid][0] in clauses)


def _buffer_writable(sup):
    s = sup.Serializer.new(4)
    s.add_aligned_u8(1)
    try:
        s.buffer[0] = 9
        return True
    except ValueError:
        return False


def replay_pysupport(ctx, case, owner_of_clause=None):
    """re-run one recorded history on the current tree and judge it"""
    _ONLY_OWNED[0] = False
    sup = load_support(ctx)
    h = _from_jsonable(case["history"])
    if h.get("probe"):
        if _buffer_writable(sup):
            _report(ctx, owner_of_clause, "pysup.untouched", h, None, "replay: Serializer.buffer is writable")
        return
    tr = execute(sup, h)
    tr["id"] = 1
    for rid, (clause, step) in judge(ctx, [tr], batch=1).items():
        if clause.startswith("harness"):
            raise MachineryFailure("replay: call outside the documented preconditions")
        _report(ctx, owner_of_clause, clause, h, step, "replay", tr)
    if case.get("clause") == "pysup.frag_indep" and h["kind"] == "des":
        whole = dict(h, frags=[b"".join(h["frags"])])
        tr2 = execute(sup, whole)
        a = [(s["err"], s["r"], s["curs"], s["tots"]) for s in tr["steps"]]
        b = [(s["err"], s["r"], s["curs"], s["tots"]) for s in tr2["steps"]]
        if a != b:
            step = next(i for i, (x, y) in enumerate(zip(a, b)) if x != y)
            _report(ctx, owner_of_clause, "pysup.frag_indep", h, step, "replay: fragmented and unfragmented input differ", tr)


def main(argv=None):
    import argparse
    import os
    import traceback

    from .core import Ctx

    ap = argparse.ArgumentParser(description=__doc__.splitlines()[0])
    ap.add_argument("--tier", default=os.environ.get("VERIF_TIER", "quick"), choices=["quick", "thorough"])
    ap.add_argument("--replay", default=None)
    ap.add_argument("--seed", type=int, default=int(os.environ.get("VERIF_SEED", "0") or 0))
    a = ap.parse_args(argv)
    ctx = Ctx(DEFAULT_PROP, a.tier, a.seed)
    try:
        if a.replay:
            ctx.tier = "replay"
            replay_pysupport(ctx, json.loads(open(a.replay).read())["case"])
            print("replay: %d violation(s)" % len(ctx.violations))
            return 1 if ctx.violations else 0
        run_pysupport(ctx)
        cov = ctx.cov
        print("pysupport %s: states=%d transitions=%d histories=%s validated=%d evaluations=%d known=%d violations=%d wall=%.1fs"
              % (a.tier, cov["states"], cov["transitions"], cov.get("pysupport"), cov["traces_validated_against_impl"], cov["evaluations"], len(ctx.known_hit),
                 len(ctx.violations), __import__("time").time() - ctx.t0))
        (VERIF / "out").mkdir(exist_ok=True)
        (VERIF / "out" / "pysupport-standalone.json").write_text(json.dumps({"tier": a.tier, "coverage": cov, "violations": [v[:3] for v in ctx.violations]}, indent=1, default=str))
        return 1 if ctx.violations else 0
    except MachineryFailure as e:
        print("MACHINERY-FAILURE pysupport: %s" % e)
        return 2
    except Exception:  # pylint: disable=broad-except
        traceback.print_exc()
        print("MACHINERY-FAILURE pysupport: harness crashed")
        return 2


if __name__ == "__main__":
    sys.exit(main())
