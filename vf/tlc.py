"""TLC runner: exhaustive / simulation model checking, case emission (spec -> code) and batched trace validation (code -> spec)."""
import concurrent.futures
import json
import os
import re
import subprocess
import time
import uuid

from .core import SPECS, NCPU, MachineryFailure

JAR = "/opt/veriftools/tla/tla2tools.jar:/opt/veriftools/tla/CommunityModules-deps.jar"


class TlcResult:
    def __init__(self):
        self.out = ""
        self.rc = None
        self.generated = 0
        self.distinct = 0
        self.depth = 0
        self.wall = 0.0
        self.ok = False
        self.error = None  # text of the first "Error:" line
        self.violated = None  # invariant / property name
        self.mode = "exhaustive"
        self.constants = ""
        self.printed = []

    def json_lines(self):
        """Records printed with PrintT(ToJson(x)) (a JSON string literal per line)."""
        res = []
        for ln in self.out.splitlines():
            if ln.startswith('"{') or ln.startswith('"['):
                try:
                    res.append(json.loads(json.loads(ln)))
                except ValueError:
                    raise MachineryFailure("cannot parse TLC output line: %r" % ln[:200])
        return res

    def tuples(self, tag):
        """Lines printed with PrintT(<<"TAG", ...>>) -> list of raw strings after the tag."""
        res = []
        pat = '<<"%s"' % tag
        for ln in self.out.splitlines():
            if ln.startswith(pat):
                res.append(ln)
        return res


_RE_STATES = re.compile(r"(\d+) states generated, (\d+) distinct states found")
_RE_DEPTH = re.compile(r"The depth of the complete state graph search is (\d+)")
_RE_INV = re.compile(r"Error: (?:Invariant|Action property|Temporal properties?) ?(\S*) (?:is|were) violated")


def run_tlc(spec, cfg, scratch, *, workers=NCPU, timeout=3600, env=None, simulate=None, depth=None, seed=None, deque=False,
            xmx="8g", extra=(), constants=""):
    """spec: path of .tla (module found beside its EXTENDS), cfg: path of the .cfg. Returns TlcResult (never raises on violations)."""
    spec = str(spec)
    meta = os.path.join(str(scratch), "meta-" + uuid.uuid4().hex[:12])
    cmd = ["java", "-XX:+UseParallelGC" if workers > 1 else "-XX:+UseSerialGC", "-Xss128m", "-Xmx" + xmx]
    if workers == 1:
        cmd += ["-XX:TieredStopAtLevel=1", "-Xshare:auto"]
    if deque:
        cmd.append("-Dtlc2.tool.queue.IStateQueue=StateDeque")
    cmd += ["-cp", JAR, "tlc2.TLC", "-workers", str(workers), "-metadir", meta, "-noGenerateSpecTE", "-config", str(cfg)]
    if simulate is not None:
        cmd += ["-simulate", simulate]
    if depth is not None:
        cmd += ["-depth", str(depth)]
    if seed is not None:
        cmd += ["-seed", str(seed)]
    cmd += list(extra)
    cmd.append(spec)
    e = dict(os.environ)
    e.pop("JAVA_TOOL_OPTIONS", None)
    if env:
        e.update({k: str(v) for k, v in env.items()})
    r = TlcResult()
    r.mode = "simulate" if simulate is not None else "exhaustive"
    r.constants = constants
    t0 = time.time()
    try:
        p = subprocess.run(cmd, stdout=subprocess.PIPE, stderr=subprocess.STDOUT, env=e, timeout=timeout, cwd=os.path.dirname(spec), text=True)
        r.out = p.stdout
        r.rc = p.returncode
    except subprocess.TimeoutExpired as ex:
        r.out = (ex.stdout or b"").decode("utf-8", "replace") if isinstance(ex.stdout, bytes) else (ex.stdout or "")
        r.rc = -9
        r.error = "timeout after %ss" % timeout
    r.wall = time.time() - t0
    subprocess.run(["rm", "-rf", meta])
    for m in _RE_STATES.finditer(r.out):
        r.generated, r.distinct = int(m.group(1)), int(m.group(2))
    m = _RE_DEPTH.search(r.out)
    if m:
        r.depth = int(m.group(1))
    m = _RE_INV.search(r.out)
    if m:
        r.violated = m.group(1) or "property"
    if r.error is None:
        m = re.search(r"^Error: (.*)$", r.out, re.M)
        if m:
            r.error = m.group(1)
    r.ok = r.error is None and r.violated is None and ("No error has been found" in r.out or (simulate is not None and r.rc in (0,)))
    return r


def check_model(ctx, module, cfgname=None, *, expect_ok=True, name=None, constants="", **kw):
    """Exhaustive (or simulated) check of a bounded design model; the outcome is about the MODEL only.
    A failing model on the unchanged tree is a machinery failure (the spec is the thing under our control)."""
    spec = SPECS / (module + ".tla")
    cfg = SPECS / ((cfgname or module) + ".cfg")
    res = run_tlc(spec, cfg, ctx.scratch, constants=constants, **kw)
    if expect_ok:
        if not res.ok:
            raise MachineryFailure("model %s/%s did not pass: %s %s\n%s" % (module, cfg.name, res.error, res.violated, res.out[-3000:]))
        ctx.add_model(res, name or cfg.name)
    return res


def write_cfg(path, spec="TSpec", post="Accepted", constants=None, invariants=(), extra=""):
    lines = ["SPECIFICATION %s" % spec, "CHECK_DEADLOCK FALSE"]
    if post:
        lines.append("POSTCONDITION %s" % post)
    for i in invariants:
        lines.append("INVARIANT %s" % i)
    if constants:
        lines.append("CONSTANTS")
        for k, v in constants.items():
            lines.append("  %s = %s" % (k, v))
    if extra:
        lines.append(extra)
    with open(path, "w") as f:
        f.write("\n".join(lines) + "\n")
    return path


def _joined_tuples(out, prefix):
    """TLC wraps printed values longer than ~80 characters over several lines: re-join every printed tuple that starts with `prefix`"""
    res, cur = [], None
    for ln in out.splitlines():
        if cur is None:
            if ln.startswith(prefix):
                cur = ln
            else:
                continue
        else:
            cur += " " + ln.strip()
        if cur.rstrip().endswith(">>") and cur.count("<<") == cur.count(">>"):
            res.append(re.sub(r"\s+", " ", cur.strip()))
            cur = None
    if cur is not None:
        res.append(re.sub(r"\s+", " ", cur.strip()))
    return res


_RE_REJECT = re.compile(r'^<<"REJECT", (?:"([^"]*)"|(-?\d+)), "([^"]*)"(?:, (.*))?>>$')


def validate_traces(ctx, module, records, *, batch=2000, cfg=None, constants=None, timeout=5400, key="id", deque=False, xmx="3g",
                    parallel=NCPU):
    """Code -> spec.  `records` is a list of JSON-able dicts with a unique `id`.  Each batch is written as ndjson and checked by
    the T-layer module `module` (SPECIFICATION TSpec, POSTCONDITION Accepted).  The T-layer prints <<"REJECT", id, clause>> and
    continues, so verdicts are total.  Returns {id: clause} for the rejected records."""
    if not records:
        return {}
    spec = SPECS / (module + ".tla")
    tdir = ctx.scratch / ("tr-%s-%s" % (module, uuid.uuid4().hex[:12]))
    tdir.mkdir()
    if cfg is None:
        cfg = write_cfg(tdir / "t.cfg", constants=constants)
    else:
        cfg = SPECS / cfg
    jobs = []
    for bi in range(0, len(records), batch):
        chunk = records[bi:bi + batch]
        p = tdir / ("b%05d.ndjson" % (bi // batch))
        with open(p, "w") as f:
            for rcd in chunk:
                f.write(json.dumps(rcd, separators=(",", ":")) + "\n")
        jobs.append((p, len(chunk)))

    def one(job):
        p, n = job
        res = run_tlc(spec, cfg, ctx.scratch, workers=1, timeout=timeout, env={"TRACE_FILE": str(p)}, deque=deque, xmx=xmx)
        return res, n, p

    rejects = {}
    with concurrent.futures.ThreadPoolExecutor(max_workers=parallel) as ex:
        for res, n, p in ex.map(one, jobs):
            if not res.ok:
                raise MachineryFailure("trace validation %s failed on %s: %s %s\n%s" % (module, p.name, res.error, res.violated, res.out[-3000:]))
            ctx.cov["states"] += res.distinct
            ctx.cov["transitions"] += res.generated
            nrej = 0
            for ln in _joined_tuples(res.out, '<<"REJECT"'):
                m = _RE_REJECT.match(ln)
                if m is None:
                    raise MachineryFailure("unparsable REJECT line printed by %s: %r" % (module, ln[:300]))
                if m:
                    rid = m.group(1) if m.group(1) is not None else int(m.group(2))
                    rejects.setdefault(rid, m.group(3) + ((" " + m.group(4)) if m.group(4) else ""))
                    nrej += 1
            ctx.validated(n - nrej)
    subprocess.run(["rm", "-rf", str(tdir)])
    return rejects


def emit_cases(ctx, module, cfgname, *, name=None, constants="", timeout=3600, **kw):
    """Spec -> code.  Runs a generator configuration whose invariant prints one JSON record per case (workers=1 so that lines
    do not interleave) and returns the records."""
    spec = SPECS / (module + ".tla")
    cfg = SPECS / (cfgname + ".cfg") if not os.path.isabs(str(cfgname)) else cfgname
    res = run_tlc(spec, cfg, ctx.scratch, workers=1, timeout=timeout, constants=constants, **kw)
    if not res.ok:
        raise MachineryFailure("case emission %s/%s failed: %s %s\n%s" % (module, cfgname, res.error, res.violated, res.out[-3000:]))
    ctx.add_model(res, name or str(cfgname))
    return res.json_lines()
