"""Growth build G1: the repository's own test-suite (plus a driver of our own) as conformance traces of a system-level run specification.

    specs/NnvgRunP.tla       P-layer: clauses over (run arguments, step log, reported paths)
    specs/NnvgRun.tla        I-layer state machine + bounded design (exhaustive TLC, I => P, negative controls)
    specs/NnvgRunTrace.tla   T-layer: one record per recorded RUN
    vf/suite_plugin.py       recorder: pytest plugin / sitecustomize (vf/suite_site) - audit hook + wrapped public entry points

`run_suite_traces(ctx, clauses)` is meant to be called from the property checks that own the clauses:

    C08: sys.passive_no_effect, sys.listed_eq_written      C11: sys.inside_outdir, sys.write_once, sys.reported_eq_written
    C12: sys.final_mode, sys.no_overwrite

Standalone (debug): `cd /verif && ./check`-like environment, then `python -m vf.suite [--tier quick|thorough] [--no-suite] [--replay file]`.
"""
import concurrent.futures
import json
import os
import pathlib
import shlex
import subprocess
import sys
import threading
import time

from . import tlc
from .core import NCPU, REPO, VERIF, Ctx, MachineryFailure

SITE = VERIF / "vf" / "suite_site"
BASELINE = pathlib.Path("/root/.vp/BASELINE.json")
ENV_TRACE = "VF_SUITE_TRACE"
ENV_CASE = "VF_SUITE_CASE"

ALL_CLAUSES = {
    "sys.passive_no_effect": "C08",
    "sys.listed_eq_written": "C08",
    "sys.inside_outdir": "C11",
    "sys.write_once": "C11",
    "sys.reported_eq_written": "C11",
    "sys.final_mode": "C12",
    "sys.no_overwrite": "C12",
}


def clauses_of(prop):
    """the clauses a property owns, as the `clauses` argument of run_suite_traces / replay"""
    return {c: o for c, o in ALL_CLAUSES.items() if o == prop}


def is_case(case):
    """a replay case written by this module (as opposed to the calling property's own cases)"""
    return isinstance(case, dict) and case.get("kind") in ("suite", "driver") and str(case.get("clause", "")).startswith("sys.")


CLAUSE_BITS = ["sys.passive_no_effect", "sys.inside_outdir", "sys.no_overwrite", "sys.write_once", "sys.reported_eq_written",
               "sys.final_mode", "sys.listed_eq_written"]
ENTRY_POINTS = {"main": "nunavut.cli.main", "run": "nunavut.cli.runners.ArgparseRunner.run",
                "dsdl": "nunavut.jinja.DSDLCodeGenerator.generate_all", "support": "nunavut.jinja.SupportGenerator.generate_all",
                "types": "nunavut.generate_types"}
PASSIVE = ("dryrun", "list_outputs", "list_inputs", "list_configuration")


# ------------------------------------------------------------------------------------------------------------------------------
# environment
# ------------------------------------------------------------------------------------------------------------------------------
def _env(trace, scratch):
    e = dict(os.environ)
    extra = [p for p in e.get("PYTHONPATH", "").split(os.pathsep) if p and p not in (str(SITE), str(REPO / "src"), str(VERIF))]
    e["PYTHONPATH"] = os.pathsep.join([str(SITE), str(REPO / "src"), str(VERIF)] + extra)
    e["PYTHONDONTWRITEBYTECODE"] = "1"
    e[ENV_TRACE] = str(trace)
    e.pop(ENV_CASE, None)
    e.pop("PYTEST_CURRENT_TEST", None)
    # `run_nnvg` of the suite starts `coverage run -m nunavut`: the interpreter's own bin directory has it
    e["PATH"] = os.path.dirname(sys.executable) + os.pathsep + e.get("PATH", "")
    e["COVERAGE_FILE"] = str(pathlib.Path(scratch) / "coverage" / ".coverage")
    (pathlib.Path(scratch) / "coverage").mkdir(exist_ok=True)
    return e


def suite_command(extra=()):
    """the pinned suite command, adapted: our plugin, no junit, no -ra"""
    try:
        cmd = json.loads(BASELINE.read_text())["cmd"]
    except Exception as ex:
        raise MachineryFailure("cannot read the pinned suite command: %s" % ex)
    cmd = cmd.split("&&", 1)[1] if "&&" in cmd else cmd
    words = [w for w in shlex.split(cmd) if not w.startswith("--junitxml") and w != "-ra"]
    words[0] = sys.executable
    for flag in ("-q", "--continue-on-collection-errors"):
        if flag not in words:
            words.append(flag)
    if not any(w.startswith("--timeout") for w in words):
        words.append("--timeout=900")
    if "no:cacheprovider" not in words:
        words += ["-p", "no:cacheprovider"]
    return words + ["-p", "vf.suite_plugin"] + list(extra)


def run_pytest(ctx, trace, extra=(), timeout=1500):
    t0 = time.time()
    try:
        p = subprocess.run(suite_command(extra), cwd=str(REPO), env=_env(trace, ctx.scratch), stdout=subprocess.PIPE, stderr=subprocess.STDOUT,
                           text=True, timeout=timeout)
        out = p.stdout
    except subprocess.TimeoutExpired as ex:
        raise MachineryFailure("the test-suite did not finish within %ss" % timeout) from ex
    tail = [ln for ln in out.strip().splitlines() if ln.strip()][-1:] or [""]
    return {"rc": p.returncode, "summary": tail[0].strip("= "), "wall_s": round(time.time() - t0, 1)}


def read_trace(path):
    runs, meta, snaps = [], [], {}
    if not os.path.exists(path):
        return runs, meta, snaps
    with open(path, encoding="utf-8", errors="replace") as f:
        for n, ln in enumerate(f, 1):
            if not ln.strip():
                continue
            try:
                o = json.loads(ln)
            except ValueError:
                raise MachineryFailure("trace file %s: line %d is not JSON (%r)" % (path, n, ln[:120]))
            if o.get("run"):
                runs.append(o)
            elif o.get("meta"):
                meta.append(o)
            elif o.get("snapdiff"):
                snaps[o["case"]] = o
    return runs, meta, snaps


# ------------------------------------------------------------------------------------------------------------------------------
# raw run -> T-layer record
# ------------------------------------------------------------------------------------------------------------------------------
class Interner:
    def __init__(self):
        self.t = {}

    def comps(self, path):
        out = []
        for c in str(path).split(os.sep):
            if c in ("", "."):
                continue
            if c == "..":
                out.append(0)
                continue
            out.append(self.t.setdefault(c, len(self.t) + 1))
        return out


def _printed_phys(run):
    """the printed --list-outputs paths as the recorder resolved them (os.path.realpath(os.path.join(cwd, printed)) while the run's directory and
    the links of its spelling still existed); resolving them here, after the sandbox is gone, would silently fall back to text"""
    pp = run.get("printed_phys")
    if pp is None or len(pp) != len(run.get("printed") or []):
        raise MachineryFailure("run %s: printed list without its resolved form" % run.get("test"))
    return list(pp)


def to_record(run, rid, listed=None, snap=None):
    it = Interner()
    od = run.get("outdir")
    steps = []
    for s in run["steps"]:
        pe = True
        if s["k"] == "mkdir":
            pe = bool(s.get("pe", True))
        steps.append({"k": s["k"], "p": it.comps(s["p"]), "q": it.comps(s["q"]) if s.get("q") else [], "m": int(s["m"]), "ex": bool(s["ex"]),
                      "om": int(s["om"]), "pe": pe, "tmp": bool(s["tmp"])})
    if snap:  # driver only: changes of the sandbox that no recorded step explains become steps of their own
        touched = set()
        for s in run["steps"]:
            touched.add(s["p"])
            if s.get("q"):
                touched.add(s["q"])
        for kind, key in (("open", "created"), ("open", "changed"), ("remove", "removed")):
            for p in snap.get(key, []):
                if p not in touched:
                    steps.append({"k": kind, "p": it.comps(p), "q": [], "m": 1, "ex": key != "created", "om": 0, "pe": True, "tmp": False})
    calls = run.get("calls") or []
    ok = run.get("exc") is None
    rets = [c["ret"] for c in calls]
    hasrep = ok and all(c["ok"] and c["ret"] is not None for c in calls) and run["ep"] in ENTRY_POINTS
    rep, dup = [], False
    if hasrep:
        for r in rets:
            dup = dup or len(set(r)) != len(r)
            for p in r:
                if p not in rep:
                    rep.append(p)
    printed = None   # as the build system would use the list: every printed path resolved by the OS from the run's cwd, never normalised as text
    if run.get("printed") is not None and run.get("mode") == "list_outputs":
        printed = _printed_phys(run)
    fm = run.get("fm")
    return {
        "id": rid, "ep": run["ep"], "mode": run["mode"], "hasod": bool(od), "od": it.comps(od) if od else [], "ovw": bool(run.get("ovw", True)),
        "hasfm": fm is not None and bool(run.get("fm_last")), "fm": int(fm) if fm is not None else 0, "ok": ok,
        "hasrep": bool(hasrep), "rep": [it.comps(p) for p in rep], "dup": bool(dup),
        "plain": not run.get("custom_pp") and not dup,
        "haspr": printed is not None, "printed": [it.comps(p) for p in (printed or [])],
        "haslisted": listed is not None, "listed": [it.comps(p) for p in (listed or [])],
        "steps": steps,
    }


# ------------------------------------------------------------------------------------------------------------------------------
# the driver of our own: scenarios of CLI / API runs in scratch sandboxes
# ------------------------------------------------------------------------------------------------------------------------------
FIXTURES = [  # (root namespace directory below REPO, lookup directories)
    ("test/gentest_nnvg/dsdl/uavcan", ["test/gentest_nnvg/dsdl/fixedid", "test/gentest_nnvg/dsdl/herringtec", "test/gentest_nnvg/dsdl/scotec"]),
    ("test/gentest_serialization/dsdl/complex", ["test/gentest_serialization/dsdl/basic"]),
    ("test/gentest_lang/dsdl/langtest", []),
    ("test/gentest_versions/dsdl/viruses", []),
    ("test/gentest_namespaces/dsdl/scotec", ["test/gentest_namespaces/dsdl/uavcan"]),
    ("test/gentest_any/dsdl/uavcan", []),
    ("verification/nunavut_test_types/nested_array_types", []),
    ("@scratch", []),
]
SCRATCH_NS = {
    "vfroot/Top.1.0.dsdl": "uint8 a\n@extent 64\n",
    "vfroot/Top.1.1.dsdl": "uint8 a\nuint16 b\n@extent 64\n",
    "vfroot/inner/Leaf.1.0.dsdl": "vfroot.Top.1.0 t\nbool[<=4] flags\n@sealed\n",
    "vfroot/inner/deep/er/Svc.1.0.dsdl": "uint8 q\n@sealed\n---\nvfroot.inner.Leaf.1.0 r\n@sealed\n",
    "vfroot/other/Uni.0.1.dsdl": "@union\nuint8 x\nfloat32 y\n@sealed\n",
}
LANGS = ["c", "cpp", "py", "html"]
SPELLINGS = ["abs", "rel", "dotdot", "slash", "linkdotdot"]   # linkdotdot: lnk/../out with lnk -> deep/inner, physically deep/out
SUPPORT = [("as-needed", False), ("always", False), ("never", False), ("only", False), ("as-needed", True), ("never", True), ("only", True)]


def _scenarios(ctx):
    n = ctx.pick(28, 112)
    scen = []
    for i in range(n):
        lang = LANGS[i % 4]
        spell = SPELLINGS[(i // 4 + i % 4) % len(SPELLINGS)]     # every target meets every spelling
        gs, omit = SUPPORT[(i * 3 + i // 7) % len(SUPPORT)]
        fx = FIXTURES[(i * 5 + i // 8) % len(FIXTURES)]
        fm1, fm2 = [("0o444", "0o644"), (None, "0o600"), ("0o640", None), ("0o444", "0o444")][(i // 2) % 4]
        prog = (i % 9) == 4
        scen.append({"sid": "s%03d" % i, "kind": "cli", "lang": lang, "spell": spell, "gs": gs, "omit": omit, "root": fx[0], "lookup": fx[1],
                     "fm1": fm1, "fm2": fm2, "prog": prog, "nstypes": (i % 5) == 3 and lang in ("py", "html")})
    for i, lang in enumerate(["c", "py", "cpp", "html"][:ctx.pick(2, 4)]):
        scen.append({"sid": "a%03d" % i, "kind": "api", "lang": lang, "root": FIXTURES[i][0], "lookup": FIXTURES[i][1], "spell": SPELLINGS[i % 4]})
    scen.append({"sid": "a900", "kind": "api", "lang": "c", "root": FIXTURES[1][0], "lookup": FIXTURES[1][1], "spell": "linkdotdot"})
    for i, lang in enumerate(["c", "cpp"][:ctx.pick(1, 2)]):
        scen.append({"sid": "c%03d" % i, "kind": "copy", "lang": lang, "root": "@scratch", "lookup": [], "spell": "abs"})
    return scen


def _cli_steps(sc):
    """the runs of one CLI scenario, in order, into ONE output directory"""
    base = ["--allow-unregulated-fixed-port-id"]
    if sc["lang"] in ("cpp", "html"):
        base.append("--experimental-languages")
    base += ["--target-language", sc["lang"], "--generate-support", sc["gs"]]
    if sc["omit"]:
        base.append("--omit-serialization-support")
    if sc["nstypes"]:
        base.append("--generate-namespace-types")

    def fm(v):
        return ["--file-mode", v] if v else []

    prog = ["--pp-run-program", "true"] if sc["prog"] else []
    steps = [
        ("list_outputs", base + ["--list-outputs"]),
        ("list_inputs", base + ["--list-inputs"]),
        ("dryrun", base + ["--dry-run"] + fm(sc["fm1"])),
        ("generate", base + fm(sc["fm1"]) + prog),
        ("generate_no_overwrite", base + ["--no-overwrite"] + fm(sc["fm2"])),
        ("dryrun_over", base + ["--dry-run", "--no-overwrite"]),
        ("list_outputs_over", base + ["--list-outputs"]),
        ("generate_over", base + fm(sc["fm2"]) + prog),
        ("list_configuration", base + ["--list-configuration"]),
    ]
    return steps


def _worker_main(jobfile):
    """child process: runs scenarios in-process with the recorder installed ($VF_SUITE_TRACE is set by the parent)"""
    import io

    from . import suite_plugin

    suite_plugin.install()
    job = json.loads(open(jobfile).read())
    repo = job["repo"]
    devnull = open(os.devnull, "w")

    def snap(root):
        res = {}
        for dp, dns, fns in os.walk(root):
            for n in dns + fns:
                p = os.path.join(dp, n)
                try:
                    st = os.lstat(p)
                except OSError:
                    continue
                res[os.path.join(os.path.realpath(dp), n)] = (st.st_mode, st.st_size, st.st_mtime_ns, st.st_ino)
        return res

    def bracket(case, root, fn):
        os.environ[ENV_CASE] = case
        before = snap(root)
        so, se = sys.stdout, sys.stderr
        sys.stdout, sys.stderr = io.StringIO(), devnull
        try:
            fn()
        except SystemExit:
            pass
        except BaseException:  # the CLI reports errors by letting the exception end the process
            pass
        finally:
            sys.stdout, sys.stderr = so, se
        after = snap(root)
        # the walk starts at the physical sandbox and does not follow links: its paths are physical identities like the recorder's
        created = sorted(p for p in after if p not in before and not os.path.isdir(p))
        removed = sorted(p for p in before if p not in after)
        changed = sorted(p for p in after if p in before and after[p] != before[p] and not os.path.isdir(p))
        suite_plugin._emit({"snapdiff": 1, "case": case, "created": created, "removed": removed, "changed": changed})
        os.environ.pop(ENV_CASE, None)

    for sc in job["scenarios"]:
        sand = os.path.join(job["sandbox"], sc["sid"])
        os.makedirs(os.path.join(sand, "sub"), exist_ok=True)
        os.makedirs(os.path.join(sand, "deep", "inner"), exist_ok=True)
        if not os.path.lexists(os.path.join(sand, "lnk")):
            os.symlink(os.path.join("deep", "inner"), os.path.join(sand, "lnk"))
        os.chdir(sand)
        if sc["root"] == "@scratch":
            for rel, text in SCRATCH_NS.items():
                p = os.path.join(sand, "dsdl", rel)
                os.makedirs(os.path.dirname(p), exist_ok=True)
                with open(p, "w") as f:
                    f.write(text)
            root = os.path.join(sand, "dsdl", "vfroot")
        else:
            root = os.path.join(repo, sc["root"])
        lookups = [os.path.join(repo, x) for x in sc["lookup"]]
        outdir = {"abs": os.path.join(sand, "out"), "rel": "out", "dotdot": os.path.join("sub", "..", "out"), "slash": os.path.join(sand, "out") + os.sep,
                  "linkdotdot": os.path.join("lnk", "..", "out")}[sc["spell"]]
        if sc["kind"] == "cli":
            import nunavut.cli

            for name, argv in _cli_steps(sc):
                full = list(argv) + ["--outdir", outdir] + [x for d in lookups for x in ("-I", d)] + [root]

                def call(full=full):
                    sys.argv = ["nnvg"] + full
                    nunavut.cli.main()

                bracket("drv:%s:%s" % (sc["sid"], name), sand, call)
        elif sc["kind"] == "api":
            import nunavut

            for name, kw in (("dryrun", {"is_dryrun": True}), ("generate", {}), ("generate_no_overwrite", {"allow_overwrite": False}),
                             ("dryrun_over", {"is_dryrun": True, "allow_overwrite": False}), ("generate_over", {"omit_serialization_support": False})):
                def call(kw=kw):
                    nunavut.generate_types(sc["lang"], pathlib.Path(root), pathlib.Path(outdir), lookup_directories=lookups,
                                           include_experimental_languages=True, allow_unregulated_fixed_port_id=True, **kw)

                bracket("drv:%s:%s" % (sc["sid"], name), sand, call)
        elif sc["kind"] == "copy":
            # a plain (non-template) support resource, so that SupportGenerator._copy_header runs: public generators, a resource list of ours
            import importlib

            import nunavut
            import nunavut._postprocessors as pp
            import pydsdl
            from nunavut._utilities import ResourceType

            extra = os.path.join(sand, "vf_extra.h")
            with open(extra, "w") as f:
                f.write("/* plain support resource of the G1 driver */\n")
            mod = importlib.import_module("nunavut.lang.%s.support" % sc["lang"])
            orig = mod.list_support_files

            def patched(resource_type=ResourceType.ANY, orig=orig, extra=extra):
                for r in orig(resource_type):
                    yield r
                if resource_type in (ResourceType.ANY, ResourceType.SERIALIZATION_SUPPORT):
                    yield pathlib.Path(extra)

            mod.list_support_files = patched
            try:
                for name, pps, kw in (("dryrun", [pp.SetFileMode(0o640)], {"is_dryrun": True}),
                                      ("generate", [pp.SetFileMode(0o640)], {}),
                                      ("generate_no_overwrite", [pp.SetFileMode(0o444)], {"allow_overwrite": False}),
                                      ("generate_over", [pp.ExternalProgramEditInPlace(["true"]), pp.SetFileMode(0o444)], {}),
                                      ("generate_linepp", [pp.TrimTrailingWhitespace(), pp.SetFileMode(0o600)], {})):
                    def call(pps=pps, kw=kw):
                        lctx = nunavut.LanguageContextBuilder(include_experimental_languages=True).set_target_language(sc["lang"]).create()
                        types = pydsdl.read_namespace(root, [], allow_unregulated_fixed_port_id=True)
                        ns = nunavut.build_namespace_tree(types, root, outdir, lctx)
                        nunavut.SupportGenerator(ns, post_processors=list(pps)).generate_all(**kw)

                    bracket("drv:%s:%s" % (sc["sid"], name), sand, call)
            finally:
                mod.list_support_files = orig
    return 0


def run_driver(ctx, trace, scenarios, nworkers=None, timeout=900):
    nworkers = nworkers or max(2, min(8, NCPU // 2))
    sand = ctx.scratch / ("g1-driver-%d" % int(time.time() * 1000))
    sand.mkdir()
    procs = []
    for w in range(nworkers):
        part = scenarios[w::nworkers]
        if not part:
            continue
        jf = sand / ("jobs-%d.json" % w)
        jf.write_text(json.dumps({"repo": str(REPO), "sandbox": str(sand), "scenarios": part}))
        procs.append(subprocess.Popen([sys.executable, "-m", "vf.suite", "--worker", str(jf)], cwd=str(VERIF), env=_env(trace, ctx.scratch),
                                      stdout=subprocess.DEVNULL, stderr=subprocess.PIPE, text=True))
    t0 = time.time()
    for p in procs:
        try:
            _, err = p.communicate(timeout=max(1, timeout - (time.time() - t0)))
        except subprocess.TimeoutExpired:
            p.kill()
            raise MachineryFailure("driver worker did not finish within %ss" % timeout)
        if p.returncode != 0:
            raise MachineryFailure("driver worker failed (%s): %s" % (p.returncode, (err or "")[-1500:]))
    subprocess.run(["rm", "-rf", str(sand)])


def _listed_for(runs_by_case):
    """driver twin: what `--list-outputs` printed into the still empty directory is attached to the scenario's first generating run"""
    res = {}
    for case, run in runs_by_case.items():
        if case.endswith(":generate"):
            twin = runs_by_case.get(case[:-len("generate")] + "list_outputs")
            if twin is not None and twin.get("exc") is None and twin.get("printed") is not None:
                res[case] = _printed_phys(twin)
    return res


# ------------------------------------------------------------------------------------------------------------------------------
# model checking of the bounded design
# ------------------------------------------------------------------------------------------------------------------------------
NEG = [("NnvgRun_neg_drymkdir", "P_passive"), ("NnvgRun_neg_dotdot", "P_inside"), ("NnvgRun_neg_nogate", "P_no_overwrite"),
       ("NnvgRun_neg_modefirst", "P_final_mode"), ("NnvgRun_neg_unreported", "P_reported"), ("NnvgRun_neg_rewrite", "P_write_once")]


def model_checks(ctx):
    main_cfg = ctx.pick("NnvgRun", "NnvgRun_t")
    jobs = [(main_cfg, None), ("NnvgRun_atomic", None)] + NEG[:ctx.pick(2, len(NEG))]
    w = max(2, NCPU // len(jobs))

    def one(job):
        cfg, inv = job
        res = tlc.run_tlc(tlc.SPECS / "NnvgRun.tla", tlc.SPECS / (cfg + ".cfg"), ctx.scratch, workers=w, timeout=1500, xmx="4g",
                          constants="3 files (2 types, 1 support), 41 initial directories, all modes x overwrite x file-mode x support x copy x program x "
                                    "outdir spellings; %s" % cfg)
        return cfg, inv, res

    with concurrent.futures.ThreadPoolExecutor(max_workers=len(jobs)) as ex:
        for cfg, inv, res in ex.map(one, jobs):
            if inv is None:
                if not res.ok:
                    raise MachineryFailure("model NnvgRun/%s did not pass: %s %s\n%s" % (cfg, res.error, res.violated, res.out[-2000:]))
                ctx.add_model(res, cfg + ".cfg")
            else:
                ctx.selftest("negative control %s must violate %s" % (cfg, inv), res.violated == inv)
                ctx.add_model(res, cfg + ".cfg (negative control)")


# ------------------------------------------------------------------------------------------------------------------------------
# verdicts
# ------------------------------------------------------------------------------------------------------------------------------
def _clauses_of(clause_text):
    """'sys.x 5' -> all clause names of the bit mask (first clause first)"""
    parts = clause_text.split()
    first = parts[0]
    names = [first]
    if len(parts) > 1 and parts[1].isdigit():
        mask = int(parts[1])
        for i, c in enumerate(CLAUSE_BITS):
            if mask & (1 << i) and c not in names:
                names.append(c)
    return names


def _test_class(test):
    if not test:
        return "?"
    t = test.split(" (")[0]
    t = t.split("::")[-1] if "::" in t else t
    return t.split("[")[0]


def _struct_class(run):
    if (run.get("test") or "").startswith("drv:"):
        o = run.get("opts") or {}
        return "driver:%s:%s:gs=%s:omit=%s:ovw=%s" % (run["mode"], o.get("target_language") or "api", o.get("generate_support"),
                                                      bool(o.get("omit_serialization_support")), run.get("ovw"))
    return "suite:%s:%s" % (_test_class(run.get("test")), run["mode"])


def _explain(run, clause):
    od = run.get("outdir") or ""
    rel = lambda p: p[len(od) + 1:] if od and p.startswith(od + os.sep) else p  # noqa: E731
    steps = ["%s %s%s" % (s["k"], rel(s["p"]), (" m=%o" % s["m"]) if s["k"] == "chmod" else "") for s in run["steps"]]
    rep = sorted(rel(p) for c in run.get("calls") or [] for p in (c["ret"] or []))
    return ("%s rejected for run %s (entry point %s, mode %s, outdir %s, allow_overwrite %s, file mode %s, exception %s): steps %s; reported %s"
            % (clause, run.get("test"), ENTRY_POINTS.get(run["ep"], run["ep"]), run["mode"], run.get("outdir_arg"), run.get("ovw"),
               ("%o" % run["fm"]) if run.get("fm") is not None else None, run.get("exc"), steps[:14], rep[:8]))


def judge(ctx, clauses, runs, records, rejects, scen_by_sid, report=True):
    nviol = 0
    for rid, text in sorted(rejects.items()):
        run = runs[rid]
        for cl in _clauses_of(text):
            if cl.startswith("drift."):
                if report:
                    ctx.drift("%s: %s %s" % (cl, run.get("test"), ENTRY_POINTS.get(run["ep"], run["ep"])))
                continue
            owner = clauses.get(cl)
            if owner is None:
                continue
            nviol += 1
            if not report:
                continue
            case = {"kind": "suite", "test": (run.get("test") or "").split(" (")[0], "clause": cl}
            t = run.get("test") or ""
            if t.startswith("drv:"):
                _, sid, step = t.split(":", 2)
                case = {"kind": "driver", "scenario": scen_by_sid.get(sid), "step": step, "clause": cl}
            case["record"] = records[rid]
            sig = "%s|%s|%s|%s" % (owner, cl, ENTRY_POINTS.get(run["ep"], run["ep"]), _struct_class(run))
            ctx.violation(sig, _explain(run, cl), case)
    return nviol


def _prepare(runs, snaps):
    """raw runs -> (kept runs, records); runs without a mode (argument errors, --help) are not runs of the generator"""
    by_case = {r["test"]: r for r in runs if (r.get("test") or "").startswith("drv:")}
    listed = _listed_for(by_case)
    kept, records = [], []
    for r in runs:
        if r.get("mode") not in PASSIVE + ("generate",):
            continue
        t = r.get("test") or ""
        rec = to_record(r, len(kept), listed=listed.get(t), snap=snaps.get(t))
        kept.append(r)
        records.append(rec)
    return kept, records


def _validate(ctx, records):
    if not records:
        return {}
    nb = max(1, min(NCPU, (len(records) + 39) // 40))
    batch = (len(records) + nb - 1) // nb
    return tlc.validate_traces(ctx, "NnvgRunTrace", records, batch=batch, timeout=1500)


def selftests(ctx, runs, records, rejects=()):
    """binding: corrupted records must be rejected with the right clause (the records corrupted are ones the T-layer accepted)"""
    def pick(pred):
        for i, r in enumerate(records):
            if i not in rejects and pred(runs[i], r):
                return json.loads(json.dumps(r))
        return None

    muts = []
    r = pick(lambda run, rec: rec["mode"] == "dryrun" and rec["hasod"])
    if r:
        r["steps"].append({"k": "open", "p": r["od"] + [9001], "q": [], "m": 1, "ex": False, "om": 0, "pe": True, "tmp": False})
        muts.append(("a write step added to a dry run", r, "sys.passive_no_effect"))
    r = pick(lambda run, rec: rec["mode"] == "list_outputs" and rec["hasod"])
    if r:
        r["steps"].append({"k": "mkdir", "p": r["od"] + [9001], "q": [], "m": 511, "ex": False, "om": 0, "pe": True, "tmp": False})
        muts.append(("a mkdir step added to list-outputs", r, "sys.passive_no_effect"))
    gen = lambda run, rec: (rec["mode"] == "generate" and rec["hasod"] and rec["ok"] and rec["hasrep"] and rec["hasfm"]  # noqa: E731
                            and any(s["k"] == "open" for s in rec["steps"]) and rec["ovw"])
    r = pick(gen)
    if r:
        i = [j for j, s in enumerate(r["steps"]) if s["k"] == "open"][0]
        moved = r["od"] + [0] + r["steps"][i]["p"][len(r["od"]):]           # <outdir>/../<rest>
        old = r["steps"][i]["p"]
        for s in r["steps"]:
            if s["p"] == old:
                s["p"] = moved
        r["rep"] = [moved if p == old else p for p in r["rep"]]
        muts.append(("a written path moved outside the output directory (through ..)", r, "sys.inside_outdir"))
    r = pick(gen)
    if r:
        r["rep"] = r["rep"][1:]
        muts.append(("one written file not reported", r, "sys.reported_eq_written"))
    r = pick(gen)
    if r:
        last = max(j for j, s in enumerate(r["steps"]) if s["k"] == "chmod")
        r["steps"][last]["m"] = (r["fm"] ^ 0o020) & 0o7777
        muts.append(("last chmod sets another mode", r, "sys.final_mode"))
    r = pick(lambda run, rec: gen(run, rec) and len([s for s in rec["steps"] if s["k"] == "open"]) >= 2)
    if r:
        first = [s for s in r["steps"] if s["k"] == "open"][0]
        r["steps"].append(dict(first, ex=True, om=0o644))
        muts.append(("the first output is opened again after the others", r, "sys.write_once"))
    r = pick(lambda run, rec: rec["mode"] == "generate" and not rec["ovw"] and not rec["ok"] and rec["hasod"])
    if r:
        r["steps"].append({"k": "open", "p": r["od"] + [9001, 9002], "q": [], "m": 1, "ex": True, "om": 0o444, "pe": True, "tmp": False})
        muts.append(("an existing file opened for writing although overwriting is disallowed", r, "sys.no_overwrite"))
    r = pick(lambda run, rec: gen(run, rec) and rec["haslisted"])
    if r:
        r["listed"] = r["listed"] + [r["od"] + [9003]]
        muts.append(("list-outputs named a file the run did not write", r, "sys.listed_eq_written"))
    # all clauses at once: the verdict line must stay parsable (TLC wraps long tuples)
    r = pick(gen)
    if r:
        r["steps"].append({"k": "open", "p": [9001, 9002], "q": [], "m": 1, "ex": True, "om": 0o444, "pe": True, "tmp": False})
        r["ovw"] = False
        r["rep"] = r["rep"][1:]
        muts.append(("several clauses at once", r, "sys.inside_outdir"))
    if len(muts) < 2:
        raise MachineryFailure("no accepted record suitable for the binding self-tests")
    for i, (_n, rec, _c) in enumerate(muts):
        rec["id"] = i
    rej = _validate_quiet(ctx, [m[1] for m in muts])
    for i, (name, _rec, clause) in enumerate(muts):
        got = _clauses_of(rej.get(i, "accepted"))
        ctx.selftest("%s -> %s" % (name, clause), clause in got)
    wanted = {"sys.passive_no_effect", "sys.inside_outdir", "sys.reported_eq_written", "sys.final_mode", "sys.write_once", "sys.no_overwrite"}
    have = {m[2] for m in muts}
    for c in sorted(wanted - have):
        ctx.not_exercised("binding self-test for %s: no suitable recorded run" % c)


def _validate_quiet(ctx, records):
    before = ctx.cov["traces_validated_against_impl"]
    rej = tlc.validate_traces(ctx, "NnvgRunTrace", records, batch=len(records), timeout=600)
    ctx.cov["traces_validated_against_impl"] = before
    return rej


# ------------------------------------------------------------------------------------------------------------------------------
# the check
# ------------------------------------------------------------------------------------------------------------------------------
def run_suite_traces(ctx, clauses=None, suite=True, models=True):
    """Runs the traced test-suite and the driver, validates every recorded run against NnvgRunTrace and reports the rejected ones for the
    clauses of `clauses` (clause -> owning property id).  Returns a summary dict."""
    clauses = dict(ALL_CLAUSES if clauses is None else clauses)
    for c in clauses:
        if c not in ALL_CLAUSES:
            raise MachineryFailure("unknown clause %r" % c)
    t0 = time.time()
    phases = {}
    trace_s = ctx.scratch / "g1-suite.ndjson"
    trace_d = ctx.scratch / "g1-driver.ndjson"
    for p in (trace_s, trace_d):
        if p.exists():
            p.unlink()
    scenarios = _scenarios(ctx)
    scen_by_sid = {s["sid"]: s for s in scenarios}
    box = {}

    def th(name, fn):
        def body():
            t = time.time()
            try:
                box[name] = fn()
            except BaseException as ex:  # re-raised in the caller's thread
                box[name] = ex
            phases[name] = round(time.time() - t, 1)
        x = threading.Thread(target=body, name=name)
        x.start()
        return x

    threads = []
    if suite:
        threads.append(th("suite", lambda: run_pytest(ctx, trace_s)))
    threads.append(th("driver", lambda: run_driver(ctx, trace_d, scenarios)))
    if models:
        threads.append(th("models", lambda: model_checks(ctx)))
    for x in threads:
        x.join()
    for name, v in box.items():
        if isinstance(v, BaseException):
            if isinstance(v, MachineryFailure):
                raise v
            raise MachineryFailure("%s phase crashed: %s: %s" % (name, type(v).__name__, v))

    runs_s, meta_s, _ = read_trace(trace_s)
    runs_d, meta_d, snaps = read_trace(trace_d)
    runs, records = _prepare(runs_s + runs_d, snaps)
    nsuite = sum(1 for r in runs if not (r.get("test") or "").startswith("drv:"))
    if suite and nsuite < 20:
        raise MachineryFailure("the traced test-suite produced only %d runs (%s)" % (nsuite, box.get("suite")))
    if len(runs) - nsuite < len(scenarios):
        raise MachineryFailure("the driver produced only %d runs for %d scenarios" % (len(runs) - nsuite, len(scenarios)))

    firsts = [r for r in runs if (r.get("test") or "").startswith("drv:") and r["test"].endswith(":generate")]
    failed = [r for r in firsts if r.get("exc")]
    for r in failed[:5]:
        ctx.drift("driver scenario %s: the first generating run raised %s" % (r["test"], r["exc"]))
    if len(firsts) < len(scenarios) or len(failed) * 5 > len(firsts):
        raise MachineryFailure("driver: %d of %d scenarios have a first generating run, %d of them raised (%s)"
                               % (len(firsts), len(scenarios), len(failed), sorted({r["exc"] for r in failed})))

    t = time.time()
    rejects = _validate(ctx, records)
    phases["trace validation"] = round(time.time() - t, 1)
    judge(ctx, clauses, runs, records, rejects, scen_by_sid)
    t = time.time()
    selftests(ctx, runs, records, rejects)
    phases["binding self-tests"] = round(time.time() - t, 1)

    # bookkeeping
    import collections

    eps = collections.Counter((ENTRY_POINTS.get(r["ep"], r["ep"]), r["mode"]) for r in runs)
    for r in runs:
        ctx.count()
        ctx.distinct("g1|%s|%s|%s|%s" % (r["ep"], r["mode"], _struct_class(r), len(r["steps"])))
    for (ep, mode), n in sorted(eps.items()):
        ctx.sample({"entry_point": ep, "mode": mode, "runs": n}, limit=30)
    seen_eps = {r["ep"] for r in runs}
    patched = {(m["mod"], e) for m in meta_s + meta_d for e in m.get("eps", [])}
    missing = {(m["mod"], e) for m in meta_s + meta_d for e in m.get("missing", [])}
    for mod, e in sorted(missing - patched):
        ctx.not_exercised("entry point %s.%s does not exist in this tree" % (mod, e))
    for tag, name in ENTRY_POINTS.items():
        if tag not in seen_eps:
            ctx.not_exercised("no recorded run has %s as its OUTERMOST entry point (calls nested in another entry point belong to that run)" % name)
    nounk = sum(1 for r in records if not r["hasod"])
    if nounk:
        ctx.not_exercised("%d suite runs over mock namespaces have no output directory: sys.inside_outdir / reported / final_mode not evaluated there" % nounk)
    nofm = sum(1 for r in records if r["mode"] == "generate" and not r["hasfm"])
    if nofm:
        ctx.not_exercised("%d generating runs have no SetFileMode (API runs): sys.final_mode not evaluated there" % nofm)
    ndup = sum(1 for r in records if r["dup"])
    if ndup:
        ctx.ambiguous("%d runs return one path twice (names folded onto one file): sys.write_once is not asserted there (the property text excepts them)" % ndup)
    ctx.assumptions.append(
        "G1 run traces: file-system steps are those Python raises audit events for in the generator's own process (open for writing, os.mkdir, os.chmod, "
        "os.remove/rmdir/rename/truncate/link/symlink, shutil.copyfile, subprocess.Popen); what an external post-processor program does is not seen, "
        "the driver additionally compares a snapshot of its sandbox before/after every run and turns unexplained changes into steps")
    summary = {"suite": box.get("suite"), "suite_runs": nsuite, "driver_runs": len(runs) - nsuite, "scenarios": len(scenarios),
               "by_entry_point_and_mode": {"%s %s" % k: v for k, v in sorted(eps.items())}, "rejected": len(rejects), "phases_wall_s": phases,
               "wall_s": round(time.time() - t0, 1)}
    ctx.cov.setdefault("g1_suite_traces", []).append(summary)
    return summary


def replay(ctx, case, clauses=None):
    """Re-runs one recorded case: a scenario of the driver (up to the failing step) or a single test of the suite."""
    clauses = dict(ALL_CLAUSES if clauses is None else clauses)
    trace = ctx.scratch / ("g1-replay-%d.ndjson" % int(time.time() * 1000))
    scen = {}
    if case.get("kind") == "driver":
        sc = case["scenario"]
        scen = {sc["sid"]: sc}
        run_driver(ctx, trace, [sc], nworkers=1)
    else:
        run_pytest(ctx, trace, extra=[case["test"]])
    runs, _meta, snaps = read_trace(trace)
    runs, records = _prepare(runs, snaps)
    rejects = _validate(ctx, records)
    only = {rid: t for rid, t in rejects.items() if case.get("clause") in _clauses_of(t)
            and (case.get("kind") != "driver" or (runs[rid].get("test") or "").endswith(":" + case["step"]))}
    return judge(ctx, {c: o for c, o in clauses.items() if c == case.get("clause")} or clauses, runs, records, only or {}, scen)


def main(argv=None):
    import argparse

    ap = argparse.ArgumentParser(prog="python -m vf.suite")
    ap.add_argument("--worker", default=None, help=argparse.SUPPRESS)
    ap.add_argument("--tier", default=os.environ.get("VERIF_TIER", "quick"), choices=["quick", "thorough"])
    ap.add_argument("--seed", type=int, default=int(os.environ.get("VERIF_SEED", "0") or 0))
    ap.add_argument("--no-suite", action="store_true")
    ap.add_argument("--no-models", action="store_true")
    ap.add_argument("--replay", default=None)
    a = ap.parse_args(argv)
    if a.worker:
        return _worker_main(a.worker)
    import traceback

    ctx = Ctx("SUITE", a.tier, a.seed)
    try:
        if a.replay:
            doc = json.loads(open(a.replay).read())
            ctx.tier = "replay"
            n = replay(ctx, doc["case"])
            print("replay: %d rejected clause(s)" % n)
            return 1 if ctx.violations else 0
        s = run_suite_traces(ctx, suite=not a.no_suite, models=not a.no_models)
        print(json.dumps(s, indent=1))
        for k in ("not_exercised", "ambiguous_cases", "model_drift"):
            for x in ctx.cov[k][:12]:
                print("  %s: %s" % (k, x))
        rc = 1 if ctx.violations else 0
        print("SUITE %s: runs=%d validated=%d states=%d violations=%d selftests=%d wall=%.1fs" % (
            a.tier, s["suite_runs"] + s["driver_runs"], ctx.cov["traces_validated_against_impl"], ctx.cov["states"], len(ctx.violations),
            len(ctx.cov["binding_selftests"]), time.time() - ctx.t0))
        return rc
    except MachineryFailure as e:
        print("MACHINERY-FAILURE property=SUITE: %s" % e)
        return 2
    except Exception:
        traceback.print_exc()
        print("MACHINERY-FAILURE property=SUITE: harness crashed")
        return 2


if __name__ == "__main__":
    sys.exit(main())
