"""Loaded by every child interpreter of a traced suite run (this directory is put first on PYTHONPATH by vf/suite.py): installs the run tracer of
vf/suite_plugin.py when $VF_SUITE_TRACE names the trace file.  Does nothing otherwise, never raises."""
import os
import sys

if os.environ.get("VF_SUITE_TRACE"):
    try:
        _here = os.path.dirname(os.path.dirname(os.path.dirname(os.path.abspath(__file__))))
        if _here not in sys.path:
            sys.path.append(_here)
        import vf.suite_plugin as _p

        _p.install()
    except Exception:  # an observer must never change the run
        pass
