"""Type universe: descriptors (the same record trees the TLA+ DsdlWire module works on), DSDL emission, value generation.

Descriptor (dict): {"k": "uint","w":13,"sat":True} | {"k":"int","w":13} | {"k":"bool"} | {"k":"float","w":16,"sat":True} |
{"k":"void","w":3} | {"k":"farr","n":5,"e":D} | {"k":"varr","cap":5,"e":D} |
{"k":"struct"|"union","fields":[D..],"sealed":bool,"extent":bits,"name":"T12"}

Abstract value (target neutral): int leaf -> int, float leaf -> float, bool -> 0/1, void -> None, farr -> list, varr -> list
(or ("badcount", n, list) for an invalid C/C++ object), struct -> list, union -> (tag, value) (tag may be invalid: value None).
"""
import math
import struct

STD = (8, 16, 32, 64)


def store_w(w):
    for s in STD:
        if w <= s:
            return s
    raise ValueError(w)


def U(w, sat=True):
    return {"k": "uint", "w": w, "sat": bool(sat)}


def I(w):
    return {"k": "int", "w": w}


def B():
    return {"k": "bool"}


def F(w, sat=True):
    return {"k": "float", "w": w, "sat": bool(sat)}


def V(w):
    return {"k": "void", "w": w}


def FA(e, n):
    return {"k": "farr", "n": n, "e": e}


def VA(e, cap):
    # wcap: the capacity of the DSDL definition (fixes the width of the length prefix); cap: the capacity of the object in memory
    # (smaller only under the C option enable_override_variable_array_capacity with a user-reduced capacity)
    return {"k": "varr", "cap": cap, "wcap": cap, "e": e}


def is_comp(t):
    return t["k"] in ("struct", "union")


def is_prim(t):
    return t["k"] in ("uint", "int", "bool", "float", "void")


def align(t):
    if is_comp(t):
        return 8
    if t["k"] in ("farr", "varr"):
        return align(t["e"])
    return 1


def pad_up(x, a):
    return (x + a - 1) // a * a


def prefix_w(maxval):
    return 8 if maxval < 256 else 16 if maxval < 65536 else 32


def prim_w(t):
    return 1 if t["k"] == "bool" else t["w"]


# Mirror of the size arithmetic, used ONLY to pick a legal @extent when inventing types (PyDSDL rejects a wrong one;
# the oracle computes sizes with the TLA+ operators).
def max_bits_field(t):
    k = t["k"]
    if is_prim(t):
        return prim_w(t)
    if k == "farr":
        return t["n"] * max_bits_field(t["e"])
    if k == "varr":
        return prefix_w(t["cap"]) + t["cap"] * max_bits_field(t["e"])
    return max_bits_body(t) if t["sealed"] else 32 + t["extent"]


def max_bits_body(t):
    if t["k"] == "struct":
        off = 0
        for f in t["fields"]:
            off = pad_up(off, align(f)) + max_bits_field(f)
        return pad_up(off, 8)
    return pad_up(prefix_w(len(t["fields"]) - 1) + max(max_bits_field(f) for f in t["fields"]), 8)


def S(fields, sealed=True, slack=0):
    t = {"k": "struct", "fields": list(fields), "sealed": bool(sealed), "extent": 0}
    t["extent"] = max_bits_body(t) + 8 * slack
    return t


def UN(fields, sealed=True, slack=0):
    t = {"k": "union", "fields": list(fields), "sealed": bool(sealed), "extent": 0}
    t["extent"] = max_bits_body(t) + 8 * slack
    return t


# ------------------------------------------------------------------ DSDL emission


class TypeSet:
    """A batch of top-level composites (with their nested composites) emitted into one root namespace."""

    def __init__(self, ns="vns"):
        self.ns = ns
        self.all = []  # every composite, nested ones first
        self.tops = []

    def _name(self, t):
        if "name" not in t:
            for f in t["fields"]:
                self._walk(f)
            t["name"] = "T%d" % len(self.all)
            self.all.append(t)
        return t["name"]

    def _walk(self, t):
        if is_comp(t):
            self._name(t)
        elif t["k"] in ("farr", "varr"):
            self._walk(t["e"])

    def add(self, t):
        """a top-level type; a type marked t["svc"] = "Request" is paired with the NEXT added type (marked "Response") into one service"""
        self._name(t)
        if t.get("svc") == "Response" and self.tops and self.tops[-1].get("svc") == "Request" and "partner" not in self.tops[-1]:
            req = self.tops[-1]
            self.all.remove(t)
            t["name"] = req["name"]
            req["partner"] = t
        elif t.get("svc") == "Response":
            t.pop("svc")  # no request to pair with (batch boundary): an ordinary message
        self.tops.append(t)
        return t

    def expr(self, t):
        k = t["k"]
        if k == "uint":
            return ("saturated " if t["sat"] else "truncated ") + "uint%d" % t["w"]
        if k == "int":
            return "saturated int%d" % t["w"]
        if k == "bool":
            return "bool"
        if k == "float":
            return ("saturated " if t["sat"] else "truncated ") + "float%d" % t["w"]
        if k == "void":
            return "void%d" % t["w"]
        if k == "farr":
            return "%s[%d]" % (self.expr(t["e"]), t["n"])
        if k == "varr":
            return "%s[<=%d]" % (self.expr(t["e"]), t["cap"])
        return "%s.%s.1.0" % (self.ns, t["name"])

    def text(self, t):
        lines = []
        if t["k"] == "union":
            lines.append("@union")
        for i, f in enumerate(t["fields"]):
            if f["k"] == "void":
                lines.append(self.expr(f))
            else:
                lines.append("%s f%d" % (self.expr(f), i))
        lines.append("@sealed" if t["sealed"] else "@extent %d" % t["extent"])
        return "\n".join(lines) + "\n"

    def write(self, root):
        d = root / self.ns
        d.mkdir(parents=True, exist_ok=True)
        for t in self.all:
            if t.get("svc") == "Request" and "partner" not in t:
                t.pop("svc")  # unpaired: an ordinary message
            txt = self.text(t)
            if t.get("svc") == "Request":
                txt += "---\n" + self.text(t["partner"])
            (d / ("%s.1.0.dsdl" % t["name"])).write_text(txt)
        return d

    def files(self):
        """composites that own a generated file (a service's response lives in its request's file)"""
        return [t for t in self.all]


def strip(t):
    """descriptor as sent to TLC (names removed to keep records small)"""
    k = t["k"]
    if is_comp(t):
        return {"k": k, "fields": [strip(f) for f in t["fields"]], "sealed": t["sealed"], "extent": t["extent"]}
    if k in ("farr", "varr"):
        r = dict(t)
        r["e"] = strip(t["e"])
        return r
    return t


def shape(t):
    """structural class of a type (for distinct-case counting and signatures)"""
    k = t["k"]
    if k in ("uint", "float"):
        return "%s%d%s" % (k[0], t["w"], "s" if t["sat"] else "t")
    if k == "int":
        return "i%d" % t["w"]
    if k == "bool":
        return "b"
    if k == "void":
        return "v%d" % t["w"]
    if k == "farr":
        return "[%s;%d]" % (shape(t["e"]), t["n"])
    if k == "varr":
        return "[%s;<=%d]" % (shape(t["e"]), t["cap"])
    return ("S" if k == "struct" else "U") + ("" if t["sealed"] else "d") + "(" + ",".join(shape(f) for f in t["fields"]) + ")"


def features(t, acc=None):
    """coarse feature set of a type: used in known-finding signatures"""
    acc = set() if acc is None else acc
    k = t["k"]
    if is_comp(t):
        acc.add(k + ("" if t["sealed"] else "-delimited"))
        for f in t["fields"]:
            features(f, acc)
    elif k in ("farr", "varr"):
        acc.add(k + ("-of-composite" if is_comp(t["e"]) else "-of-bool" if t["e"]["k"] == "bool" else ""))
        features(t["e"], acc)
    else:
        acc.add(k)
    return acc


# ------------------------------------------------------------------ random / enumerated types

WIDTHS = [1, 2, 3, 7, 8, 9, 13, 16, 17, 24, 31, 32, 33, 40, 48, 56, 63, 64]


def rand_prim(rng, void_ok=True):
    r = rng.random()
    if r < 0.35:
        return U(rng.choice(WIDTHS + list(range(1, 65))), rng.random() < 0.6)
    if r < 0.6:
        return I(rng.choice([w for w in WIDTHS + list(range(2, 65)) if w >= 2]))
    if r < 0.7:
        return B()
    if r < 0.9 or not void_ok:
        return F(rng.choice([16, 32, 64]), rng.random() < 0.6)
    return V(rng.choice([1, 2, 3, 5, 7, 8, 12]))


def rand_field(rng, depth, in_union, big=False):
    r = rng.random()
    if depth > 0 and r < 0.22:
        return rand_composite(rng, depth - 1)
    if r < 0.55:
        return rand_prim(rng, void_ok=not in_union)
    elem = rand_composite(rng, depth - 1) if (depth > 0 and rng.random() < 0.25) else rand_prim(rng, void_ok=False)
    if big and rng.random() < 0.3 and is_prim(elem):
        n = rng.choice([255, 256, 300])
    else:
        n = rng.choice([1, 2, 3, 4, 5, 9])
    return FA(elem, n) if rng.random() < 0.4 else VA(elem, n)


def rand_composite(rng, depth, big=False):
    union = rng.random() < 0.25
    nf = rng.randint(2, 4) if union else rng.randint(0 if rng.random() < 0.05 else 1, 6)
    fields = [rand_field(rng, depth, union, big) for _ in range(nf)]
    sealed = rng.random() < 0.6
    slack = 0 if sealed else rng.choice([0, 0, 1, 3, 8])
    return (UN if union else S)(fields, sealed, slack)


def small_universe(level=1):
    """Enumerated small types: every primitive kind x boundary widths x cast modes at every bit offset 0..7, arrays of them,
    nested sealed / delimited composites, unions.  Deterministic."""
    import copy

    res = []
    # 24 / 40 / 48 / 56: whole bytes on the wire but not a standard storage width (wire stride != memory stride in arrays)
    widths = [1, 2, 3, 7, 8, 9, 13, 16, 17, 24, 31, 32, 33, 40, 48, 56, 63, 64] if level > 1 else [1, 3, 8, 9, 16, 17, 24, 32, 33, 40, 56, 64]
    prims = []
    for w in widths:
        prims += [U(w, True), U(w, False)]
        if w >= 2:
            prims.append(I(w))
    prims += [B(), F(16, True), F(16, False), F(32, True), F(32, False), F(64, True), F(64, False)]
    offs = range(0, 8) if level > 1 else (0, 1, 3, 7)
    for p in prims:
        for off in offs:
            res.append(S(([U(off, False)] if off else []) + [dict(p), U(5, True)]))
    # a primitive as the LAST thing written (whatever a store spills beyond the field lands outside the advertised buffer size)
    for p in prims[:: (1 if level > 1 else 2)]:
        res.append(S([U(8), dict(p)]))
    for p in prims[:: (1 if level > 1 else 3)]:
        for off in (0, 3):
            pre = [U(off, True)] if off else []
            res.append(S(pre + [FA(dict(p), 3), B()]))
            res.append(S(pre + [VA(dict(p), 3), B()]))
    inner_s = S([U(8), I(13)])
    inner_d = S([U(8), I(13)], sealed=False, slack=5)
    inner_d0 = S([U(8), I(13)], sealed=False, slack=0)
    inner_u = UN([U(8), VA(I(9), 2), F(16)])
    inner_ud = UN([U(3, False), I(16)], sealed=False, slack=2)
    empty_d = S([], sealed=False, slack=4)
    for inner in (inner_s, inner_d, inner_d0, inner_u, inner_ud, empty_d):
        for off in (0, 3):
            pre = [U(off, True)] if off else []
            import copy

            res.append(S(pre + [copy.deepcopy(inner), U(8)]))
            res.append(S(pre + [FA(copy.deepcopy(inner), 2), U(8)]))
            res.append(S(pre + [VA(copy.deepcopy(inner), 2), U(8)]))
            res.append(S(pre + [copy.deepcopy(inner), U(8)], sealed=False, slack=3))
            res.append(UN([copy.deepcopy(inner), U(7, False), VA(B(), 9)]))
    # arrays that span several bytes at unaligned offsets: bit-packed booleans, byte arrays and standard-width ("zero-cost" on little-endian
    # targets) arrays go through bulk bit copies whose partial first/last bytes and zero extension are the delicate part
    for off in (0, 1, 3, 5):
        pre = [U(off, False)] if off else []
        res.append(S(pre + [FA(B(), 11), U(2)]))
        res.append(S(pre + [VA(B(), 17), I(3)]))
        res.append(S(pre + [FA(U(8), 3), B()]))
        res.append(S(pre + [VA(I(8), 4), U(5)]))
        res.append(S(pre + [FA(I(16), 2), B()]))
        res.append(S(pre + [VA(U(32, False), 2)]))
        res.append(S(pre + [VA(F(32), 2), B()]))
        res.append(S(pre + [FA(F(64), 1), U(3)]))
        res.append(S(pre + [VA(U(4), 5), B()]))
        res.append(S(pre + [FA(I(3), 7)]))
        res.append(S(pre + [FA(U(24), 3), B()]))
        res.append(S(pre + [VA(I(40), 2), U(3)]))
        res.append(S(pre + [FA(U(56, False), 2)]))
        res.append(S(pre + [VA(I(24), 3), VA(U(48), 1)]))
    # alternatives / fields whose in-memory form owns heap memory behind a FIXED-length array (C++: std::array of objects holding containers)
    owner = S([U(8), VA(U(8), 3)])
    owner_u = UN([VA(I(9), 2), U(8)])
    res.append(UN([FA(copy.deepcopy(owner), 2), U(8)]))
    res.append(UN([U(5, False), FA(copy.deepcopy(owner_u), 2), VA(copy.deepcopy(owner), 2)]))
    res.append(S([FA(copy.deepcopy(owner), 2), UN([FA(copy.deepcopy(owner), 1), B()])]))
    res.append(S([V(3), B(), V(4), U(16), V(8)]))
    res.append(S([]))
    # objects of zero size in the LAST position (a window of length zero that starts exactly at the end of the buffer), in the middle and alone
    res.append(S([U(8), S([])]))
    res.append(S([VA(U(8), 2), S([], sealed=False)]))
    res.append(S([U(16), UN([S([]), S([])])]))
    res.append(S([I(7), FA(S([]), 2)]))
    res.append(S([S([]), U(8), VA(S([]), 2)]))
    res.append(S([VA(U(8), 255)]))
    res.append(S([VA(U(8), 256)]))
    # capacities below, in the upper half of and next to the top of the 8-bit prefix's range (a check that is "dead" for some of them is dead for none)
    res.append(S([VA(U(8), 127), U(8)]))
    res.append(S([VA(U(8), 128), B()]))
    res.append(S([U(3), VA(U(8), 200), U(5)]))
    res.append(S([VA(I(16), 129)]))
    res.append(UN([VA(U(8), 254), U(8)]))
    res.append(S([VA(B(), 300), I(7)]))
    res.append(UN([U(8), U(16, False)], sealed=False, slack=1))
    return res


# ------------------------------------------------------------------ values

F32_SPECIAL = [0.0, -0.0, 1.0, -1.0, 0.5, 65504.0, -65504.0, 65519.99, 65520.0, 65536.0, 1e5, -1e5, 5.9604644775390625e-08,
               2.98e-08, 3e-08, 6.097555160522461e-05, 6.103515625e-05, 1.0009765625, 1.00048828125, 1.000732421875, 0.333251953125, 1 / 3,
               3.4028234663852886e38, -3.4028234663852886e38, 1e-45, 1.17549435e-38, math.inf, -math.inf, math.nan, 2049.0, 2051.0, 4098.0]
F64_SPECIAL = F32_SPECIAL + [1.7976931348623157e308, -1.7976931348623157e308, 5e-324, 2.2250738585072014e-308, 3.4028235677973366e38,
                             3.402823466385289e38 * 1.0000001, 1e39, -1e39, 1e-46, 7.006492321624085e-46, 1.401298464324817e-45, 0.1]


def f32(x):
    """round a python float to float32 (so that C float storage holds exactly the same number)"""
    try:
        return struct.unpack("<f", struct.pack("<f", x))[0]
    except OverflowError:
        return math.copysign(math.inf, x)


def rand_leaf(rng, t, wild=False, f64_ok=False):
    k = t["k"]
    if k == "bool":
        return rng.randint(0, 1)
    if k == "void":
        return None
    if k == "uint":
        w = t["w"]
        hi = (1 << w) - 1
        c = [0, 1, hi, hi - 1 if hi else 0, hi >> 1, rng.getrandbits(w), rng.getrandbits(w)]
        if wild and store_w(w) > w:
            sm = (1 << store_w(w)) - 1
            c += [hi + 1, sm, rng.randint(hi + 1, sm), (rng.getrandbits(store_w(w)) | (1 << w)) & sm]
        return rng.choice(c)
    if k == "int":
        w = t["w"]
        lo, hi = -(1 << (w - 1)), (1 << (w - 1)) - 1
        c = [0, 1, -1, lo, hi, lo + 1, hi - 1, rng.randint(lo, hi), rng.randint(lo, hi)]
        if wild and store_w(w) > w:
            slo, shi = -(1 << (store_w(w) - 1)), (1 << (store_w(w) - 1)) - 1
            c += [hi + 1, lo - 1, slo, shi, rng.randint(slo, lo - 1), rng.randint(hi + 1, shi)]
        return rng.choice(c)
    # float
    w = t["w"]
    r = rng.random()
    if w == 64 or (f64_ok and r < 0.4):
        if r < 0.5:
            x = rng.choice(F64_SPECIAL)
        else:
            x = struct.unpack("<d", struct.pack("<Q", rng.getrandbits(64)))[0]
        return x if (w == 64 or f64_ok) else f32(x)
    if r < 0.5:
        return f32(rng.choice(F32_SPECIAL))
    if r < 0.75 and w == 16:
        # around half-precision rounding boundaries
        h = rng.getrandbits(16)
        base = struct.unpack("<e", struct.pack("<H", h))[0]
        if math.isnan(base) or math.isinf(base):
            return base
        return f32(base * (1.0 + rng.choice([0, 2 ** -11, 2 ** -12, -(2 ** -12), 2 ** -13, 3 * 2 ** -13, 2 ** -20])))
    return struct.unpack("<f", struct.pack("<I", rng.getrandbits(32)))[0]


def rand_value(rng, t, wild=False, f64_ok=False, mode="rand"):
    k = t["k"]
    if is_prim(t):
        if mode == "zero":
            return None if k == "void" else (0.0 if k == "float" else 0)
        return rand_leaf(rng, t, wild, f64_ok)
    if k == "farr":
        return [rand_value(rng, t["e"], wild, f64_ok, mode) for _ in range(t["n"])]
    if k == "varr":
        cap = t["cap"]
        n = 0 if mode == "zero" else cap if mode == "max" else rng.choice([0, 1, cap, cap, rng.randint(0, cap)])
        n = min(n, cap)
        if cap > 20 and mode != "max":
            n = rng.choice([0, 1, 2, rng.randint(0, 20), cap])
        vals = [rand_value(rng, t["e"], wild, f64_ok, mode) for _ in range(n)]
        if wild and rng.random() < 0.15:
            # a count above the capacity (an object without a representation); cap + 256 / cap + 65536 have the low bits of a valid count
            bad = rng.choice([cap + 1, cap + 2, max(255, cap + 1), cap + 256, cap + 65536])
            return ("badcount", bad, [rand_value(rng, t["e"], wild, f64_ok, mode) for _ in range(min(cap, 20))])
        return vals
    if k == "struct":
        return [rand_value(rng, f, wild, f64_ok, mode) for f in t["fields"]]
    nf = len(t["fields"])
    if wild and rng.random() < 0.12:
        return (rng.choice([nf, nf + 1, 255]), None)
    tag = 0 if mode == "zero" else rng.randrange(nf)
    return (tag, rand_value(rng, t["fields"][tag], wild, f64_ok, mode))


def boundary_value(t, j, wild=False):
    """the j-th systematic boundary value: every leaf takes the j-th entry of its own boundary list (so +-inf, NaN, max, min, -1, all-ones,
    just-out-of-range storage values, empty/full arrays and every union tag are all offered, independently of the random draws)"""
    k = t["k"]
    if k == "bool":
        return j % 2
    if k == "void":
        return None
    if k == "uint":
        w = t["w"]
        hi = (1 << w) - 1
        c = [0, hi, 1, hi >> 1, (hi >> 1) + 1, hi - 1 if hi else 0]
        if wild and store_w(w) > w:
            sm = (1 << store_w(w)) - 1
            c = [hi + 1, sm, sm - 1, (1 << w) | 1, sm ^ hi, hi + 2]
        return c[j % len(c)]
    if k == "int":
        w = t["w"]
        lo, hi = -(1 << (w - 1)), (1 << (w - 1)) - 1
        c = [0, -1, lo, hi, 1, lo + 1, hi - 1]
        if wild and store_w(w) > w:
            slo, shi = -(1 << (store_w(w) - 1)), (1 << (store_w(w) - 1)) - 1
            c = [hi + 1, lo - 1, slo, shi, hi + 2, lo - 2]
        return c[j % len(c)]
    if k == "float":
        w = t["w"]
        mx = {16: 65504.0, 32: 3.4028234663852886e38, 64: 1.7976931348623157e308}[w]
        c = [0.0, math.inf, -math.inf, math.nan, mx, -mx, -0.0, 1.0, {16: 5.9604644775390625e-08, 32: 1e-45, 64: 5e-324}[w], 0.333251953125]
        if wild and w < 64:
            nxt = {16: 65520.0, 32: 3.4028235677973366e38}[w]
            c = [nxt, -nxt, 65536.0 if w == 16 else 1e39, -1e39 if w == 32 else -70000.0, 65519.0 if w == 16 else 3.4028234663852886e38, 1e-9]
            if w == 32:
                c = [f32(x) for x in c]
        return c[j % len(c)]
    if k == "farr":
        return [boundary_value(t["e"], j + i, wild) for i in range(t["n"])]
    if k == "varr":
        cap = t["cap"]
        n = [0, cap, 1, max(cap - 1, 0)][j % 4]
        if cap > 16:
            n = [0, cap, 1, 7][j % 4]
        if wild and j % 4 == 3:  # the smallest count without a representation (capacities 255 / 65535: the prefix cannot even carry it)
            return ("badcount", cap + 1, [boundary_value(t["e"], j + i, False) for i in range(min(cap, 8))])
        return [boundary_value(t["e"], j + i, wild) for i in range(n)]
    if k == "struct":
        return [boundary_value(f, j + i, wild) for i, f in enumerate(t["fields"])]
    tag = j % len(t["fields"])
    return (tag, boundary_value(t["fields"][tag], j // len(t["fields"]), wild))


def le(x, nbytes):
    return list((x & ((1 << (8 * nbytes)) - 1)).to_bytes(nbytes, "little"))


def encode(t, v, L):
    """abstract value -> value tree in the storage form of target L ('c' or 'py') as DsdlWire expects it"""
    k = t["k"]
    if k in ("uint", "int"):
        return le(v, 8 if L == "py" else store_w(t["w"]) // 8)
    if k == "bool":
        return [1 if v else 0]
    if k == "void":
        return []
    if k == "float":
        if L == "py" or t["w"] == 64:
            return list(struct.pack("<d", v))
        return list(struct.pack("<f", v))
    if k == "farr":
        return [encode(t["e"], x, L) for x in v]
    if k == "varr":
        if isinstance(v, tuple):
            return {"n": v[1], "e": [encode(t["e"], x, L) for x in v[2]]}
        return {"n": len(v), "e": [encode(t["e"], x, L) for x in v]}
    if k == "struct":
        return [encode(f, x, L) for f, x in zip(t["fields"], v)]
    tag, x = v
    if tag >= len(t["fields"]):
        return {"tag": tag, "v": []}
    return {"tag": tag, "v": encode(t["fields"][tag], x, L)}


def is_valid_object(t, v):
    k = t["k"]
    if is_prim(t):
        return True
    if k == "farr":
        return all(is_valid_object(t["e"], x) for x in v)
    if k == "varr":
        if isinstance(v, tuple):
            return False
        return all(is_valid_object(t["e"], x) for x in v)
    if k == "struct":
        return all(is_valid_object(f, x) for f, x in zip(t["fields"], v))
    tag, x = v
    return tag < len(t["fields"]) and is_valid_object(t["fields"][tag], x)


def in_declared_range(t, v):
    """is the abstract value acceptable to a target that refuses out-of-range field values (Python)?"""
    k = t["k"]
    if k == "uint":
        return 0 <= v < (1 << t["w"])
    if k == "int":
        return -(1 << (t["w"] - 1)) <= v < (1 << (t["w"] - 1))
    if k == "float":
        lim = {16: 65504.0, 32: 3.4028234663852886e38, 64: math.inf}[t["w"]]
        return math.isnan(v) or math.isinf(v) or abs(v) <= lim
    if is_prim(t):
        return True
    if k == "farr":
        return all(in_declared_range(t["e"], x) for x in v)
    if k == "varr":
        return not isinstance(v, tuple) and all(in_declared_range(t["e"], x) for x in v)
    if k == "struct":
        return all(in_declared_range(f, x) for f, x in zip(t["fields"], v))
    tag, x = v
    return tag < len(t["fields"]) and in_declared_range(t["fields"][tag], x)


# ------------------------------------------------------------------ evolved encodings (stimuli only: never an oracle)

def _parse(t, bits, pos, out):
    """split a valid encoding into raw bit runs and length-delimited nested objects; returns the new position or None"""
    k = t["k"]
    if is_prim(t):
        w = prim_w(t)
        if pos + w > len(bits):
            return None
        out.append(["bits", bits[pos:pos + w]])
        return pos + w
    if k in ("farr", "varr"):
        n = t["n"] if k == "farr" else None
        if n is None:
            pw = prefix_w(t["wcap"])
            if pos + pw > len(bits):
                return None
            n = sum(b << i for i, b in enumerate(bits[pos:pos + pw]))
            out.append(["bits", bits[pos:pos + pw], ("len", t["cap"], pw)])
            pos += pw
            if n > t["cap"]:
                return None
        for _ in range(n):
            pos = _parse_field(t["e"], bits, pos, out)
            if pos is None:
                return None
        return pos
    # nested composite
    if t["sealed"]:
        return _parse_body(t, bits, pos, out)
    if pos + 32 > len(bits):
        return None
    h = sum(b << i for i, b in enumerate(bits[pos:pos + 32]))
    p1 = pos + 32
    if p1 + 8 * h > len(bits):
        return None
    sub = []
    inner = bits[p1:p1 + 8 * h]
    end = _parse_body(t, inner, 0, sub)
    if end is None:
        return None
    if end < len(inner):
        sub.append(["bits", inner[end:]])
    out.append(["delim", sub, []])
    return p1 + 8 * h


def _parse_field(t, bits, pos, out):
    a = align(t)
    if pos % a:
        pad = a - pos % a
        if pos + pad > len(bits):
            return None
        out.append(["bits", bits[pos:pos + pad]])
        pos += pad
    return _parse(t, bits, pos, out)


def _parse_body(t, bits, pos, out):
    if t["k"] == "struct":
        for f in t["fields"]:
            pos = _parse_field(f, bits, pos, out)
            if pos is None:
                return None
    else:
        tw = prefix_w(len(t["fields"]) - 1)
        if pos + tw > len(bits):
            return None
        tag = sum(b << i for i, b in enumerate(bits[pos:pos + tw]))
        out.append(["bits", bits[pos:pos + tw], ("tag", len(t["fields"]) - 1, tw)])
        pos += tw
        if tag >= len(t["fields"]):
            return None
        pos = _parse_field(t["fields"][tag], bits, pos, out)
        if pos is None:
            return None
    if pos % 8:
        pad = 8 - pos % 8
        if pos + pad > len(bits):
            return None
        out.append(["bits", bits[pos:pos + pad]])
        pos += pad
    return pos


def _emit(tokens):
    bits = []
    for tok in tokens:
        if tok[0] == "bits":
            bits += tok[1]
        else:
            payload = _emit(tok[1]) + tok[2]
            h = len(payload) // 8
            bits += [(h >> i) & 1 for i in range(32)] + payload
    return bits


def _delims(tokens, acc):
    for tok in tokens:
        if tok[0] == "delim":
            acc.append(tok)
            _delims(tok[1], acc)
    return acc


def evolve(t, data, rng, limit=6):
    """encodings a peer with ANOTHER revision of the nested extensible types would send for the same message: one length-delimited nested
    object made longer (bytes the receiver does not know: implicit truncation, every enclosing header grows with it) or cut short (implicit
    zero extension inside the nested object).  Both are valid representations.  [(bytes, why)]"""
    import copy

    bits = [(b >> i) & 1 for b in data for i in range(8)]
    toks = []
    if _parse_body(t, bits, 0, toks) != len(bits):
        return []
    res = []
    nodes = _delims(toks, [])
    for idx in range(len(nodes)):
        for grow in (True, False):
            tk = copy.deepcopy(toks)
            node = _delims(tk, [])[idx]
            if grow:
                node[2] = [rng.getrandbits(1) for _ in range(8 * rng.choice([1, 2, 5]))]
            else:
                payload = _emit(node[1])
                if len(payload) < 8:
                    continue
                cut = 8 * rng.randrange(0, len(payload) // 8)
                node[1] = [["bits", payload[:cut]]]
            out = _emit(tk)
            res.append((bytes(sum(out[i + j] << j for j in range(8)) for i in range(0, len(out), 8)), "evolved-longer" if grow else "evolved-shorter"))
    rng.shuffle(res)
    return res[:limit] + invalidate(toks)


def _flat(tokens, acc):
    for tok in tokens:
        if tok[0] == "delim":
            _flat(tok[1], acc)
        else:
            acc.append(tok)
    return acc


def invalidate(toks, limit=6):
    """representations the specification declares INVALID, made from a valid one: one array length prefix set to capacity + 1 and to the largest value
    the prefix can carry, one union tag set to the option count and to the largest value of its field - with everything behind it unchanged, and cut
    right behind the altered field (what follows is then implicit zeros).  Systematic for every capacity: whether a capacity is below, in the upper half of,
    or at the top of its prefix's range must not matter.  Stimuli only."""
    import copy

    res = []
    marks = [i for i, tok in enumerate(_flat(toks, [])) if len(tok) > 2][:limit]
    for i in marks:
        kind, top, w = _flat(toks, [])[i][2]
        for val in sorted({top + 1, (1 << w) - 1}):
            if val <= top or val >= (1 << w):
                continue
            tk = copy.deepcopy(toks)
            flat = _flat(tk, [])
            flat[i][1] = [(val >> b) & 1 for b in range(w)]
            out = _emit(tk)
            whole = bytes(sum(out[k + j] << j for j in range(8)) for k in range(0, len(out) - len(out) % 8, 8))
            res.append((whole, "bad-" + kind))
            # cut right behind the altered field (only when it is not inside a length-delimited object, whose header would no longer fit)
            if not any(t0[0] == "delim" for t0 in tk):
                upto = sum(len(t0[1]) for t0 in flat[:i + 1])
                res.append((whole[:(upto + 7) // 8], "bad-" + kind + "-cut"))
    return res
