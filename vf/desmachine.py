"""The C deserializer machine (specs/WireMachineDes.tla) and its binding to the generated code.

model    : TLC checks WireMachineDes (I => P: the cursor machine refines DsdlWire!Des; the templates' alignment assertions hold; direct byte
           reads stay inside; with Clamp=TRUE every pointer handed to a nested routine lies inside the caller's buffer) and refutes four
           variants (negative controls, among them the call site without the clamp: the design the pinned tree had).
code->spec: the generated C routines are compiled with a SPY around every deserialization routine (vf/harness_c.py, -DVF_SPY: each header is
           followed by a wrapper and a macro that routes the later calls through it - nothing in /repo is touched); the spy records the call
           and return actions of the machine: (pointer offset from the top-level buffer, size handed in) / (result, size handed back).
           Every recorded decode is replayed by TLC through WireMachineDes!StepF (specs/WireMachineDesTrace.tla).
verdicts : des.ptr_inside (P clause of C04: a pointer beyond one-past-the-end is undefined behaviour) decides when `decide_ptr`;
           mach.calls / mach.rets / mach.result / mach.asserts are model drift (the P-layer result clauses are CodecTrace's business).
"""
import copy

from . import dsdl, tlc
from .core import MachineryFailure, NCPU
from .harness_c import CTarget, unhex

NEGATIVE = [("WireMachineDes_neg_nomask", "Refines"), ("WireMachineDes_neg_dynalign", "AssertsHold"), ("WireMachineDes_neg_sealedhdr", "Refines"),
            ("WireMachineDes_ptr_noclamp", "PointerInside")]


def models(ctx):
    for cfg, c in ctx.pick([("WireMachineDes_ptr_clamp1", "Little=FALSE Level=1 Clamp=TRUE")],
                           [("WireMachineDes_ptr_clamp", "Little=FALSE Level=2 Clamp=TRUE"), ("WireMachineDes_little_2", "Little=TRUE Level=2 Clamp=TRUE")]):
        tlc.check_model(ctx, "WireMachineDes", cfg, constants=c, timeout=3000)
    refuted = []
    for cfg, inv in NEGATIVE:
        neg = tlc.run_tlc(tlc.SPECS / "WireMachineDes.tla", tlc.SPECS / (cfg + ".cfg"), ctx.scratch)
        if neg.violated != inv:
            raise MachineryFailure("negative control %s of the deserializer machine was not refuted by %s (got %r %r)" % (cfg, inv, neg.violated, neg.error))
        refuted.append("%s refuted by %s" % (cfg.split("_", 1)[1], inv))
    ctx.cov["des_machine_negative_controls"] = refuted


def machine_types(ctx, n):
    """types whose decoders contain nested calls behind fixed and variable parts (the call site is what the spy observes), small enough for
    TLC to replay quickly; plus a few without calls"""
    S, U, I, B, VA, FA, UN, F, V = dsdl.S, dsdl.U, dsdl.I, dsdl.B, dsdl.VA, dsdl.FA, dsdl.UN, dsdl.F, dsdl.V
    inner_s = S([U(8), I(13)])
    inner_d = S([U(8), I(13)], sealed=False, slack=2)
    inner_u = UN([U(8), VA(I(9), 2), F(16)])
    inner_ud = UN([U(3, False), I(16)], sealed=False, slack=2)
    empty_d = S([], sealed=False, slack=3)
    deep = S([U(8), S([B(), S([I(9)], sealed=False, slack=1)])])
    res = []
    for inner in (inner_s, inner_d, inner_u, inner_ud, empty_d, deep):
        for pre in ([], [U(3, False)], [VA(U(8), 3)], [VA(B(), 5), U(16)], [U(32), U(32)]):
            c = copy.deepcopy
            res.append(S(c(pre) + [c(inner), U(8)]))
            res.append(S(c(pre) + [FA(c(inner), 2)]))
            res.append(S(c(pre) + [VA(c(inner), 2), B()]))
            res.append(S(c(pre) + [c(inner)], sealed=False, slack=2))
            res.append(UN([c(inner), U(7, False), VA(c(inner), 2)]))
    res += [S([U(3, False), B(), U(5)]), S([VA(U(8), 4), I(7)]), S([FA(I(16), 2), B()]), S([VA(B(), 9), U(8)]), S([])]
    rng = __import__("random").Random(ctx.seed * 31 + 5)
    extra = []
    while len(extra) < n:
        t = dsdl.rand_composite(rng, 2, big=False)
        nested = set()
        for f in t["fields"]:
            nested |= dsdl.features(f)
        if dsdl.max_bits_body(t) <= 8 * 40 and any(x.startswith(("struct", "union")) for x in nested):
            extra.append(t)
    return res + extra


def campaign(ctx, prop, decide_ptr, n_random_types=20):
    models(ctx)
    types = machine_types(ctx, ctx.pick(n_random_types, 4 * n_random_types))
    rng = ctx.rng
    nrec, ndrift, seen_drift = 0, 0, set()
    for name, options, little in (("c/any", {}, False), ("c/little", {"target_endianness": "little"}, True)):
        batches = [types[i:i + 40] for i in range(0, len(types), 40)]
        records, stim = [], {}
        for bi, batch in enumerate(batches):
            tg = CTarget(ctx.scratch, batch, options=options, spy=True, tag="spy%s%d_" % ("l" if little else "a", bi))
            # valid encodings from the target itself (boundary values), then every truncation / extension / mutation of them
            cmds, back = [], {}
            for li, t in enumerate(tg.types):
                need = dsdl.max_bits_body(t) // 8
                for j in range(3):
                    cid = len(back) + 1
                    back[cid] = li
                    cmds.append(tg.cmd_ser(cid, li, dsdl.boundary_value(t, j + 1), need))
            valid = {}
            for cid, r in tg.run(cmds).items():
                if isinstance(cid, int) and r.get("err") == "none":
                    valid.setdefault(back[cid], []).append(bytes.fromhex(r["bytes"]))
            cmds, back = [], {}
            for li, t in enumerate(tg.types):
                need = dsdl.max_bits_body(t) // 8
                from .codec import byte_strings

                for data, why in byte_strings(rng, valid.get(li, []), need, ctx.pick(4, 12), not ctx.quick):
                    if why == "null":
                        continue
                    cid = len(back) + 1
                    back[cid] = (li, data, why)
                    cmds.append(tg.cmd_des(cid, li, data))
            for cid, r in tg.run(cmds).items():
                if not isinstance(cid, int) or "crash" in r:
                    continue  # calls without a return are C04's hist.noret clause (sanitizer builds); not judged here
                li, data, why = back[cid]
                t = tg.types[li]
                if r.get("spy_overflow"):
                    continue
                nrec += 1
                rid = "%s-%d-%d" % ("l" if little else "a", bi, cid)
                # the first call / last return is the top-level routine itself (called by the driver through the same macro)
                calls, rets = r["spy_calls"][1:], r["spy_rets"][:-1]
                records.append({"id": rid, "t": dsdl.strip(t), "bytes": list(data), "err": r["err"], "consumed": r["consumed"],
                                "val": unhex(r["val"]) if r["err"] == "none" else [], "calls": calls, "rets": rets})
                stim[rid] = {"target": name, "options": options, "descr": dsdl.strip(t), "type": dsdl.shape(t), "data": list(data), "why": why, "calls": calls, "rets": rets}
                ctx.count()
                ctx.distinct("mach|%s|%s|%d|%d" % (name, dsdl.shape(t), len(data), len(calls)), nontrivial=bool(calls))
        rej = tlc.validate_traces(ctx, "WireMachineDesTrace", records, batch=ctx.pick(400, 400),
                                  constants={"Little": "TRUE" if little else "FALSE", "Level": 1, "Clamp": "TRUE", "Bug": '"none"'})
        for rid, clause in sorted(rej.items()):
            info = stim[rid]
            if clause == "des.ptr_inside":
                what = ("the routine of a nested object was handed a pointer %s bytes from the start of a %d-byte buffer (%s, %s, input %s)"
                        % (max(c["at"] for c in info["calls"]), len(info["data"]), info["target"], info["type"], bytes(info["data"]).hex() or "empty"))
                if decide_ptr:
                    ctx.violation("%s|c|des.ptr_inside" % prop, what, {"kind": "desmachine", **info})
                else:
                    ctx.ambiguous("C04 clause des.ptr_inside rejected a record seen by %s: %s" % (prop, what))
            else:
                ndrift += 1
                key = (clause, info["type"])
                if key not in seen_drift and len(seen_drift) < 8:
                    seen_drift.add(key)
                    ctx.drift("WireMachineDes differs from the generated C decoder (%s) on %s, %s, input %s: recorded calls %r rets %r"
                              % (clause, info["target"], info["type"], bytes(info["data"]).hex(), info["calls"], info["rets"]))
        if records and name == "c/any":
            r = next((x for x in records if len(x["calls"]) >= 2), records[0])
            ctx.sample({"direction": "code->spec (spy)", "record": {k: r[k] for k in r if k != "t"}, "type": stim[r["id"]]["type"]})
            # binding self-test: a corrupted call record must be rejected
            good = next((x for x in records if x["calls"] and x["id"] not in rej), None)
            if good is not None:
                bad = dict(good, id="selftest", calls=[dict(good["calls"][0], size=good["calls"][0]["size"] + 1)] + good["calls"][1:])
                before = ctx.cov["traces_validated_against_impl"]
                rj = tlc.validate_traces(ctx, "WireMachineDesTrace", [bad], constants={"Little": "FALSE", "Level": 1, "Clamp": "TRUE", "Bug": '"none"'})
                ctx.cov["traces_validated_against_impl"] = before
                ctx.selftest("a corrupted nested-call size is rejected by WireMachineDesTrace", rj.get("selftest") == "mach.calls")
    ctx.cov["des_machine"] = {"decodes_replayed_through_the_machine": nrec, "records_with_drift": ndrift, "types": len(types)}


def replay(ctx, case, prop):
    """re-run one recorded decode on the current tree under the spy"""
    t = case["descr"]
    tg = CTarget(ctx.scratch, [_named(t)], options=case.get("options") or {}, spy=True, tag="spyreplay")
    r = tg.run([tg.cmd_des(1, 0, bytes(case["data"]))]).get(1, {"crash": "no output"})
    if "crash" in r:
        raise MachineryFailure("the decode did not return under the spy: that is C04's hist.noret clause, re-run ./check C04")
    rec = {"id": 1, "t": dsdl.strip(tg.types[0]), "bytes": list(case["data"]), "err": r["err"], "consumed": r["consumed"],
           "val": unhex(r["val"]) if r["err"] == "none" else [], "calls": r["spy_calls"][1:], "rets": r["spy_rets"][:-1]}
    little = (case.get("options") or {}).get("target_endianness") == "little"
    rej = tlc.validate_traces(ctx, "WireMachineDesTrace", [rec], constants={"Little": "TRUE" if little else "FALSE", "Level": 1, "Clamp": "TRUE", "Bug": '"none"'})
    if rej.get(1) == "des.ptr_inside":
        ctx.violation("%s|c|des.ptr_inside" % prop, "a nested routine was handed a pointer outside the buffer: calls %r on %d bytes" % (rec["calls"], len(rec["bytes"])), case)


def _named(t):
    """a stripped descriptor as a fresh type (names are assigned by the TypeSet)"""
    return copy.deepcopy(t)
