"""Run tracer for generator runs (growth build G1): pytest plugin (`-p vf.suite_plugin`) and, through `vf/suite_site/sitecustomize.py`,
tracer of every child interpreter.  Nothing in /repo is changed: the public entry points are wrapped after their module has been imported
(a meta-path finder patches the module object right after its body ran) and file-system steps are observed with `sys.addaudithook`.

One ndjson line per OUTERMOST entry-point call ("run") is appended to the file named by $VF_SUITE_TRACE:

  {"run": 1, "test": <PYTEST_CURRENT_TEST or $VF_SUITE_CASE>, "pid":, "ep": main|run|dsdl|support|types, "mode": generate|dryrun|list_outputs|
   list_inputs|list_configuration|none, "outdir": <abs real path>|null, "cwd":, "ovw": bool, "fm": int|null, "fm_last": bool, "pps": [class names],
   "custom_pp": bool, "argv": [...]|null, "exc": class name|null,
   "steps": [{"k": mkdir|open|copy|chmod|remove|rename|rmdir|spawn, "p": abs path, "q": abs path (rename target)|null, "m": int, "ex": bool,
              "om": int, "pe": bool, "tmp": bool}],
   "calls": [{"g": dsdl|support, "dry": bool, "ok": bool, "ret": [abs paths]|null, "s0": int, "s1": int}],
   "printed": [strings]|null, "printed_phys": [the printed paths resolved by the OS from cwd at the end of the run]}

Every path is brought to ONE identity, that of the physical file, at record time: absolute against the cwd of the step, symbolic links of the
directory part resolved the way the OS walks the path (`os.path.realpath` of the parent joined with the leaf name; the output directory itself
fully resolved) BEFORE any `..` is collapsed - `lnk/../out` with `lnk -> deep/inner` is `deep/out`, not `out` - so that "inside the output
directory" is the physical truth; the TLA+ T-layer still normalises `..` itself.  `ex`: the path existed when the step began, `om`: its permission
bits then (0 if it did not exist), `pe`: its parent directory existed (an os.mkdir without it fails).  `tmp`: the path lies below a temporary
file/directory announced by a `tempfile.mkstemp` / `tempfile.mkdtemp` audit event inside the same run.  An observer never changes the run:
every hook body is wrapped in try/except and does nothing when no run is open.
"""
import functools
import json
import os
import sys

ENV_TRACE = "VF_SUITE_TRACE"
ENV_CASE = "VF_SUITE_CASE"

_WR = os.O_WRONLY | os.O_RDWR | os.O_CREAT | os.O_TRUNC | os.O_APPEND

# entry points by public name: module -> [(attribute path, tag)]
TARGETS = {
    "nunavut.cli": [("main", "main")],
    "nunavut.cli.runners": [("ArgparseRunner.run", "run"), ("ArgparseRunner.__init__", "init")],
    "nunavut.jinja": [("DSDLCodeGenerator.generate_all", "dsdl"), ("SupportGenerator.generate_all", "support")],
    "nunavut._generators": [("generate_types", "types")],
    "nunavut": [("generate_types", "types")],
}


class _State:
    installed = False
    depth = 0
    busy = False
    run = None
    tmp_roots = ()
    patched = {}
    runner_args = {}  # id(runner) -> argparse namespace (kept alive by the runner itself)


S = _State


def _trace_path():
    return os.environ.get(ENV_TRACE)


def _emit(obj):
    p = _trace_path()
    if not p:
        return
    S.busy = True
    try:
        data = (json.dumps(obj, separators=(",", ":"), default=str) + "\n").encode("utf-8")
        fd = os.open(p, os.O_WRONLY | os.O_APPEND | os.O_CREAT, 0o644)
        try:
            os.write(fd, data)
        finally:
            os.close(fd)
    except Exception:
        pass
    finally:
        S.busy = False


def _text(p):
    if isinstance(p, bytes):
        p = os.fsdecode(p)
    p = os.fspath(p)
    if isinstance(p, bytes):
        p = os.fsdecode(p)
    return p


def _abs(p):
    """identity of the DIRECTORY a path names (output directory, temporary root): every symbolic link resolved by the OS rules, from the cwd"""
    return os.path.realpath(os.path.join(os.getcwd(), _text(p)))


def _phys(p):
    """identity of the physical FILE a path names: symbolic links in the directory part are resolved as the OS does when it walks the path
    (so a `..` after a link goes to the parent of the link's TARGET) and the leaf name is kept, which also works for a leaf that does not
    exist yet or was just removed.  Nothing is normalised as text before the links are resolved."""
    p = os.path.join(os.getcwd(), _text(p))
    while len(p) > 1 and p.endswith(os.sep):
        p = p[:-1]
    d, b = os.path.split(p)
    if b in ("", ".", ".."):
        return os.path.realpath(p)
    return os.path.join(os.path.realpath(d), b)


def _is_tmp(ap):
    for r in S.tmp_roots:
        if ap == r or ap.startswith(r + os.sep):
            return True
    return False


def _step(kind, p, m=0, q=None):
    run = S.run
    ap = _phys(p)
    ex = os.path.lexists(ap)
    om = 0
    if ex:
        try:
            om = os.lstat(ap).st_mode & 0o7777
        except OSError:
            om = 0
    run["steps"].append({"k": kind, "p": ap, "q": _phys(q) if q is not None else None, "m": int(m), "ex": bool(ex), "om": om,
                         "pe": os.path.isdir(os.path.dirname(ap)), "tmp": _is_tmp(ap)})


def _fd(x):
    """a real dir_fd argument (the audit event carries -1 or None when the call had none)"""
    return x is not None and x != -1


def _hook(ev, args):
    if S.depth == 0 or S.busy or S.run is None:
        return
    if ev not in _EVENTS:
        return
    S.busy = True
    try:
        run = S.run
        if ev == "open":
            p, _mode, flags = args[0], args[1], args[2]
            if isinstance(p, int) or not isinstance(flags, int) or not (flags & _WR):
                return
            ap = _phys(p)
            if ap == run.get("_trace") or (ap.startswith("/dev/") and not ap.startswith("/dev/shm/")) or ap.startswith("/proc/"):
                return
            pend = run.get("_copy")
            if pend is not None and pend == ap:  # the open(dst, "wb") that belongs to the shutil.copyfile step just recorded
                run["_copy"] = None
                return
            _step("open", p, 1 if flags & os.O_TRUNC else 0)
        elif ev == "shutil.copyfile":
            _step("copy", args[1], 1)
            run["_copy"] = _phys(args[1])
        elif ev == "os.mkdir":
            if len(args) > 2 and _fd(args[2]):
                return
            _step("mkdir", args[0], args[1] if isinstance(args[1], int) else 0)
        elif ev == "os.chmod":
            if isinstance(args[0], int) or (len(args) > 2 and _fd(args[2])):
                return
            _step("chmod", args[0], args[1] & 0o7777)
        elif ev in ("os.remove", "os.rmdir"):
            if len(args) > 1 and _fd(args[1]):
                return
            _step("remove" if ev == "os.remove" else "rmdir", args[0])
        elif ev == "os.rename":
            if any(_fd(x) for x in args[2:4]):
                return
            _step("rename", args[0], 0, args[1])
        elif ev == "os.truncate":
            if not isinstance(args[0], int):
                _step("open", args[0], 1)
        elif ev in ("os.link", "os.symlink"):
            _step("open", args[1], 0)
        elif ev in ("tempfile.mkstemp", "tempfile.mkdtemp"):
            S.tmp_roots = S.tmp_roots + (_abs(args[0]),)
        elif ev == "subprocess.Popen":
            a = args[1]
            prog = args[0]
            tgt = None
            if isinstance(a, (list, tuple)) and a:
                prog = a[0]
                if isinstance(a[-1], (str, bytes, os.PathLike)):
                    tgt = a[-1]
            run["steps"].append({"k": "spawn", "p": _phys(tgt) if tgt is not None else "/", "q": None, "m": 0, "ex": True, "om": 0, "tmp": False,
                                 "prog": os.path.basename(os.fsdecode(os.fspath(prog))) if isinstance(prog, (str, bytes, os.PathLike)) else "?"})
    except Exception:  # an observer must never change the run
        pass
    finally:
        S.busy = False


_EVENTS = frozenset(["open", "shutil.copyfile", "os.mkdir", "os.chmod", "os.remove", "os.rmdir", "os.rename", "os.truncate", "os.link",
                     "os.symlink", "tempfile.mkstemp", "tempfile.mkdtemp", "subprocess.Popen"])


# ------------------------------------------------------------------------------------------------------------------------------
# arguments that matter
# ------------------------------------------------------------------------------------------------------------------------------
def _pathlike(x):
    return isinstance(x, (str, os.PathLike)) and not type(x).__module__.startswith("unittest")


def _from_namespace(run, a):
    """argparse namespace of the CLI"""
    g = lambda n, d=None: getattr(a, n, d)  # noqa: E731
    if g("list_outputs", False) is True:
        mode = "list_outputs"
    elif g("list_inputs", False) is True:
        mode = "list_inputs"
    elif g("list_configuration", False) is True:
        mode = "list_configuration"
    elif g("dry_run", False) is True:
        mode = "dryrun"
    else:
        mode = "generate"
    run["mode"] = mode
    od = g("outdir")
    if _pathlike(od):
        run["outdir"] = _abs(od)
        run["outdir_arg"] = os.fspath(od)
    run["ovw"] = not bool(g("no_overwrite", False))
    fm = g("file_mode")
    if isinstance(fm, int) and not isinstance(fm, bool):
        run["fm"] = fm & 0o7777  # --file-mode is what the caller asked for, whatever the order of the post-processor list
        run["fm_last"] = True
        run["_fm_args"] = True
    run["opts"] = {k: g(k) for k in ("generate_support", "omit_serialization_support", "target_language", "generate_namespace_types")
                   if isinstance(g(k), (str, bool, type(None)))}
    run["opts"]["program"] = bool(g("pp_run_program"))


def _from_generator(run, gen, dry, ovw):
    run["mode"] = "dryrun" if dry else "generate"
    run["ovw"] = bool(ovw)
    try:
        od = gen.namespace.get_support_output_folder()
        if _pathlike(od):
            run["outdir"] = _abs(od)
            run["outdir_arg"] = os.fspath(od)
    except Exception:
        pass
    _pps(run, gen)


def _pps(run, gen):
    try:
        pps = list(getattr(gen, "_post_processors", None) or [])
    except Exception:
        pps = []
    names = [type(pp).__name__ for pp in pps]
    run["pps"] = names
    run["custom_pp"] = any(not (type(pp).__module__ or "").startswith("nunavut.") for pp in pps)
    for i, pp in enumerate(pps):
        if type(pp).__name__ == "SetFileMode" and not run.get("_fm_args"):
            fm = getattr(pp, "_file_mode", None)
            if isinstance(fm, int) and not isinstance(fm, bool):
                run["fm"] = fm & 0o7777
                later = [n for n in names[i + 1:] if n not in ("TrimTrailingWhitespace", "LimitEmptyLines")]
                run["fm_last"] = not later


def _bind(fn, args, kw, names, defaults):
    """values of the named parameters of a call (positional or keyword), by the wrapped function's own signature"""
    try:
        import inspect

        ba = inspect.signature(fn).bind(*args, **kw)
        ba.apply_defaults()
        return [ba.arguments.get(n, d) for n, d in zip(names, defaults)]
    except Exception:
        return list(defaults)


# ------------------------------------------------------------------------------------------------------------------------------
# run bracket
# ------------------------------------------------------------------------------------------------------------------------------
class _Tee:
    def __init__(self, inner, sink):
        self._inner = inner
        self._sink = sink

    def write(self, s):
        try:
            if isinstance(s, str) and sum(map(len, self._sink)) < 4000000:
                self._sink.append(s)
        except Exception:
            pass
        return self._inner.write(s)

    def __getattr__(self, n):
        return getattr(self._inner, n)


def _new_run(tag):
    return {"run": 1, "test": os.environ.get(ENV_CASE) or os.environ.get("PYTEST_CURRENT_TEST"), "pid": os.getpid(), "ep": tag,
            "mode": "none", "outdir": None, "outdir_arg": None, "cwd": os.getcwd(), "ovw": True, "fm": None, "fm_last": False, "pps": [],
            "custom_pp": False, "argv": None, "opts": {}, "exc": None, "steps": [], "calls": [], "printed": None,
            "_trace": os.path.realpath(_trace_path()) if _trace_path() else None, "_copy": None}


def _paths(ret):
    try:
        out = []
        for x in ret:
            if not _pathlike(x):
                return None
            out.append(_phys(x))
        return out
    except Exception:
        return None


def _wrap(fn, tag):
    if getattr(fn, "_vf_suite_wrapped", False):
        return fn

    @functools.wraps(fn)
    def wrapper(*args, **kw):
        if not _trace_path() or S.busy:
            return fn(*args, **kw)
        if tag == "init":  # constructor of the CLI runner: remember the public `args` parameter, no bracket of its own
            try:
                a = _bind(fn, args, kw, ["args"], [None])[0]
                if a is not None and args:
                    S.runner_args[id(args[0])] = a
                    if S.run is not None and S.run["mode"] == "none":
                        _from_namespace(S.run, a)
            except Exception:
                pass
            return fn(*args, **kw)
        outer = S.depth == 0
        call = None
        tee = None
        try:
            if outer:
                S.run = _new_run(tag)
                S.tmp_roots = ()
            run = S.run
            if tag == "main":
                if outer:
                    run["argv"] = [str(x) for x in sys.argv[1:]]
            elif tag == "run":
                a = S.runner_args.get(id(args[0])) if args else None
                if a is None and args:
                    a = getattr(args[0], "_args", None)
                if a is not None and (outer or run["mode"] == "none"):
                    _from_namespace(run, a)
                if getattr(a, "list_outputs", False) is True and run.get("_tee") is None:
                    sink = []
                    tee = _Tee(sys.stdout, sink)
                    run["_tee"] = sink
                    sys.stdout = tee
            elif tag in ("dsdl", "support"):
                dry, ovw = _bind(fn, args, kw, ["is_dryrun", "allow_overwrite"], [False, True])
                if outer:
                    _from_generator(run, args[0], bool(dry), bool(ovw))
                elif args:
                    if not run["pps"]:
                        _pps(run, args[0])
                call = {"g": tag, "dry": bool(dry), "ok": False, "ret": None, "s0": len(run["steps"]), "s1": 0}
                run["calls"].append(call)
            elif tag == "types":
                if outer:
                    od, dry, ovw = _bind(fn, args, kw, ["out_dir", "is_dryrun", "allow_overwrite"], [None, False, True])
                    run["mode"] = "dryrun" if dry else "generate"
                    run["ovw"] = bool(ovw)
                    if _pathlike(od):
                        run["outdir"] = _abs(od)
                        run["outdir_arg"] = os.fspath(od)
        except Exception:
            pass
        S.depth += 1
        try:
            ret = fn(*args, **kw)
            if call is not None:
                call["ok"] = True
                call["ret"] = _paths(ret)
            return ret
        except BaseException as e:
            if outer and S.run is not None:
                code = getattr(e, "code", None)
                if not (isinstance(e, SystemExit) and code in (0, None)):
                    S.run["exc"] = type(e).__name__ + ("(%r)" % (code,) if isinstance(e, SystemExit) else "")
            raise
        finally:
            S.depth -= 1
            try:
                if call is not None:
                    call["s1"] = len(S.run["steps"])
                if tee is not None and sys.stdout is tee:
                    sys.stdout = tee._inner
                if outer:
                    run = S.run
                    S.run = None
                    sink = run.pop("_tee", None)
                    if sink is not None:
                        run["printed"] = [x for x in "".join(sink).split(";") if x.strip()]
                        # as the build system would use the list: each printed path resolved by the OS from the run's cwd, now, while the
                        # directory (and any symbolic link in the spelling) still exists; never normalised as text first
                        run["printed_phys"] = [os.path.realpath(os.path.join(run["cwd"], x.strip())) for x in run["printed"]]
                    run.pop("_trace", None)
                    run.pop("_copy", None)
                    run.pop("_fm_args", None)
                    _emit(run)
            except Exception:
                S.run = None

    wrapper._vf_suite_wrapped = True
    return wrapper


# ------------------------------------------------------------------------------------------------------------------------------
# patching after import
# ------------------------------------------------------------------------------------------------------------------------------
def _patch(module):
    name = getattr(module, "__name__", None)
    spec = TARGETS.get(name)
    if not spec or S.patched.get((name, id(module))):
        return
    done, missing = [], []
    for attr, tag in spec:
        try:
            obj = module
            parts = attr.split(".")
            for part in parts[:-1]:
                obj = getattr(obj, part)
            # the function itself, as defined on this class / module (no inherited attribute)
            holder = vars(obj) if isinstance(obj, type) else obj.__dict__
            fn = holder.get(parts[-1])
            if fn is None or not callable(fn):
                missing.append(attr)
                continue
            setattr(obj, parts[-1], _wrap(fn, tag))
            done.append(attr)
        except Exception:
            missing.append(attr)
    S.patched[(name, id(module))] = True
    _emit({"meta": "patched", "mod": name, "eps": done, "missing": missing, "pid": os.getpid()})


class _Loader:
    def __init__(self, inner):
        self._inner = inner

    def create_module(self, spec):
        return self._inner.create_module(spec)

    def exec_module(self, module):
        self._inner.exec_module(module)
        try:
            _patch(module)
        except Exception:
            pass

    def __getattr__(self, n):
        return getattr(self._inner, n)


class _Finder:
    _busy = False

    @classmethod
    def find_spec(cls, name, path=None, target=None):
        if name not in TARGETS or cls._busy:
            return None
        cls._busy = True
        try:
            for f in sys.meta_path:
                if f is cls:
                    continue
                fs = getattr(f, "find_spec", None)
                if fs is None:
                    continue
                spec = fs(name, path, target)
                if spec is not None:
                    break
            else:
                return None
        finally:
            cls._busy = False
        if spec.loader is not None and hasattr(spec.loader, "exec_module"):
            spec.loader = _Loader(spec.loader)
        return spec

    @classmethod
    def invalidate_caches(cls):
        pass


def install():
    if S.installed or not _trace_path():
        return
    S.installed = True
    sys.meta_path.insert(0, _Finder)
    for name in list(TARGETS):
        m = sys.modules.get(name)
        if m is not None:
            _patch(m)
    sys.addaudithook(_hook)


# pytest plugin interface: being imported with -p is enough
install()


def pytest_configure(config):  # noqa: D401 - pytest hook
    install()
