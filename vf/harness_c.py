"""C target: generate headers from /repo's working tree, generate + compile a generic driver, exchange commands/events."""
import json
import os
import struct
import subprocess

from . import dsdl
from .core import MachineryFailure
from .harness_py import generate

_counter = [0]


class GeneratedCodeDoesNotCompile(Exception):
    """the first error the compiler reports lies in a GENERATED file: an observation about the tree under test (owned by C06), not a harness defect"""


def _first_error_in(log, outdir):
    for ln in log.splitlines():
        if " error" in ln or "error:" in ln:
            return outdir in ln.split(" error")[0] or ln.lstrip().startswith(outdir)
    return False

PRELUDE = r"""
#include <stdio.h>
#include <stdlib.h>
#include <string.h>
#include <stdint.h>
#include <stdbool.h>
#include <assert.h>
#include <math.h>
#ifdef VF_SPY
/* a spy around every generated deserialization routine: which pointer (relative to the top-level buffer) and which size a routine is
   handed, which size and result it hands back - the call / return actions of specs/WireMachineDes.tla */
static struct { long at; unsigned long in; } spy_calls[1024];
static struct { int rc; unsigned long out; } spy_rets[1024];
static int spy_ncall, spy_nret;
static const uint8_t* spy_base;
#endif
%(includes)s

static char* cur;
static uint64_t tok(void) {
    while (*cur == ' ') cur++;
    char* e; uint64_t v = strtoull(cur, &e, 16); cur = e; return v;
}
static void hex(const void* p, size_t n) {
    const uint8_t* b = (const uint8_t*) p; putchar('"');
    for (size_t i = 0; i < n; i++) printf("%%02x", b[i]);
    putchar('"');
}
static const char* kind(int rc) {
    if (rc >= 0) return "none";
    switch (-rc) {
    case NUNAVUT_ERROR_INVALID_ARGUMENT: return "invalid_arg";
    case NUNAVUT_ERROR_SERIALIZATION_BUFFER_TOO_SMALL: return "too_small";
    case NUNAVUT_ERROR_REPRESENTATION_BAD_ARRAY_LENGTH: return "bad_len";
    case NUNAVUT_ERROR_REPRESENTATION_BAD_UNION_TAG: return "bad_tag";
    case NUNAVUT_ERROR_REPRESENTATION_BAD_DELIMITER_HEADER: return "bad_header";
    default: return "other";
    }
}
#define GUARD 16
"""

MAIN = r"""
int main(void) {
    char* line = NULL; size_t cap = 0; ssize_t n;
    setvbuf(stdout, NULL, _IOFBF, 1 << 16);
    while ((n = getline(&line, &cap, stdin)) > 0) {
        cur = line;
        char op = *cur++;
        unsigned long id = (unsigned long) tok();
        int ti = (int) tok();
        printf("{\"call\":%lu}\n", id); fflush(stdout);
        if (op == 'S') {
            size_t bufsize = (size_t) tok(); int prefill = (int) tok();
            uint8_t* raw = (uint8_t*) malloc(bufsize + GUARD);
            memset(raw, prefill, bufsize); memset(raw + bufsize, 0xCD, GUARD);
            size_t size = bufsize;
            int rc = do_ser(ti, raw, &size);
            int guard = 1; for (int i = 0; i < GUARD; i++) if (raw[bufsize + i] != 0xCD) guard = 0;
            printf("{\"id\":%lu,\"rc\":%d,\"err\":\"%s\",\"size\":%lu,\"guard\":%d,\"bytes\":", id, rc, kind(rc), (unsigned long) (rc >= 0 ? size : 0), guard);
            hex(raw, (rc >= 0 && size <= bufsize) ? size : 0); printf("}\n");
            free(raw);
        } else if (op == 'D') {
            size_t declared = (size_t) tok(); size_t alloc = (size_t) tok(); int isnull = (int) tok(); int prior = (int) tok();
            uint8_t* raw = isnull ? NULL : (uint8_t*) malloc(alloc ? alloc : 1);
            for (size_t i = 0; i < alloc; i++) raw[i] = (uint8_t) tok();
            size_t size = declared;
            printf("{\"id\":%lu,", id);
#ifdef VF_SPY
            spy_base = raw; spy_ncall = 0; spy_nret = 0;
#endif
            do_des(ti, raw, &size, prior);
#ifdef VF_SPY
            printf(",\"spy_calls\":[");
            for (int i = 0; i < spy_ncall && i < 1024; i++) printf("%s{\"at\":%ld,\"size\":%lu}", i ? "," : "", spy_calls[i].at, spy_calls[i].in);
            printf("],\"spy_rets\":[");
            for (int i = 0; i < spy_nret && i < 1024; i++) printf("%s{\"rc\":\"%s\",\"out\":%ld}", i ? "," : "", kind(spy_rets[i].rc), spy_rets[i].rc >= 0 ? (long) spy_rets[i].out : -1L);
            printf("],\"spy_overflow\":%d", (spy_ncall > 1024 || spy_nret > 1024) ? 1 : 0);
#endif
            printf("}\n");
            free(raw);
        } else if (op == 'M') {
            printf("{\"id\":%lu,", id); do_meta(ti); printf("}\n");
        } else if (op == 'R') {
            size_t declared = (size_t) tok(); size_t alloc = (size_t) tok(); int isnull = (int) tok(); (void) tok();
            uint8_t* raw = isnull ? NULL : (uint8_t*) malloc(alloc ? alloc : 1);
            for (size_t i = 0; i < alloc; i++) raw[i] = (uint8_t) tok();
            size_t size = declared;
            printf("{\"id\":%lu,", id); do_rt(ti, raw, &size); printf("}\n");
            free(raw);
        }
        fflush(stdout);
    }
    free(line);
    return 0;
}
"""


class CGen:
    """generates fill_/dump_ functions for every composite of a TypeSet"""

    def __init__(self, ts, spy=False):
        self.ts = ts
        self.tmp = 0
        self.spy = spy

    def includes(self):
        """the generated headers; with the spy, every header is followed by wrappers of the deserialization routines it defines and by macros
        that route every LATER call (from the headers of the types that nest it, and from the driver) through the wrapper"""
        out = []
        for t in self.ts.all:
            out.append('#include "%s/%s_1_0.h"' % (self.ts.ns, t["name"]))
            if not self.spy:
                continue
            for u in [t] + ([t["partner"]] if "partner" in t else []):
                cn = self.cname(u)
                out.append("static inline int8_t spy_%s(%s* out, const uint8_t* buf, size_t* sz) {" % (cn, cn))
                out.append("    if (spy_ncall < 1024) { spy_calls[spy_ncall].at = (long) ((intptr_t) buf - (intptr_t) spy_base); spy_calls[spy_ncall].in = (unsigned long) *sz; }")
                out.append("    spy_ncall++;")
                out.append("    const int8_t rc = %s_deserialize_(out, buf, sz);" % cn)
                out.append("    if (spy_nret < 1024) { spy_rets[spy_nret].rc = rc; spy_rets[spy_nret].out = (unsigned long) *sz; }")
                out.append("    spy_nret++;")
                out.append("    return rc;")
                out.append("}")
                out.append("#define %s_deserialize_(o, b, s) spy_%s((o), (b), (s))" % (cn, cn))
        return "\n".join(out)

    def cname(self, t):
        return "%s_%s%s_1_0" % (self.ts.ns, t["name"], "_" + t["svc"] if t.get("svc") else "")

    @staticmethod
    def fn(t):
        """suffix of the fill_/dump_ helper names (unique per serializable type)"""
        return t["name"] + (t["svc"] if t.get("svc") else "")

    def stype(self, t):
        k = t["k"]
        if k == "uint":
            return "uint%d_t" % dsdl.store_w(t["w"])
        if k == "int":
            return "int%d_t" % dsdl.store_w(t["w"])
        if k == "float":
            return "double" if t["w"] == 64 else "float"
        raise ValueError(k)

    def var(self):
        self.tmp += 1
        return "_i%d" % self.tmp

    # ---- fill
    def fill(self, t, lv, out, ind):
        k = t["k"]
        p = "    " * ind
        if k == "uint":
            out.append("%s%s = (%s) tok();" % (p, lv, self.stype(t)))
        elif k == "int":
            s = dsdl.store_w(t["w"])
            out.append("%s%s = (int%d_t)(uint%d_t) tok();" % (p, lv, s, s))
        elif k == "bool":
            out.append("%s%s = tok() != 0;" % (p, lv))
        elif k == "float":
            if t["w"] == 64:
                out.append("%s{ uint64_t u = tok(); memcpy(&%s, &u, 8); }" % (p, lv))
            else:
                out.append("%s{ uint32_t u = (uint32_t) tok(); memcpy(&%s, &u, 4); }" % (p, lv))
        elif k == "void":
            pass
        elif dsdl.is_comp(t):
            out.append("%sfill_%s(&%s);" % (p, self.fn(t), lv))
        else:
            raise ValueError(k)

    def fill_field(self, f, base, name, out, ind):
        """base: 'o->' ; name: field name"""
        p = "    " * ind
        k = f["k"]
        if k == "farr":
            e = f["e"]
            i = self.var()
            if e["k"] == "bool":
                out.append("%sfor (size_t %s = 0; %s < %d; %s++) nunavutSetBit(&%s%s_bitpacked_[0], sizeof(%s%s_bitpacked_), %s, tok() != 0);"
                           % (p, i, i, f["n"], i, base, name, base, name, i))
            else:
                out.append("%sfor (size_t %s = 0; %s < %d; %s++) {" % (p, i, i, f["n"], i))
                self.fill(e, "%s%s[%s]" % (base, name, i), out, ind + 1)
                out.append("%s}" % p)
        elif k == "varr":
            e = f["e"]
            i = self.var()
            out.append("%s%s%s.count = (size_t) tok();" % (p, base, name))
            out.append("%s{ size_t _n = (size_t) tok();" % p)
            if e["k"] == "bool":
                out.append("%s  for (size_t %s = 0; %s < _n; %s++) nunavutSetBit(&%s%s.bitpacked[0], sizeof(%s%s.bitpacked), %s, tok() != 0); }"
                           % (p, i, i, i, base, name, base, name, i))
            else:
                out.append("%s  for (size_t %s = 0; %s < _n; %s++) {" % (p, i, i, i))
                self.fill(e, "%s%s.elements[%s]" % (base, name, i), out, ind + 1)
                out.append("%s  } }" % p)
        else:
            self.fill(f, base + name, out, ind)

    def fill_fn(self, t):
        out = ["static void fill_%s(%s* o) {" % (self.fn(t), self.cname(t))]
        if t["k"] == "struct":
            for i, f in enumerate(t["fields"]):
                if f["k"] != "void":
                    self.fill_field(f, "o->", "f%d" % i, out, 1)
            if not any(f["k"] != "void" for f in t["fields"]):
                out.append("    (void) o;")
        else:
            out.append("    o->_tag_ = (uint8_t) tok();")
            out.append("    switch (o->_tag_) {")
            for i, f in enumerate(t["fields"]):
                out.append("    case %d: {" % i)
                self.fill_field(f, "o->", "f%d" % i, out, 2)
                out.append("        break; }")
            out.append("    default: break;")
            out.append("    }")
        out.append("}")
        return "\n".join(out)

    # ---- dump
    def dump(self, t, lv, out, ind):
        k = t["k"]
        p = "    " * ind
        if k in ("uint", "int", "float", "bool"):
            out.append("%shex(&%s, sizeof(%s));" % (p, lv, lv))
        elif k == "void":
            out.append('%sprintf("[]");' % p)
        elif dsdl.is_comp(t):
            out.append("%sdump_%s(&%s);" % (p, self.fn(t), lv))

    def dump_field(self, f, base, name, out, ind):
        p = "    " * ind
        k = f["k"]
        if k == "farr":
            e = f["e"]
            i = self.var()
            out.append('%sputchar(\'[\');' % p)
            out.append("%sfor (size_t %s = 0; %s < %d; %s++) { if (%s) putchar(',');" % (p, i, i, f["n"], i, i))
            if e["k"] == "bool":
                out.append('%s    printf("\\"%%02x\\"", (unsigned) nunavutGetBit(&%s%s_bitpacked_[0], sizeof(%s%s_bitpacked_), %s));' % (p, base, name, base, name, i))
            else:
                self.dump(e, "%s%s[%s]" % (base, name, i), out, ind + 1)
            out.append("%s}" % p)
            out.append('%sputchar(\']\');' % p)
        elif k == "varr":
            e = f["e"]
            i = self.var()
            out.append('%sprintf("{\\"n\\":%%lu,\\"e\\":[", (unsigned long) %s%s.count);' % (p, base, name))
            out.append("%sfor (size_t %s = 0; %s < %s%s.count && %s < %d; %s++) { if (%s) putchar(',');" % (p, i, i, base, name, i, f["cap"], i, i))
            if e["k"] == "bool":
                out.append('%s    printf("\\"%%02x\\"", (unsigned) nunavutGetBit(&%s%s.bitpacked[0], sizeof(%s%s.bitpacked), %s));' % (p, base, name, base, name, i))
            else:
                self.dump(e, "%s%s.elements[%s]" % (base, name, i), out, ind + 1)
            out.append("%s}" % p)
            out.append('%sprintf("]}");' % p)
        else:
            self.dump(f, base + name, out, ind)

    def dump_fn(self, t):
        out = ["static void dump_%s(const %s* o) {" % (self.fn(t), self.cname(t))]
        if t["k"] == "struct":
            out.append("    (void) o; putchar('[');")
            for i, f in enumerate(t["fields"]):
                if i:
                    out.append("    putchar(',');")
                if f["k"] == "void":
                    out.append('    printf("[]");')
                else:
                    self.dump_field(f, "o->", "f%d" % i, out, 1)
            out.append("    putchar(']');")
        else:
            out.append('    printf("{\\"tag\\":%u,\\"v\\":", (unsigned) o->_tag_);')
            out.append("    switch (o->_tag_) {")
            for i, f in enumerate(t["fields"]):
                out.append("    case %d: {" % i)
                self.dump_field(f, "o->", "f%d" % i, out, 2)
                out.append("        break; }")
            out.append('    default: printf("[]"); break;')
            out.append("    }")
            out.append("    putchar('}');")
        out.append("}")
        return "\n".join(out)

    def source(self):
        parts = [PRELUDE % {"includes": self.includes()}]
        for t in self.ts.all + [t["partner"] for t in self.ts.all if "partner" in t]:
            parts.append(self.fill_fn(t))
            parts.append(self.dump_fn(t))
        # persistent objects for history cases + dispatchers
        tops = self.ts.tops
        parts.append("static void* keep[%d];" % max(1, len(tops)))
        ser = ["static int do_ser(int ti, uint8_t* buf, size_t* size) {", "    switch (ti) {"]
        des = ["static void do_des(int ti, const uint8_t* buf, size_t* size, int prior) {", "    switch (ti) {"]
        meta = ["static void do_meta(int ti) {", "    switch (ti) {"]
        for i, t in enumerate(tops):
            cn = self.cname(t)
            ser.append("    case %d: { %s* o = (%s*) malloc(sizeof(%s)); memset(o, 0, sizeof(%s)); fill_%s(o); int rc = %s_serialize_(o, buf, size); free(o); return rc; }"
                       % (i, cn, cn, cn, cn, self.fn(t), cn))
            des.append("    case %d: { %s* o; if (prior == 2 && keep[%d]) o = (%s*) keep[%d]; else { o = (%s*) malloc(sizeof(%s)); memset(o, prior == 1 ? 0xA5 : 0, sizeof(%s)); }"
                       % (i, cn, i, cn, i, cn, cn, cn))
            des.append("        int rc = %s_deserialize_(o, buf, size);" % cn)
            des.append('        printf("\\"rc\\":%d,\\"err\\":\\"%s\\",\\"consumed\\":%lu,\\"val\\":", rc, kind(rc), (unsigned long) *size);')
            des.append('        if (rc >= 0) dump_%s(o); else printf("[]");' % self.fn(t))
            des.append("        if (keep[%d] && keep[%d] != o) free(keep[%d]); keep[%d] = o; break; }" % (i, i, i, i))
            meta.append('    case %d: printf("\\"extent\\":%%lu,\\"bufsize\\":%%lu,\\"sizeof\\":%%lu", (unsigned long) %s_EXTENT_BYTES_, (unsigned long) %s_SERIALIZATION_BUFFER_SIZE_BYTES_, (unsigned long) sizeof(%s)); break;'
                        % (i, cn, cn, cn))
        rt = ["static void do_rt(int ti, const uint8_t* buf, size_t* size) {", "    switch (ti) {"]
        for i, t in enumerate(tops):
            cn = self.cname(t)
            rt.append("    case %d: { %s* o = (%s*) malloc(sizeof(%s)); memset(o, 0, sizeof(%s)); int rc = %s_deserialize_(o, buf, size);" % (i, cn, cn, cn, cn, cn))
            rt.append('        printf("\\"err\\":\\"%s\\",\\"consumed\\":%lu,", kind(rc), (unsigned long) *size);')
            rt.append("        size_t n2 = %s_SERIALIZATION_BUFFER_SIZE_BYTES_; uint8_t* b2 = (uint8_t*) malloc(n2 ? n2 : 1); memset(b2, 0x5A, n2);" % cn)
            rt.append("        int rc2 = rc >= 0 ? %s_serialize_(o, b2, &n2) : -100;" % cn)
            rt.append('        printf("\\"err2\\":\\"%s\\",\\"bytes2\\":", kind(rc2)); hex(b2, rc2 >= 0 ? n2 : 0); free(b2); free(o); break; }')
        rt += ["    default: break;", "    }", "}"]
        ser += ["    default: return -100;", "    }", "}"]
        des += ["    default: break;", "    }", "}"]
        meta += ["    default: break;", "    }", "}"]
        parts += ["\n".join(ser), "\n".join(des), "\n".join(meta), "\n".join(rt), MAIN]
        return "\n\n".join(parts)


def tokens(t, v, out):
    """abstract value -> token list (hex u64 per leaf, count + provided-elements before array elements, tag before member)"""
    k = t["k"]
    if k in ("uint", "int"):
        out.append("%x" % (v & ((1 << dsdl.store_w(t["w"])) - 1)))
    elif k == "bool":
        out.append("1" if v else "0")
    elif k == "float":
        if t["w"] == 64:
            out.append("%x" % struct.unpack("<Q", struct.pack("<d", v))[0])
        else:
            out.append("%x" % struct.unpack("<I", struct.pack("<f", v))[0])
    elif k == "void":
        pass
    elif k == "farr":
        for x in v:
            tokens(t["e"], x, out)
    elif k == "varr":
        if isinstance(v, tuple):
            out.append("%x" % v[1])
            out.append("%x" % len(v[2]))
            for x in v[2]:
                tokens(t["e"], x, out)
        else:
            out.append("%x" % len(v))
            out.append("%x" % len(v))
            for x in v:
                tokens(t["e"], x, out)
    elif k == "struct":
        for f, x in zip(t["fields"], v):
            tokens(f, x, out)
    else:
        tag, x = v
        out.append("%x" % tag)
        if tag < len(t["fields"]):
            tokens(t["fields"][tag], x, out)
    return out


def unhex(tree):
    """value tree printed by the driver (hex strings at the leaves) -> byte lists"""
    if isinstance(tree, str):
        return list(bytes.fromhex(tree))
    if isinstance(tree, list):
        return [unhex(x) for x in tree]
    if isinstance(tree, dict):
        if "tag" in tree:
            return {"tag": tree["tag"], "v": unhex(tree["v"])}
        return {"n": tree["n"], "e": [unhex(x) for x in tree["e"]]}
    return tree


class CTarget:
    L = "c"
    kinds = True

    def __init__(self, scratch, types, options=None, sanitize=False, tag="c", cc=None, extra_flags=(), uid=None, spy=False, before_generate=None):
        import copy
        import pathlib

        _counter[0] += 1
        uid = uid if uid is not None else "%d_%d" % (os.getpid(), _counter[0])
        self.options = dict(options or {})
        self.ts = dsdl.TypeSet("vc%s" % uid)
        self.types = copy.deepcopy(list(types))
        for t in self.types:
            self.ts.add(t)
        self.root = pathlib.Path(scratch) / ("%s%s" % (tag, uid))
        nsdir = self.ts.write(self.root / "dsdl")
        self.out = self.root / "out"
        if before_generate is not None:
            before_generate(self, nsdir, self.out)  # histories: an earlier revision generated into the same output directory first
        generate("c", nsdir, self.out, language_options=self.options)
        src = self.root / "driver.c"
        src.write_text(CGen(self.ts, spy=spy).source())
        if spy:
            extra_flags = tuple(extra_flags) + ("-DVF_SPY",)
        self.exe = self.root / "driver"
        self.sanitize = sanitize
        cc = cc or ("clang" if sanitize else "gcc")
        cmd = [cc, "-std=c11", "-D_POSIX_C_SOURCE=200809L", "-O1", "-g" if sanitize else "-g0", "-I", str(self.out), str(src), "-o", str(self.exe), "-lm", "-w"]
        if sanitize:
            cmd[1:1] = ["-fsanitize=address,undefined", "-fno-sanitize-recover=all", "-fno-omit-frame-pointer"]
        if self.options.get("enable_serialization_asserts"):
            cmd[1:1] = ["-DNUNAVUT_ASSERT=assert"]
        cmd[1:1] = list(extra_flags)
        p = subprocess.run(cmd, stdout=subprocess.PIPE, stderr=subprocess.STDOUT, text=True)
        self.build_rc = p.returncode
        self.build_log = p.stdout
        if p.returncode != 0:
            raise (GeneratedCodeDoesNotCompile if _first_error_in(p.stdout, str(self.out)) else MachineryFailure)(
                "C driver does not compile (options %r):\n%s" % (self.options, p.stdout[-3000:]))

    # ---- command construction (ti = index of the type in the list given to the constructor)
    def cmd_ser(self, cid, ti, v, bufsize, prefill=0):
        return "S %x %x %x %x %s" % (cid, ti, bufsize, prefill, " ".join(tokens(self.types[ti], v, [])))

    def cmd_des(self, cid, ti, data, declared=None, null=False, prior=0, op="D"):
        declared = len(data) if declared is None else declared
        return "%s %x %x %x %x %d %d %s" % (op, cid, ti, declared, 0 if null else len(data), 1 if null else 0, prior,
                                            "" if null else " ".join("%x" % b for b in data))

    def cmd_meta(self, cid, ti):
        return "M %x %x" % (cid, ti)

    def run(self, commands, timeout=600, _attribute=True):
        """returns {id: result dict or {'crash': text}}; a sanitizer abort / assert / crash leaves a call without a return"""
        results = {}
        pending = list(commands)
        env = dict(os.environ, ASAN_OPTIONS="detect_leaks=1:abort_on_error=0:exitcode=99", UBSAN_OPTIONS="print_stacktrace=1:halt_on_error=1")
        while pending:
            p = subprocess.run([str(self.exe)], input="\n".join(pending) + "\n", stdout=subprocess.PIPE, stderr=subprocess.PIPE, text=True, env=env, timeout=timeout)
            called = None
            done = set()
            for ln in p.stdout.splitlines():
                try:
                    r = json.loads(ln)
                except ValueError:
                    continue
                if "call" in r:
                    called = r["call"]
                elif "id" in r:
                    results[r["id"]] = r
                    done.add(r["id"])
                    called = None
            if p.returncode == 0 and called is None:
                break
            # crash / abort: the command `called` did not return (or the leak checker complained at exit)
            if called is None:
                # abnormal exit after all commands returned (LeakSanitizer reports at exit): find the first command that reproduces it in a
                # process of its own (with the commands before it that share its object: same type index) and charge it with the report
                results.setdefault("exit", {"crash": p.stderr[-2000:], "rc": p.returncode})
                if _attribute and len(pending) > 1:
                    for k, c in enumerate(pending[:400]):
                        ti = c.split()[2]
                        alone = [x for x in pending[:k] if x.split()[2] == ti][-2:] + [c]
                        q = subprocess.run([str(self.exe)], input="\n".join(alone) + "\n", stdout=subprocess.PIPE, stderr=subprocess.PIPE, text=True, env=env, timeout=timeout)
                        if q.returncode != 0:
                            cid = int(c.split()[1], 16)
                            results[cid] = {"id": cid, "crash": q.stderr[-1500:] or p.stderr[-1500:], "rc": q.returncode, "at_exit": True}
                            break
                break
            results[called] = {"id": called, "crash": p.stderr[-1500:], "rc": p.returncode}
            ids = [int(c.split()[1], 16) for c in pending]
            pending = pending[ids.index(called) + 1:]
        return results
