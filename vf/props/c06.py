"""C06 - every valid DSDL input yields generated code that builds cleanly on its own.

Model:      specs/Includes.tla.  Part 1 (P-layer): ClosureOK (a produced file refers only to produced files), GenOK, BuildRcOK,
            BuildDiagOK, Folded (the property's exclusion).  Part 2 (bounded design): worlds of <= N types over <= 2 roots with
            nested namespaces, messages and services, dependencies as plain field / array element / request / response /
            both; Generate(root, omit) in any order with any omit setting per run; invariants Closure (P) and SelfSufficient
            (design lemma behind "compiles alone").  The design parameters the closure depends on (does a type file refer to
            the support file when support is omitted / is the support file written when omitted) are OBSERVED from the real
            generator per target and the model is checked with the observed values (a refuted Closure is a predicted design
            finding: only a recorded execution of the real code is a verdict); negative controls refute the model with a
            broken support policy, with a scanner that forgets response attributes, with one that forgets array elements.
            specs/IncludesNames.tla enumerates the NAME universe {position} x {class of name} x {word} x {kind of host type}.
spec->code: every world (Includes_emit.cfg) / every selected name case becomes a scratch DSDL tree; the real generator
            (nunavut.generate_types from vf.core.REPO) runs for c, cpp (c++14, c++17, c++17-pmr, c++20) and py with serialization
            support enabled AND omitted; #include / import lines of every produced file are parsed; every header is compiled
            ALONE in a one-line translation unit (C11 gcc+clang, inside a C++ TU, C++14/17/20 g++ and clang++, plus a TU that
            expands the header's own object-like macros: C constants are macros) with the flag set read from
            verification/cmake/compiler_flag_sets/common.cmake; every Python module is imported alone with warnings as errors.
            The model's prediction (files present after every Generate step, references of every file) is compared with the
            observation (difference with P satisfied = drift).
code->spec: the same recording for seeded random LARGER namespace sets (<= 10 types, 3 roots, depth 3, random primitive
            widths, arrays, constants, keywords / builtins in several positions at once) and for every DSDL tree shipped in the
            repository that loads offline.  All recorded events (begin/gen/refs/compile) are judged by specs/IncludesTrace.tla.

Level: the include-closure clause is decided by the model + traces; "compiles without diagnostics" is a fact only a compiler
establishes: the spec states it as an event postcondition and TLC enumerates the inputs (bounded-exhaustive testing).

Signatures: C06|<clause>|<target>|<ser|omit|any>|<class>, class = the warning option the tool names, else the message without
names and numbers, else a root-cause label (a DSDL name that is a standard-library macro where it is emitted).
"""
import ast
import builtins
import concurrent.futures
import json
import keyword
import multiprocessing
import os
import pathlib
import re
import shutil
import subprocess
import sys
import traceback

from ..core import MachineryFailure, NCPU, REPO, VERIF, sha
from .. import tlc

LEVEL = "exploration"

# ---------------------------------------------------------------------------------------------------------------------
# target configurations
# ---------------------------------------------------------------------------------------------------------------------
CFGS = {
    "c": ("c", {}),
    "cpp14": ("cpp", {"std": "c++14"}),
    "cpp17": ("cpp", {"std": "c++17"}),
    "cpp17pmr": ("cpp", {"std": "c++17-pmr"}),
    "cpp20": ("cpp", {"std": "c++20"}),
    "py": ("py", {}),
    # option sets that switch code paths of the codecs (fast paths, assertions, capacity macros): used for the structure / boundary sets only
    "c_opt": ("c", {"target_endianness": "little", "enable_serialization_asserts": True, "enable_override_variable_array_capacity": True}),
    "c_big": ("c", {"target_endianness": "big"}),
    "cpp_opt": ("cpp", {"std": "c++17", "target_endianness": "little", "enable_serialization_asserts": True}),
}
CXX_STD = {"cpp14": "c++14", "cpp17": "c++17", "cpp17pmr": "c++17", "cpp20": "c++20", "cpp_opt": "c++17"}
OPTION_CFGS = ["c_opt", "c_big", "cpp_opt"]

# fallback copy of verification/cmake/compiler_flag_sets/common.cmake (used only when the file cannot be parsed)
C_FLAGS_FALLBACK = ["-pedantic", "-Wall", "-Wextra", "-Werror", "-Wfloat-equal", "-Wconversion", "-Wunused-parameter", "-Wunused-variable",
                    "-Wunused-value", "-Wcast-align", "-Wmissing-declarations", "-Wmissing-field-initializers", "-Wdouble-promotion",
                    "-Wswitch-enum", "-Wtype-limits"]
CXX_ONLY_FALLBACK = ["-Wsign-conversion", "-Wsign-promo", "-Wold-style-cast", "-Wzero-as-null-pointer-constant", "-Wnon-virtual-dtor",
                     "-Woverloaded-virtual"]

C_STD_HEADERS = set("assert.h complex.h ctype.h errno.h fenv.h float.h inttypes.h iso646.h limits.h locale.h math.h setjmp.h signal.h "
                    "stdalign.h stdarg.h stdatomic.h stdbool.h stddef.h stdint.h stdio.h stdlib.h stdnoreturn.h string.h tgmath.h threads.h "
                    "time.h uchar.h wchar.h wctype.h".split())
CXX_STD_HEADERS = set("algorithm any array atomic bit bitset cassert cctype cerrno cfenv cfloat charconv chrono cinttypes climits clocale cmath "
                      "compare complex concepts condition_variable csetjmp csignal cstdarg cstddef cstdint cstdio cstdlib cstring ctime cuchar "
                      "cwchar cwctype deque exception execution filesystem forward_list fstream functional future initializer_list iomanip ios "
                      "iosfwd iostream istream iterator limits list locale map memory memory_resource mutex new numbers numeric optional ostream "
                      "queue random ranges ratio regex scoped_allocator set shared_mutex span sstream stack stdexcept streambuf string "
                      "string_view system_error thread tuple type_traits typeindex typeinfo unordered_map unordered_set utility valarray "
                      "variant vector version".split())
PY_THIRD_PARTY = {"numpy", "pydsdl"}  # documented run-time dependencies of the generated Python code
# A ROOT namespace named like a module of the Python standard library (operator, this, ...) yields a package that shadows the library
# module once the output directory is on sys.path.  Such names are neither keywords nor reserved patterns of the target language (the
# classes the property lists), no stropping could help short of renaming every root package, and whether the import works depends on
# the consumer's sys.path order: they are left out of the explored universe for the Python target (stated in not_exercised).
PY_STDLIB = set(getattr(sys, "stdlib_module_names", ())) | {"this", "operator"}


def read_flag_sets(ctx=None):
    """the project's own strict flag set (C list, C++-only list) from the repository's cmake file"""
    p = REPO / "verification" / "cmake" / "compiler_flag_sets" / "common.cmake"
    try:
        txt = p.read_text()
        blocks = re.findall(r"list\(APPEND\s+(C_FLAG_SET|CXX_FLAG_SET)\s+((?:\s*\"[^\"]+\"\s*)+)\)", txt)
        c = [f for name, body in blocks if name == "C_FLAG_SET" for f in re.findall(r"\"([^\"]+)\"", body) if re.match(r"-(W|pedantic)", f)]
        cxx = [f for name, body in blocks if name == "CXX_FLAG_SET" for f in re.findall(r"\"([^\"]+)\"", body) if re.match(r"-W", f)]
        if "-Werror" not in c or len(c) < 5 or not cxx:
            raise ValueError("unexpected shape")
        return c, cxx, "parsed from %s" % p.relative_to(REPO)
    except Exception as ex:  # noqa
        return list(C_FLAGS_FALLBACK), list(CXX_ONLY_FALLBACK), "built-in copy (the repository's flag file could not be parsed: %s)" % ex


def tool_matrix(full):
    """{cfg: [(tool id, argv prefix)]}; the one-line TU and -I are appended by the worker.
    C-in-C++: the project's C++ set + its own documented relaxation (-Wno-old-style-cast, verification/CMakeLists.txt runTestCpp)."""
    c, cxx, _ = read_flag_sets()
    cflags = c
    cxxflags = c + cxx
    cincxx = cxxflags + ["-Wno-old-style-cast"]
    m = {}
    m["c"] = [
        ("gcc-c11", ["gcc", "-x", "c", "-std=c11"] + cflags + ["-Wno-stringop-overflow"]),
        ("clang-c11", ["clang", "-x", "c", "-std=c11"] + cflags),
        ("gcc-c11-use", ["gcc", "-x", "c", "-std=c11"] + cflags + ["-Wno-stringop-overflow"]),
        ("g++-c++14-externC", ["g++", "-x", "c++", "-std=c++14"] + cincxx),
        ("clang++-c++17-externC", ["clang++", "-x", "c++", "-std=c++17"] + cincxx + ["-Wno-zero-as-null-pointer-constant"]),
    ]
    if full:
        m["c"] += [
            ("g++-c++20-externC", ["g++", "-x", "c++", "-std=c++20"] + cincxx),
            ("clang-c11-use", ["clang", "-x", "c", "-std=c11"] + cflags),
            ("g++-c++14-externC-use", ["g++", "-x", "c++", "-std=c++14"] + cincxx),
            ("clang++-c++14-externC", ["clang++", "-x", "c++", "-std=c++14"] + cincxx + ["-Wno-zero-as-null-pointer-constant"]),
        ]
    for cfg, std in CXX_STD.items():
        m[cfg] = [("g++-" + std, ["g++", "-x", "c++", "-std=" + std] + cxxflags), ("clang++-" + std, ["clang++", "-x", "c++", "-std=" + std] + cxxflags)]
    if not full:
        # quick: g++ for every standard, clang++ in addition for the oldest standard and for the pmr flavour
        m["cpp17"] = m["cpp17"][:1]
        m["cpp20"] = m["cpp20"][:1]
        m["cpp_opt"] = m["cpp_opt"][:1]
    # with enable_serialization_asserts the user has to supply NUNAVUT_ASSERT (the support header says so with an #error): the documented way
    m["c_big"] = [t for t in m["c"] if t[0] in ("gcc-c11",)]
    m["c_opt"] = [(tid, argv + ["-DNUNAVUT_ASSERT=assert", "-include", "cassert" if "++" in argv[0] else "assert.h"])
                  for tid, argv in m["c"] if tid in ("gcc-c11", "clang-c11", "g++-c++14-externC")]
    m["cpp_opt"] = [(tid, argv + ["-DNUNAVUT_ASSERT=assert", "-include", "cassert"]) for tid, argv in m["cpp_opt"]]
    m["py"] = [("python-import", None)]
    return m


# ---------------------------------------------------------------------------------------------------------------------
# words of the name universe (fixed lists: the check must not follow the generator's own reserved-word configuration)
# ---------------------------------------------------------------------------------------------------------------------
WORDS = {
    "plain": ["alpha", "Beta", "gamma_delta", "x1"],
    "c_kw": ["if", "switch", "register", "default", "restrict", "_Bool", "typedef", "inline", "sizeof", "return", "_Atomic", "char", "long", "asm"],
    "cpp_kw": ["class", "namespace", "operator", "new", "this", "private", "typename", "delete", "nullptr", "constexpr", "static_assert",
               "friend", "virtual", "final", "co_await", "xor", "export", "thread_local"],
    "py_kw": ["def", "lambda", "None", "import", "global", "yield", "pass", "is", "in", "del", "from", "async", "match", "nonlocal", "with",
              "raise", "assert", "except"],
    "py_builtin": ["print", "list", "id", "str", "object", "len", "property", "Exception", "range", "bytes", "dict", "isinstance", "max",
                   "staticmethod", "NotImplemented", "repr", "set", "ValueError"],
    "pattern": ["_Upper", "__x", "EAGAIN", "int8_t", "isalpha", "strlen", "x__", "INT8_MAX", "memcpy", "atomic_x", "SIGINT", "NULL", "errno",
                "size_t", "FE_X", "PRIx", "tolower", "LC_ALL", "cnd_x", "_x", "std", "nunavut", "main", "value", "cls", "mtx_x", "TIME_X", "wcslen"],
    "case": [("alpha", "Alpha"), ("ab", "aB"), ("x", "X"), ("If", "if")],
}

# complete keyword lists of the target languages (fixed: ISO C11 6.4.1, ISO C++20 [lex.key] with the alternative tokens; Python's come from
# the interpreter).  Used by the "bulk" sets: ONE type whose fields / constants / siblings carry every keyword at once, so that a single
# word missing from the generator's reserved-word configuration is noticed in the quick tier too.
C11_KEYWORDS = ("auto break case char const continue default do double else enum extern float for goto if inline int long register restrict "
                "return short signed sizeof static struct switch typedef union unsigned void volatile while _Alignas _Alignof _Atomic _Bool "
                "_Complex _Generic _Imaginary _Noreturn _Static_assert _Thread_local").split()
CXX20_KEYWORDS = ("alignas alignof and and_eq asm auto bitand bitor bool break case catch char char8_t char16_t char32_t class compl concept "
                  "const consteval constexpr constinit const_cast continue co_await co_return co_yield decltype default delete do double "
                  "dynamic_cast else enum explicit export extern false float for friend goto if inline int long mutable namespace new noexcept "
                  "not not_eq nullptr operator or or_eq private protected public register reinterpret_cast requires return short signed sizeof "
                  "static static_assert static_cast struct switch template this thread_local throw true try typedef typeid typename union "
                  "unsigned using virtual void volatile wchar_t while xor xor_eq").split()


def wide_set(n=160):
    """a structure with many fields (the property names maximally wide types): PyDSDL's bit length set of a structure is a chain of
    operators one level deep per field, which the Python target pickles into every module"""
    return {"id": "x-wide-%d" % n, "roots": ["wroot"], "files": {"wroot/Wide.1.0.dsdl": "".join("uint8 f%d\n" % i for i in range(n)) + "@sealed\n"},
            "meta": {"src": "names", "pos": "field", "cls": "wide", "kind": "struct", "word": "*", "key": "wide|struct|%d fields" % n}}


def shapes_set():
    """structurally extreme types the property names (empty, zero-bit with members, maximally wide, every primitive family incl. byte / utf8)
    in ONE namespace set with plain names: what a template's special cases (empty body, zero-cost arrays, text / byte arrays) must survive"""
    f = {
        "sroot/Empty.1.0.dsdl": "@sealed\n",
        "sroot/EmptyD.1.0.dsdl": "@extent 8 * 8\n",
        "sroot/PadOnly.1.0.dsdl": "void8\n@sealed\n",
        # members, but not a single bit on the wire
        "sroot/TwoEmpties.1.0.dsdl": "sroot.Empty.1.0 a\nsroot.Empty.1.0 b\n@sealed\n",
        "sroot/EmptyArr.1.0.dsdl": "sroot.Empty.1.0[3] arr\n@sealed\n",
        "sroot/EmptyNest.1.0.dsdl": "sroot.TwoEmpties.1.0 t\nsroot.EmptyArr.1.0[2] u\n@sealed\n",
        "sroot/EmptySvc.1.0.dsdl": "sroot.Empty.1.0 a\nsroot.Empty.1.0 b\n@sealed\n---\nsroot.Empty.1.0[2] r\n@sealed\n",
        "sroot/EmptyNextToReal.1.0.dsdl": "sroot.Empty.1.0 e\nuint8 x\nsroot.EmptyD.1.0 d\n@sealed\n",
        "sroot/VarEmpties.1.0.dsdl": "sroot.Empty.1.0[<=3] v\n@sealed\n",
        "sroot/UnionOfEmpties.1.0.dsdl": "@union\nsroot.Empty.1.0 a\nsroot.Empty.1.0 b\n@sealed\n",
        # byte / text arrays (their own PyDSDL classes), fixed and variable, in every kind of composite
        "sroot/Bytes.1.0.dsdl": "byte[4] fb\nbyte[<=5] vb\nutf8[<=6] text\nuint8[<=3] plain\n@sealed\n",
        "sroot/BytesU.1.0.dsdl": "@union\nbyte[<=5] vb\nutf8[<=6] text\nuint8 n\n@extent 64 * 8\n",
        "sroot/BytesSvc.1.0.dsdl": "utf8[<=16] name\n@sealed\n---\nbyte[<=16] blob\nbyte[2] tag\n@extent 64 * 8\n",
        # every primitive family at awkward widths, scalar and in both kinds of arrays
        "sroot/Prims.1.0.dsdl": "".join("%s s%d\n%s[2] f%d\n%s[<=2] v%d\n" % (t, i, t, i, t, i) for i, t in enumerate(
            ["bool", "uint1", "uint7", "uint8", "uint24", "uint33", "uint64", "int2", "int8", "int24", "int40", "int64", "float16", "float32", "float64",
             "truncated uint12", "truncated float16"])) + "@sealed\n",
        # fixed port-IDs (vendor ranges: subjects 6144..7167, services 256..383) on types WITHOUT an integer member: the exported port-ID constant has a type of its own
        "sroot/6200.PortBool.1.0.dsdl": "bool flag\n@sealed\n",
        "sroot/6201.PortEmpty.1.0.dsdl": "@sealed\n",
        "sroot/6202.PortFloat.1.0.dsdl": "float32 f\n@extent 64 * 8\n",
        "sroot/300.PortSvc.1.0.dsdl": "bool q\n@sealed\n---\nfloat16 r\n@sealed\n",
        "sroot/User.1.0.dsdl": "sroot.TwoEmpties.1.0 a\nsroot.Bytes.1.0 b\nsroot.Prims.1.0[<=2] p\nsroot.BytesU.1.0 u\nsroot.EmptyD.1.0[2] d\n@extent 8000 * 8\n",
    }
    return {"id": "x-shapes", "roots": ["sroot"], "files": f, "meta": {"src": "names", "pos": "type", "cls": "shapes", "kind": "struct", "word": "*", "key": "shapes|extreme structures"}}


def docs_set():
    """documentation text is DSDL input too: comment lines of headers, fields, constants and service halves whose END or CONTENT could change the lexical
    structure of a generated file: a trailing backslash (line splice of a `//` comment swallows the next line), the trigraph for a backslash, comment
    delimiters of C / C++ / Python, string delimiters, escapes, template syntax, very long and indented lines"""
    pay = ["ends in a backslash \\", "ends in the trigraph ??/", "closes */ early", "opens /* again", "has // inside", 'triple """ double', "triple ''' single",
           "escapes \\u0041 \\N{DASH} \\x4 \\", "template {{ T }} {% if x %} {# c #}", "percent %s %d %%", "<tag> & \"quote\"", "hash # inside",
           "   indented three blanks", "word " * 60, "#include <nothing.h>", "#define X 1", "*/ int injected; /*"]
    doc = "".join("# %s\n" % p for p in pay)
    fld = "".join("uint8 f%d  # %s\n" % (i, p) for i, p in enumerate(pay))
    cst = "".join("uint8 K%d = %d  # %s\n" % (i, i, p) for i, p in enumerate(pay))
    above = "".join("# %s\nuint8 g%d\n" % (p, i) for i, p in enumerate(pay))
    f = {
        "droot/Hdr.1.0.dsdl": doc + "uint8 x\n@sealed\n",
        "droot/Fld.1.0.dsdl": fld + "@sealed\n",
        "droot/Cst.1.0.dsdl": cst + "uint8 x\n@sealed\n",
        "droot/Above.1.0.dsdl": above + "@sealed\n",
        "droot/Uni.1.0.dsdl": doc + "@union\n" + fld + "@sealed\n",
        "droot/Svc.1.0.dsdl": doc + fld + "@sealed\n---\n" + doc + cst + "uint8 r\n@sealed\n",
        "droot/Dlm.1.0.dsdl": doc + fld + cst + "@extent 1024 * 8\n",
        "droot/User.1.0.dsdl": "droot.Hdr.1.0 a  # ends in a backslash \\\ndroot.Uni.1.0[<=2] b  # ends in the trigraph ??/\n@sealed\n",
    }
    return {"id": "x-docs", "roots": ["droot"], "files": f, "meta": {"src": "names", "pos": "type", "cls": "docs", "kind": "struct", "word": "*", "key": "docs|documentation payloads"}}


def shadow_set():
    """a nested namespace that is spelled like a ROOT namespace (its own root or another one in play): an unqualified-from-the-root reference to
    `root.x.T` written inside namespace `root.sub.root` or `other.root` is looked up in the inner namespace first by a language with nested scopes"""
    f = {
        "hroot/c/U.1.0.dsdl": "uint8 x\n@sealed\n",
        "hroot/b/hroot/T.1.0.dsdl": "hroot.c.U.1.0 u\nuint8 y\n@sealed\n",           # a.b.a.T uses a.c.U
        "hroot/b/hroot/S.1.0.dsdl": "hroot.c.U.1.0 q\n@sealed\n---\nhroot.c.U.1.0[<=2] r\n@sealed\n",
        "hother/U.1.0.dsdl": "uint8 z\n@sealed\n",
        "hroot/hother/Pad.1.0.dsdl": "uint8 p\n@sealed\n",                              # nested namespace named like the other root
        "hroot/x/T.1.0.dsdl": "hother.U.1.0 o\n@sealed\n",                              # ... while a sibling refers into that other root
        "hroot/x/W.1.0.dsdl": "@union\nhother.U.1.0 o\nhroot.c.U.1.0 c\n@sealed\n",
    }
    return {"id": "x-shadow", "roots": ["hroot", "hother"], "files": f,
            "meta": {"src": "names", "pos": "namespace", "cls": "shadow", "kind": "struct", "word": "*", "key": "shadow|nested namespace spelled like a root namespace"}}


_RE_LOOKUP = re.compile(r"does not name a type|no type named|has not been declared|no member named|is not a member of|was not declared in this scope")


def shadowing_namespaces(sset):
    """nested namespace directories of the set that are spelled like one of its root namespaces"""
    roots = set(sset["roots"])
    return sorted({"/".join(p.split("/")[:i + 1]) for p in sset["files"] for i, comp in enumerate(p.split("/")[:-1]) if i > 0 and comp in roots})


def boundary_set():
    """array capacities at the edges of the length-prefix widths and primitives of every storage class, at byte-aligned and unaligned offsets:
    where option-dependent fast paths (whole-storage stores, bulk copies, capacity macros) change shape"""
    f = {}
    elems = ["bool", "uint8", "uint16", "uint24", "int40", "float32", "broot_b.E.1.0"]
    f["broot_b/E.1.0.dsdl"] = "uint8 x\n@sealed\n"
    n = 0
    for cap in (255, 256, 65535, 65536):
        for e in elems:
            if cap > 256 and e not in ("bool", "uint8", "uint16"):
                continue
            for pre in ("", "uint3 pre\n"):
                n += 1
                f["broot_b/V%d.1.0.dsdl" % n] = "%s%s[<=%d] v\n%s[%d] f\nuint8 tail\n@sealed\n" % (pre, e, cap, e, min(cap, 300))
    f["broot_b/Ints.1.0.dsdl"] = "".join("%s a%d\nuint3 p%d\n%s u%d\nvoid5\n" % (t, i, i, t, i) for i, t in enumerate(
        ["uint8", "uint16", "uint24", "uint32", "uint40", "uint64", "int8", "int16", "int24", "int32", "int40", "int64", "float16", "float32", "float64",
         "truncated uint16", "truncated uint24", "truncated float32"])) + "@sealed\n"
    return {"id": "x-boundaries", "roots": ["broot_b"], "files": f, "meta": {"src": "names", "pos": "type", "cls": "boundaries", "kind": "struct", "word": "*",
                                                                          "key": "boundaries|capacities and widths"}}


def bulk_sets(ctx):
    """[(set, configurations)]: all keywords of C11 + C++20 (for c / cpp) resp. of Python (for py) as field names, as constant names and as
    type names of one namespace; words the DSDL front end itself refuses are left out (each word is asked separately)."""
    import pydsdl

    def accepted(kind, w):
        d = ctx.scratch / "bulkprobe" / ("%s-%s" % (kind, sha(w)[:8]))
        (d / "broot").mkdir(parents=True)
        try:
            if kind == "field":
                (d / "broot" / "B.1.0.dsdl").write_text("uint8 %s\n@sealed\n" % w)
            elif kind == "const":
                (d / "broot" / "B.1.0.dsdl").write_text("uint8 %s = 1\n@sealed\n" % w)
            else:
                (d / "broot" / ("%s.1.0.dsdl" % w)).write_text("uint8 a\n@sealed\n")
            pydsdl.read_namespace(str(d / "broot"), [])
            return True
        except pydsdl.FrontendError:
            return False
        finally:
            shutil.rmtree(d, ignore_errors=True)

    ckw = sorted(set(C11_KEYWORDS) | set(CXX20_KEYWORDS))
    pykw = sorted(set(keyword.kwlist) | set(getattr(keyword, "softkwlist", [])) | set(dir(builtins)))
    out = []
    for cls, words, cfgs in (("c+cpp keywords", ckw, ["c", "cpp14", "cpp17pmr", "cpp20"]), ("py keywords+builtins", pykw, ["py"])):
        for pos in ("field", "const", "type"):
            ws = [w for w in words if accepted(pos, w)]
            if pos == "type":  # type names: case-insensitively distinct (one file per type on case-insensitive file systems: front-end rule)
                seen, uniq = set(), []
                for w in ws:
                    if w.lower() not in seen:
                        seen.add(w.lower())
                        uniq.append(w)
                ws = uniq
            # names that the documented one-way stropping may fold onto one identifier (the property's exclusion covers the WHOLE scope they
            # share) must not meet in one scope: spellings that agree up to case and leading underscores (_Bool / bool) go to different sets
            layers = []
            for w in ws:
                k = w.lstrip("_").lower()
                for lay in layers:
                    if k not in lay[0]:
                        lay[0].add(k)
                        lay[1].append(w)
                        break
                else:
                    layers.append(({k}, [w]))
            for ln, (_, lws) in enumerate(layers):
                root = "broot%d" % ln
                files = {}
                chunks = [lws[i:i + 48] for i in range(0, len(lws), 48)]  # see wide_set(): very wide types meet an interpreter limit of their own
                if pos == "field":
                    for n, ch in enumerate(chunks):
                        files["%s/Bulk%d.1.0.dsdl" % (root, n)] = "".join("uint8 %s\n" % w for w in ch) + "@sealed\n"
                        if len(ch) > 1:
                            files["%s/BulkU%d.1.0.dsdl" % (root, n)] = "@union\n" + "".join("uint8 %s\n" % w for w in ch) + "@sealed\n"
                elif pos == "const":
                    for n, ch in enumerate(chunks):
                        files["%s/Bulk%d.1.0.dsdl" % (root, n)] = "".join("uint8 %s = %d\n" % (w, i % 200) for i, w in enumerate(ch)) + "@sealed\n"
                elif cfgs != ["py"]:
                    # one header per word, each compiled alone by every tool: several small sets (the sets are the unit of parallel work)
                    for n in range(0, len(lws), 12):
                        ch = lws[n:n + 12]
                        r2 = "%sp%d" % (root, n // 12)
                        f2 = {"%s/%s.1.0.dsdl" % (r2, w): "uint8 a\n@sealed\n" for w in ch}
                        f2["%s/User.1.0.dsdl" % r2] = "".join("%s.%s.1.0 f%d\n" % (r2, w, i) for i, w in enumerate(ch)) + "@sealed\n"
                        key = "bulk|%s|%s|layer %d|part %d|%d words" % (pos, cls, ln, n // 12, len(ch))
                        out.append(({"id": "b-" + sha(key)[:10], "roots": [r2], "files": f2,
                                     "meta": {"src": "names", "pos": pos, "cls": "bulk:" + cls, "kind": "struct", "word": "*", "key": key, "words": ch}},
                                    [c for c in cfgs if c in ("c", "cpp14", "cpp20")]))
                    continue
                else:
                    for w in lws:
                        files["%s/%s.1.0.dsdl" % (root, w)] = "uint8 a\n@sealed\n"
                    for n, ch in enumerate(chunks):
                        files["%s/User%d.1.0.dsdl" % (root, n)] = "".join("%s.%s.1.0 f%d\n" % (root, w, i) for i, w in enumerate(ch)) + "@sealed\n"
                key = "bulk|%s|%s|layer %d|%d words" % (pos, cls, ln, len(lws))
                # one header per word for type names: the oldest and the newest C++ standard are enough there
                mycfgs = [c for c in cfgs if c in ("c", "cpp14", "cpp20", "py")] if pos == "type" else cfgs
                out.append(({"id": "b-" + sha(key)[:10], "roots": [root], "files": files,
                             "meta": {"src": "names", "pos": pos, "cls": "bulk:" + cls, "kind": "struct", "word": "*", "key": key, "words": lws}}, mycfgs))
    return out


EXTREME_CONSTANTS = """\
int2 I2MIN = -2
int2 I2MAX = 1
int8 I8MIN = -128
int8 I8MAX = 127
int16 I16MIN = -32768
int16 I16MAX = 32767
int17 I17MIN = -65536
int32 I32MIN = -2147483648
int32 I32MAX = 2147483647
int33 I33MIN = -4294967296
int33 I33MAX = 4294967295
int63 I63MIN = -4611686018427387904
int64 I64MIN = -9223372036854775808
int64 I64MIN1 = -9223372036854775807
int64 I64MAX = 9223372036854775807
uint1 U1MAX = 1
uint8 U8MAX = 255
uint8 U8ZERO = 0
uint16 U16MAX = 65535
uint31 U31MAX = 2147483647
uint32 U32MAX = 4294967295
uint33 U33MAX = 8589934591
uint63 U63MAX = 9223372036854775807
uint64 U64MAX = 18446744073709551615
uint64 U64MAXH = 0xFFFFFFFFFFFFFFFF
uint8 CHQ = '\\''
uint8 CHB = '\\\\'
uint8 CHN = '\\n'
bool BT = true
bool BF = false
float16 F16MAX = 65504.0
float16 F16LOW = -65504.0
float16 F16TINY = 2.0 ** -24
float32 F32MAX = 340282346638528859811704183484516925440.0
float32 F32LOW = -340282346638528859811704183484516925440.0
float32 F32TINY = 2.0 ** -149
float32 F32THIRD = 1.0 / 3.0
float32 F32ZERO = 0.0
float64 F64MAX = 179769313486231570814527423731704356798070567525844996598917476803157260780028538760589558632766878171540458953514382464234321326889464182768467546703537516986049910576551282076245490090389328944075868508455133942304583236903222948165808559332123348274797826204144723168738177180919299881250404026184124858368.0
float64 F64LOW = -179769313486231570814527423731704356798070567525844996598917476803157260780028538760589558632766878171540458953514382464234321326889464182768467546703537516986049910576551282076245490090389328944075868508455133942304583236903222948165808559332123348274797826204144723168738177180919299881250404026184124858368.0
float64 F64MIN = 2.0 ** -1022
float64 F64TINY = 2.0 ** -1074
float64 F64E = 2.718281828459045
float64 F64NEG = -1.0e-5
"""

MAXWIDTH_FIELDS = """\
uint64 wu
int64 wi
float64 wf
float16 wh
uint1 nu
int2 ni
bool wb
void64
void1
uint64[<=70000] au
bool[<=70000] ab
uint8[300] af
float64[2] ad
bool[65] fb
int64[<=1] ai
"""


def cps(s):
    return [ord(c) for c in s]


def to_s(cp):
    return "".join(map(chr, cp))


# ---------------------------------------------------------------------------------------------------------------------
# namespace sets: {"id", "roots": [root dir names in generation order], "files": {"root/ns/T.1.0.dsdl": text}, "meta": {...}}
# ---------------------------------------------------------------------------------------------------------------------
FIELD_TYPES = {"u8": "uint8", "i64": "int64", "boolfix": "bool[5]", "boolvar": "bool[<=9]", "f32arr": "float32[<=3]", "na": "uint8"}
FT_ORDER = ["boolfix", "boolvar", "f32arr", "i64", "u8"]


def host_body(kind, field, const, extra_fields=(), extra_consts=(), ft="u8"):
    """DSDL text of the host type.  field/const may be None (not present)."""
    f = ["%s %s" % (FIELD_TYPES[ft], field)] if field else []
    f += ["uint8 %s" % x for x in extra_fields]
    c = ["uint16 %s = 1" % const] if const else []
    c += ["uint16 %s = 2" % x for x in extra_consts]
    arr = ["float32[<=3] arr_v", "bool[5] arr_b"]
    if kind == "struct":
        return "\n".join(f + c + arr + ["@sealed"]) + "\n"
    if kind == "deprecated":
        return "\n".join(["@deprecated"] + f + c + arr + ["@extent 128 * 8"]) + "\n"
    if kind == "union":
        return "\n".join(["@union"] + f + c + ["float32[2] un_b", "uint16[<=3] un_c", "@sealed"]) + "\n"
    if kind == "dunion":
        return "\n".join(["@union"] + f + c + ["float32[2] un_b", "bool[<=3] un_c", "@extent 64 * 8"]) + "\n"
    if kind == "service":
        return "\n".join(f + c + ["uint8[<=4] rq", "@sealed", "---"] + f + c + ["float64 rp", "@extent 32 * 8"]) + "\n"
    if kind == "usvc":
        return "\n".join(["@union"] + f + c + ["uint16 rq_b", "float16 rq_c", "@sealed", "---", "@union"] + f + c
                         + ["bool[3] rp_b", "int7 rp_c", "@extent 32 * 8"]) + "\n"
    if kind == "empty":
        return "\n".join(c + ["@sealed"]) + "\n"
    if kind == "maxwidth":
        return "\n".join(f + c) + "\n" + MAXWIDTH_FIELDS + "@sealed\n"
    if kind == "constants":
        return "\n".join(f + c) + "\n" + EXTREME_CONSTANTS + "@sealed\n"
    raise ValueError(kind)


def name_case_set(case, word):
    """one case of IncludesNames.tla -> namespace set (or None when the combination has no word)"""
    pos, cls, kind = case["pos"], case["cls"], case["kind"]
    pair = word if isinstance(word, tuple) else None
    w = word[0] if pair else word
    root = w if pos == "ns" else "hroot"
    nested = [w] if pos == "nested_ns" else []
    tname = w if pos == "type" else "Host"
    field = w if pos == "field" else "phi"
    const = w if pos == "const" else "KAPPA"
    xf, xc = (), ()
    if kind == "empty":
        field = None
        const = const if pos == "const" else None  # really empty unless the case is about a constant name
    files = {}
    if pair:
        if pos == "field":
            xf = (pair[1],)
        elif pos == "const":
            xc = (pair[1],)
    ns = [root] + nested
    ft = case.get("ft", "na")
    files["/".join(ns + ["%s.1.0.dsdl" % tname])] = host_body(kind, field, const, xf, xc, ft)
    if pair and pos == "type":
        files["/".join(ns + ["%s.1.0.dsdl" % pair[1]])] = host_body("struct", "phi", "KAPPA")
    if pair and pos == "nested_ns":
        files["/".join([root, pair[1], "Host.1.0.dsdl"])] = host_body("struct", "phi", "KAPPA")
    full = ".".join(ns + [tname])
    roots = [root]
    if kind not in ("service", "usvc"):
        dep = "@deprecated\n" if kind == "deprecated" else ""  # a non-deprecated type cannot depend on a deprecated one
        files["uroot/User.1.0.dsdl"] = dep + "%s.1.0 h\n%s.1.0[<=2] hv\n%s.1.0[2] hf\nuint8 tail\n@sealed\n" % (full, full, full)
        files["uroot/deep/UserU.1.0.dsdl"] = dep + "@union\n%s.1.0 h\nuint8 other\n@extent 4000000 * 8\n" % full
        roots = ["uroot", root]  # the dependant first: the dependency's root is generated by a later run
    key = "%s|%s|%s|%s" % (pos if ft == "na" else "field:" + ft, cls, kind, "/".join(pair) if pair else w)
    return {"id": "n-" + sha(key)[:10], "roots": roots, "files": files, "meta": {"src": "names", "pos": pos, "cls": cls, "kind": kind, "word": w,
                                                                               "key": key}}


def world_set(world, idx):
    """one world of Includes.tla -> namespace set + the model's prediction"""
    types = world["types"]
    files = {}

    def ns_of(t):
        return ["r%d" % t["root"]] + (["sub"] if t["nested"] else [])

    def ref(j):
        return ".".join(ns_of(types[j]) + ["T%d" % (j + 1)]) + ".1.0"

    for i, t in enumerate(types):
        req, resp = ["uint8 x%d" % i], ["uint16 y%d" % i]
        for j, v in enumerate(t["deps"]):
            arr = "[<=2]" if (i + j) % 2 else "[2]"
            if v in ("f", "qf", "qp"):
                req.append("%s d%d" % (ref(j), j))
            if v == "a":
                req.append("%s%s d%d" % (ref(j), arr, j))
            if v == "qp":
                resp.append("%s e%d" % (ref(j), j))
            if v == "pa":
                resp.append("%s%s e%d" % (ref(j), arr, j))
        body = "\n".join(req + ["@sealed"])
        if t["kind"] == "svc":
            body += "\n---\n" + "\n".join(resp + ["@extent 8000 * 8"])
        files["/".join(ns_of(t) + ["T%d.1.0.dsdl" % (i + 1)])] = body + "\n"
    roots = ["r%d" % r for r in world["roots"]]
    key = json.dumps(world, sort_keys=True)
    return {"id": "w-%05d-%s" % (idx, sha(key)[:6]), "roots": roots, "files": files,
            "meta": {"src": "world", "world": world, "key": "world|" + sha(key)[:12]}}


def predicted_refs(world, cfg, omit):
    """I-layer prediction: {produced file -> set of referred generated files} for one unit (path shapes are I-layer knowledge)"""
    lang = CFGS[cfg][0]
    types = world["types"]
    ext = {"c": ".h", "cpp": ".hpp", "py": ".py"}[lang]
    support = {"c": "nunavut/support/serialization.h", "cpp": "nunavut/support/serialization.hpp", "py": "nunavut_support.py"}[lang]

    def nsdir(t):
        return "r%d" % t["root"] + ("/sub" if t["nested"] else "")

    def tfile(j):
        return "%s/T%d_1_0%s" % (nsdir(types[j]), j + 1, ext)

    res = {}
    sup_ref = (not omit) or lang == "py"
    for i, t in enumerate(types):
        direct = [j - 1 for j in t["direct"]]
        if lang == "py":
            r = {nsdir(types[j]) + "/__init__.py" for j in direct}
        else:
            r = {tfile(j) for j in direct}
        if sup_ref:
            r.add(support)
        res[tfile(i)] = r
    if lang == "py":
        for i, t in enumerate(types):
            res.setdefault(nsdir(t) + "/__init__.py", set()).add(tfile(i))
            res.setdefault("r%d/__init__.py" % t["root"], set())
    return res


# words for random sets: several classes at once
def random_set(rng, idx):
    pool = [w for k in ("plain", "c_kw", "cpp_kw", "py_kw", "py_builtin") for w in WORDS[k]]
    nroots = rng.randint(1, 3)
    used = set()

    def fresh(prefix=""):
        for _ in range(50):
            w = rng.choice(pool) if rng.random() < 0.6 else "%s%s%d" % (prefix, rng.choice("abcxyz"), rng.randint(0, 99))
            if w.lower() not in used:
                used.add(w.lower())
                return w
        return "n%d" % len(used)

    roots = []
    while len(roots) < nroots:
        r = fresh("r")
        if r not in PY_STDLIB:  # see PY_STDLIB
            roots.append(r)
    nss = []
    for r in roots:
        nss.append([r])
        if rng.random() < 0.6:
            n1 = fresh("s")
            nss.append([r, n1])
            if rng.random() < 0.4:
                nss.append([r, n1, fresh("s")])
    ntypes = rng.randint(3, 10)
    types = []
    files = {}
    prims = ["bool", "uint8", "uint16", "uint32", "uint64", "int8", "int16", "int32", "int64", "float16", "float32", "float64"]
    for i in range(ntypes):
        ns = rng.choice(nss)
        kind = rng.choice(["struct", "struct", "union", "dunion", "service", "usvc", "deprecated", "empty"])
        short = fresh("T")
        short = short if rng.random() < 0.5 else short[:1].upper() + short[1:]
        if any(t["ns"] == ns and t["short"].lower() == short.lower() for t in types):
            short = "Ty%d" % i

        bound = [16]  # upper bound of the serialized size in bytes (sum over both sections; generous)

        def section(union, nmin):
            lines = []
            names = set()
            nf = rng.randint(max(nmin, 2 if union else 0), 5)
            for k in range(nf):
                fn = fresh("f")
                if fn.lower() in names:
                    fn = "f%d_%d" % (i, k)
                names.add(fn.lower())
                r = rng.random()
                # a service is not a field type; a non-deprecated type cannot depend on a deprecated one
                cands = [t for t in types if t["kind"] not in ("service", "usvc") and (kind == "deprecated" or t["kind"] != "deprecated")]
                size, comp = 8, False
                if r < 0.35 and cands:
                    d = rng.choice(cands)
                    ty = ".".join(d["ns"] + [d["short"]]) + ".1.0"
                    size, comp = d["bound"] + 8, True
                elif r < 0.45:
                    w = rng.randint(1, 64)
                    ty = rng.choice(["uint%d" % w, "int%d" % max(2, w), "truncated uint%d" % w])
                else:
                    ty = rng.choice(prims)
                r = rng.random()
                if r < 0.2:
                    n = rng.choice([1, 2, 3] if comp else [1, 2, 7, 255, 256, 300])
                    ty += "[<=%d]" % n
                    size = size * n + 4
                elif r < 0.35:
                    n = rng.choice([1, 2] if comp else [1, 2, 9, 64])
                    ty += "[%d]" % n
                    size = size * n
                bound[0] += size
                lines.append("%s %s" % (ty, fn))
                if not union and rng.random() < 0.2:
                    lines.append("void%d" % rng.randint(1, 64))
            for k in range(rng.randint(0, 2)):
                cn = fresh("C")
                if cn.lower() in names:
                    cn = "C%d_%d" % (i, k)
                names.add(cn.lower())
                lines.append(rng.choice(["uint8 %s = 200", "int64 %s = -9223372036854775807", "float32 %s = 1.5", "bool %s = true",
                                         "uint64 %s = 18446744073709551615", "float64 %s = 1.0 / 7.0", "int16 %s = -32768", "uint8 %s = 'z'"]) % cn)
            return lines

        def close(sealed_p):
            return "@sealed" if rng.random() < sealed_p else "@extent %d * 8" % (2 * bound[0] + 64)

        if kind == "empty":
            body = ["@sealed"]
        elif kind in ("struct", "deprecated"):
            body = (["@deprecated"] if kind == "deprecated" else []) + section(False, 0) + [close(0.5)]
        elif kind in ("union", "dunion"):
            body = ["@union"] + section(True, 2)
            body.append("@sealed" if kind == "union" else "@extent %d * 8" % (2 * bound[0] + 64))
        elif kind == "service":
            body = section(False, 0) + [close(0.5), "---"] + section(False, 0) + [close(0.5)]
        else:
            body = ["@union"] + section(True, 2) + [close(0.5), "---", "@union"] + section(True, 2) + [close(0.5)]
        types.append({"ns": ns, "short": short, "kind": kind, "bound": 2 * bound[0] + 64})
        files["/".join(ns + ["%s.1.0.dsdl" % short])] = "\n".join(body) + "\n"
    roots_used = [r for r in roots if any(t["ns"][0] == r for t in types)]
    rng.shuffle(roots_used)
    key = "rand|" + sha(json.dumps(files, sort_keys=True))[:12]
    return {"id": "r-%04d" % idx, "roots": roots_used, "files": files, "meta": {"src": "random", "key": key}}


def repo_sets():
    """every DSDL tree shipped in the repository (each directory that holds root namespaces is one set)"""
    res = []
    parents = sorted({p.parent.parent for p in list((REPO / "test").glob("*/dsdl/*/")) if p.is_dir()}
                     | {REPO / "verification" / "nunavut_test_types", REPO / "verification" / "nunavut_test_types" / "test0"})
    for parent in parents:
        cands = parent / "dsdl" if (parent / "dsdl").is_dir() else parent
        files = {}
        roots = []
        for rootdir in sorted(p for p in cands.iterdir() if p.is_dir()):
            fs = sorted(rootdir.rglob("*.dsdl"))
            if not fs:
                continue
            roots.append(rootdir.name)
            for f in fs:
                try:
                    files[f.relative_to(cands).as_posix()] = f.read_text()
                except Exception:  # noqa
                    pass
        if roots:
            rel = cands.relative_to(REPO).as_posix()
            res.append({"id": "u-" + sha(rel)[:8], "roots": roots, "files": files, "meta": {"src": "repo", "path": rel, "key": "repo|" + rel,
                                                                                            "per_root": True}})
    return res


# ---------------------------------------------------------------------------------------------------------------------
# worker side: drives the real code for one namespace set, returns the recorded events
# ---------------------------------------------------------------------------------------------------------------------
PY_DRIVER = r"""
import sys, os, json, io, importlib, warnings, traceback
out = sys.argv[1]; mods = sys.argv[2:]
sys.path.insert(0, out)
with warnings.catch_warnings():
    warnings.simplefilter("ignore")
    import numpy, numpy.typing, pydsdl  # documented third-party dependencies: warm, so that a fork per module is cheap
warnings.resetwarnings()
warnings.simplefilter("error")           # python -W error
res = []
for m in mods:
    r, w = os.pipe()
    pid = os.fork()
    if pid == 0:
        os.close(r)
        so, se = io.StringIO(), io.StringIO()
        sys.stdout, sys.stderr = so, se
        rc, diag = 0, ""
        try:
            importlib.import_module(m)
        except BaseException as ex:
            rc = 1
            diag = "%s: %s" % (type(ex).__name__, str(ex).splitlines()[0] if str(ex) else "")
        if not diag:
            txt = (se.getvalue() + so.getvalue()).strip()
            diag = txt.splitlines()[0] if txt else ""
        os.write(w, json.dumps({"m": m, "rc": rc, "diag": diag}).encode())
        os._exit(0)
    os.close(w)
    buf = b""
    while True:
        c = os.read(r, 65536)
        if not c:
            break
        buf += c
    os.close(r)
    _, st = os.waitpid(pid, 0)
    if buf:
        res.append(json.loads(buf.decode()))
    else:
        res.append({"m": m, "rc": 100 + (st & 0x7f), "diag": "interpreter died (wait status %d)" % st})
sys.__stdout__.write(json.dumps(res))
"""

_INC = re.compile(r'^[ \t]*#[ \t]*include[ \t]*([<"])([^>"\n]+)[>"]', re.M)


def list_files(top):
    res = []
    for dp, _, fns in os.walk(str(top)):
        for f in fns:
            if f.endswith(".pyc"):
                continue
            res.append(os.path.relpath(os.path.join(dp, f), str(top)).replace(os.sep, "/"))
    return sorted(res)


_SYS = {}


def system_header(name, cxx):
    """a header the toolchain resolves by itself (no output directory on the include path) belongs to the language / platform,
    not to the generated artifacts: fast path = the standard's own list, otherwise ask the preprocessor"""
    if name in C_STD_HEADERS or name in CXX_STD_HEADERS:
        return True
    key = (name, cxx)
    if key not in _SYS:
        argv = ["g++", "-x", "c++", "-std=c++20"] if cxx else ["gcc", "-x", "c", "-std=c11"]
        p = subprocess.run(argv + ["-E", "-o", os.devnull, "-"], input="#include <%s>\n" % name, stdout=subprocess.PIPE, stderr=subprocess.STDOUT,
                           text=True, cwd="/")
        _SYS[key] = p.returncode == 0
    return _SYS[key]


def c_refs(out, rel, produced):
    """generated-artifact references of a C/C++ file: every #include that is not a header of the language's standard library"""
    txt = (out / rel).read_text(errors="replace")
    res = []
    for m in _INC.finditer(txt):
        name = m.group(2).strip()
        if name not in produced and system_header(name, rel.endswith(".hpp")):
            continue
        cand = name
        if m.group(1) == '"':
            local = os.path.normpath(os.path.join(os.path.dirname(rel), name)).replace(os.sep, "/")
            if local in produced and name not in produced:
                cand = local
        res.append(os.path.normpath(cand).replace(os.sep, "/"))
    return sorted(set(res))


def py_refs(out, rel, produced):
    """generated-artifact references of a Python module: every import that is not the standard library / numpy / pydsdl"""
    try:
        tree = ast.parse((out / rel).read_text())
    except (SyntaxError, ValueError):
        return []  # the import of this module is going to report it
    std = getattr(sys, "stdlib_module_names", set()) | {"__future__"}
    res = set()

    def resolve(mod):
        base = mod.replace(".", "/")
        if base + ".py" in produced:
            return base + ".py"
        if base + "/__init__.py" in produced:
            return base + "/__init__.py"
        return None

    def add(mod, required=True):
        top = mod.split(".")[0]
        if top in std or top in PY_THIRD_PARTY:
            return
        r = resolve(mod)
        if r:
            res.add(r)
        elif required:
            res.add(mod.replace(".", "/") + ".py")

    pkg = rel.split("/")[:-1]

    def at_import_time(node):
        """statements executed when the module is imported (function bodies run later: their imports are not needed to import)"""
        for ch in ast.iter_child_nodes(node):
            if isinstance(ch, (ast.FunctionDef, ast.AsyncFunctionDef, ast.Lambda)):
                continue
            yield ch
            yield from at_import_time(ch)

    for node in at_import_time(tree):
        if isinstance(node, ast.Import):
            for a in node.names:
                add(a.name)
        elif isinstance(node, ast.ImportFrom):
            if node.level:
                basepkg = pkg[: len(pkg) - (node.level - 1)] if node.level > 1 else pkg
                mod = ".".join(basepkg + ([node.module] if node.module else []))
            else:
                mod = node.module or ""
            if mod:
                add(mod)
            for a in node.names:
                if mod and a.name != "*":
                    add(mod + "." + a.name, required=False)
    return sorted(res)


def strop_groups(lang, opts, sset):
    """the DSDL identifiers of the set per scope with the target's own stropped image (documented stropping: filter_id)"""
    from nunavut.lang import LanguageContextBuilder

    language = (LanguageContextBuilder(include_experimental_languages=True).set_target_language(lang)
                .set_target_language_configuration_override("options", dict(opts)).create().get_target_language())
    groups = []
    by_ns = {}
    by_parent = {}
    for path, text in sset["files"].items():
        parts = path.split("/")
        ns, fn = parts[:-1], parts[-1]
        short = fn.split(".")[0]
        by_ns.setdefault(tuple(ns), set()).add(short)
        for k in range(len(ns)):
            by_parent.setdefault(tuple(ns[:k]), set()).add(ns[k])
        for sec in text.split("\n---"):
            names = []
            for ln in sec.splitlines():
                ln = ln.split("#")[0].strip()
                m = re.match(r"^(?:saturated |truncated )?[A-Za-z_][\w.]*(?:\[[^\]]*\])?\s+([A-Za-z_]\w*)\s*(?:=.*)?$", ln)
                if m and not ln.startswith("@"):
                    names.append(m.group(1))
            if names:
                groups.append((names, "any"))
    for ns, shorts in by_ns.items():
        groups.append((sorted(shorts), "any"))
    for par, kids in by_parent.items():
        groups.append((sorted(kids), "path"))
    res = []
    for names, idt in groups:
        g = []
        for n in sorted(set(names)):
            try:
                s = language.filter_id(n, idt)
            except Exception:  # noqa
                s = n
            g.append({"raw": cps(n), "strop": cps(s)})
        if len(g) > 1:
            res.append(g)
    return res


def dsdl_identifiers(sset):
    """every DSDL identifier of the set: namespace components, short names, attribute names"""
    names = set()
    for path, text in sset["files"].items():
        parts = path.split("/")
        names.update(parts[:-1])
        names.add(parts[-1].split(".")[0])
        for ln in text.splitlines():
            ln = ln.split("#")[0].strip()
            m = re.match(r"^(?:saturated |truncated )?[A-Za-z_][\w.]*(?:\[[^\]]*\])?\s+([A-Za-z_]\w*)\s*(?:=.*)?$", ln)
            if m and not ln.startswith("@"):
                names.add(m.group(1))
    return names


def _diagnosed_tokens(sdir, diag, names):
    """(path, DSDL identifiers of the input that occur as identifier tokens, outside comments, on the diagnosed line of generated code)"""
    m = re.match(r"^(\S+?):(\d+):\d+:", diag)
    if not m:
        return None, set()
    try:
        line = (sdir / m.group(1)).read_text(errors="replace").splitlines()[int(m.group(2)) - 1]
    except (OSError, IndexError, ValueError):
        return None, set()
    line = re.sub(r"/\*.*?\*/", " ", line)
    line = re.sub(r"//.*$", "", line)
    return sdir / m.group(1), set(re.findall(r"[A-Za-z_]\w*", line)) & names


def macro_cause(argv, out, tu, sdir, diag, names):
    """root-cause attribution of a failed compile: the diagnosed line of generated code contains a DSDL identifier of the input that
    the preprocessor knows as a macro at the end of this translation unit (a standard-library macro: errno, EAGAIN, INT8_MAX, NULL ...).
    Returns the identifier or ''.  Only labels the verdict (one signature for the whole family); it never decides one."""
    _, toks = _diagnosed_tokens(sdir, diag, names)
    if not toks:
        return ""
    p = subprocess.run(argv[:4] + ["-E", "-dM", "-I", str(out), str(tu)], stdout=subprocess.PIPE, stderr=subprocess.DEVNULL, text=True, errors="replace")
    macros = set(re.findall(r"^#define ([A-Za-z_]\w*)", p.stdout, re.M))
    hit = sorted(toks & macros)
    return hit[0] if hit else ""


def decl_cause(argv, out, sdir, diag, names, cfg, omode):
    """the same kind of attribution for names the libraries DECLARE (std, size_t, int8_t, isalpha, nunavut ...): the diagnosed line
    contains a DSDL identifier of the input, and a probe translation unit that includes what the diagnosed file includes from the
    standard library and from the generated support library and then declares `extern int <identifier>;` is refused by the same tool
    with the same flags (while the same probe with a fresh identifier is accepted).  Returns the identifier or ''.  Labels only."""
    path, toks = _diagnosed_tokens(sdir, diag, names)
    toks = toks - set(C11_KEYWORDS) - set(CXX20_KEYWORDS)  # a keyword is refused by the probe as well, but it is not a library name
    if not toks or path is None:
        return ""
    incs = []
    for ln in path.read_text(errors="replace").splitlines():
        m = re.match(r'^\s*#\s*include\s*(<[^>]+>|"[^"]+")', ln)
        if m and (m.group(1).startswith("<") or "/support/" in m.group(1)):
            incs.append("#include %s" % m.group(1))
    probe = sdir / ("declprobe-%s-%s.src" % (cfg, omode))

    def refused(tok):
        probe.write_text("\n".join(incs) + "\nextern int %s;\n" % tok)
        p = subprocess.run(argv + ["-fsyntax-only", "-I", str(out), str(probe)], stdout=subprocess.PIPE, stderr=subprocess.STDOUT, text=True, errors="replace")
        return p.returncode != 0

    if refused("c06_fresh_probe_name_"):
        return ""
    for tok in sorted(toks):
        if refused(tok):
            return tok
    return ""


_DEF = re.compile(r"^[ \t]*#[ \t]*define[ \t]+([A-Za-z_]\w*)[ \t]+(\S.*)$", re.M)


def own_macros(text):
    """object-like macros with a body that this header defines itself (include guards have no body, function-like ones a '(')"""
    return [m.group(1) for m in _DEF.finditer(text)]


def diagnostics(text, strip, limit=6):
    """(first diagnostic line, further warning-class diagnostics of other structural classes)"""
    text = text.replace(strip, "")
    lines = [ln.strip()[:300] for ln in text.splitlines() if ln.strip()]
    dl = [ln for ln in lines if re.search(r"\b(error|warning)\b", ln)]
    if not dl:
        return (lines[0] if lines else ""), []
    more, seen = [], {diag_class(dl[0])}
    if all("[-W" in ln for ln in dl):  # only warnings (made errors by -Werror): they are independent; a hard error cascades
        for ln in dl[1:]:
            c = diag_class(ln)
            if c not in seen and len(more) < limit:
                seen.add(c)
                more.append(ln)
    return dl[0], more


def frontend_accepts(ddir, sset):
    import pydsdl

    try:
        for r in sset["roots"]:
            pydsdl.read_namespace(str(ddir / r), [str(ddir / o) for o in sset["roots"] if o != r])
        return True, ""
    except pydsdl.FrontendError as ex:
        return False, "%s: %s" % (type(ex).__name__, str(ex).splitlines()[0][-200:] if str(ex) else "")
    except Exception as ex:  # noqa
        return False, "%s: %s" % (type(ex).__name__, str(ex).splitlines()[0][-200:] if str(ex) else "")


def process_set(job):
    """runs in a worker process.  job: {"set", "dir", "units": [(cfg, omitmode)], "tools": {cfg: [(id, argv)]}, "compile": bool}
    returns {"id", "accepted", "why", "units": [{"cfg", "omit", "events": [...]}]}"""
    try:
        return _process_set(job)
    except Exception:  # noqa
        return {"id": job["set"]["id"], "crash": traceback.format_exc()}


def _process_set(job):
    import nunavut

    sset = job["set"]
    sdir = pathlib.Path(job["dir"])
    if sdir.exists():
        shutil.rmtree(sdir)
    ddir = sdir / "dsdl"
    for rel, text in sset["files"].items():
        p = ddir / rel
        p.parent.mkdir(parents=True, exist_ok=True)
        p.write_text(text)
    per_root = sset["meta"].get("per_root")
    res = {"id": sset["id"], "accepted": True, "why": "", "units": []}
    roots = list(sset["roots"])
    if per_root:
        # shipped trees: keep the roots the front end accepts (uavcan-dependent ones cannot load offline)
        import pydsdl

        ok = []
        for r in roots:
            try:
                pydsdl.read_namespace(str(ddir / r), [str(ddir / o) for o in roots if o != r])
                ok.append(r)
            except Exception:  # noqa
                pass
        roots = ok
        if not roots:
            res.update(accepted=False, why="no root namespace of this tree loads offline")
            shutil.rmtree(sdir, ignore_errors=True)
            return res
        res["roots"] = roots
    else:
        acc, why = frontend_accepts(ddir, sset)
        if not acc:
            res.update(accepted=False, why=why)
            shutil.rmtree(sdir, ignore_errors=True)
            return res
    strip = str(sdir) + "/"
    ids = None
    for cfg, omode in job["units"]:
        lang, opts = CFGS[cfg]
        out = sdir / "out" / ("%s-%s" % (cfg, omode))
        ev = []
        try:
            groups = strop_groups(lang, opts, sset)
        except Exception as ex:  # noqa
            groups = []
            ev.append({"ev": "nop", "note": "strop_groups failed: %r" % ex})
        ev.append({"ev": "begin", "set": sset["id"], "lang": cfg, "omit": omode, "groups": groups})
        all_ok = True
        for ri, r in enumerate(roots):
            omit = omode == "omit"
            rc, err = 0, ""
            try:
                nunavut.generate_types(lang, str(ddir / r), str(out), omit_serialization_support=omit, language_options=dict(opts),
                                       include_experimental_languages=True, lookup_directories=[str(ddir / o) for o in roots if o != r])
            except Exception as ex:  # noqa
                rc, err = 1, "%s: %s" % (type(ex).__name__, (str(ex).splitlines() or [""])[0][:200])
                all_ok = False
            produced = list_files(out) if out.exists() else []
            ev.append({"ev": "gen", "root": r, "omitted": omit, "rc": rc, "err": cps(err.replace(strip, "")), "produced": [cps(p) for p in produced]})
        produced = list_files(out) if out.exists() else []
        pset = set(produced)
        for rel in produced:
            if rel.endswith((".h", ".hpp")):
                incs = c_refs(out, rel, pset)
            elif rel.endswith(".py"):
                incs = py_refs(out, rel, pset)
            else:
                continue
            ev.append({"ev": "refs", "file": cps(rel), "includes": [cps(i) for i in incs]})
        if job.get("compile", True) and all_ok:
            tools = job["tools"].get(cfg, [])
            if lang == "py":
                mods = []
                for rel in produced:
                    if rel.endswith(".py"):
                        m = rel[:-3].replace("/", ".")
                        mods.append((m[: -len(".__init__")] if m.endswith(".__init__") else m, rel))
                if mods and tools:
                    env = dict(os.environ)
                    env["PYTHONPATH"] = str(VERIF / ".pydeps")
                    env["PYTHONDONTWRITEBYTECODE"] = "1"
                    p = subprocess.run([sys.executable, "-c", PY_DRIVER, str(out)] + [m for m, _ in mods], stdout=subprocess.PIPE,
                                       stderr=subprocess.PIPE, text=True, env=env, timeout=600)
                    try:
                        rs = json.loads(p.stdout)
                    except ValueError:
                        raise MachineryFailure("python import driver failed: rc=%s %s" % (p.returncode, (p.stderr or p.stdout)[-800:]))
                    for (m, rel), r in zip(mods, rs):
                        ev.append({"ev": "compile", "file": cps(rel), "tool": "python-import", "std": "-W error", "rc": r["rc"],
                                   "diag": cps(r["diag"].replace(strip, "")[:300])})
            else:
                tu = sdir / ("tu-%s-%s.src" % (cfg, omode))
                for rel in produced:
                    if not rel.endswith((".h", ".hpp")):
                        continue
                    if "/support/" in rel and not job.get("compile_support"):
                        continue  # identical in every set (depends on the configuration only): compiled once, by the design probe
                    macros = None
                    mytools = tools
                    if job.get("light") and rel.startswith(job["light"][0]):
                        # dependants: every other tool; in the quick tier only for the C, oldest C++ and pmr configurations
                        mytools = tools[::2] if job["light"][1] is None or cfg in job["light"][1] else []
                    for tid, argv in mytools:
                        if tid.endswith("-use"):
                            # C constants are object-like macros: their literals are only diagnosed where they are expanded
                            if macros is None:
                                macros = own_macros((out / rel).read_text(errors="replace"))
                            if not macros:
                                continue
                            tu.write_text('#include "%s"\nvoid c06_use_(void);\nvoid c06_use_(void)\n{\n%s}\n' % (rel, "".join("    (void) (%s);\n" % m for m in macros)))
                        else:
                            tu.write_text('#include "%s"\n' % rel)
                        p = subprocess.run(argv + ["-fsyntax-only", "-I", str(out), str(tu)], stdout=subprocess.PIPE, stderr=subprocess.STDOUT,
                                           text=True, errors="replace", timeout=600)
                        d0, more = diagnostics(p.stdout, strip)
                        cause = ""
                        if p.returncode != 0 and d0 and not tid.endswith("-use"):
                            if ids is None:
                                ids = dsdl_identifiers(sset)
                            cause = macro_cause(argv, out, tu, sdir, d0, ids)
                            if not cause:
                                dcl = decl_cause(argv, out, sdir, d0, ids, cfg, omode)
                                cause = "decl:" + dcl if dcl else ""
                        ev.append({"ev": "compile", "file": cps(rel), "tool": tid, "std": tid.split("-", 1)[1], "rc": p.returncode,
                                   "diag": cps(d0), "more": [cps(x) for x in more], "cause": cause})
        res["units"].append({"cfg": cfg, "omit": omode, "events": ev})
    if not job.get("keep"):
        shutil.rmtree(sdir, ignore_errors=True)
    return res


# ---------------------------------------------------------------------------------------------------------------------
# driver side
# ---------------------------------------------------------------------------------------------------------------------
TRACE_CONSTANTS = {"N": 1, "NRoots": 1, "NestedRoots": "{}", "RefStyle": '"file"', "SupportRef": '"unless_omitted"',
                   "SupportGen": '"unless_omitted"', "ScanResponse": "TRUE", "ScanArrays": "TRUE", "EmitWorlds": "FALSE"}
BATCH = 2500


def run_jobs(ctx, jobs):
    """process the namespace sets NCPU-way parallel; results in job order"""
    if not jobs:
        return []
    mp = multiprocessing.get_context("fork")
    with concurrent.futures.ProcessPoolExecutor(max_workers=NCPU, mp_context=mp) as ex:
        results = list(ex.map(process_set, jobs, chunksize=1))
    for r in results:
        if "crash" in r:
            raise MachineryFailure("worker crashed on set %s:\n%s" % (r["id"], r["crash"][-2500:]))
    return results


def diag_class(diag):
    """structural class of a diagnostic: the warning option when the tool names one, else the message without names/numbers"""
    m = re.search(r"\[-W(?:error[=,])?-?W?([a-z0-9+=-]+)\]", diag)
    if m and m.group(1) not in ("error",):
        return "-W" + m.group(1)
    if "RecursionError" in diag:  # where the interpreter's limit is met ("... in __instancecheck__", "while pickling an object") varies from run to run
        return "RecursionError: maximum recursion depth exceeded"
    msg = re.sub(r"^.*?\b(?:fatal error|error|warning)\b:?\s*", "", diag)
    if re.match(r"^[A-Za-z]+(Error|Warning|Exception)?: ", diag) and "error:" not in diag:
        msg = diag  # python: "ModuleNotFoundError: No module named ..."
    if "No such file or directory" in msg or "file not found" in msg:
        return "an included file does not exist"
    msg = re.sub(r"'[^']*'|\"[^\"]*\"|‘[^’]*’", "_", msg)
    msg = re.sub(r"\d+", "N", msg)
    msg = re.sub(r"\[-W[^\]]*\]", "", msg)
    return msg.strip()[:90]


def target_of(cfg, tool):
    if CFGS[cfg][0] == "c":
        return ("c-in-c++" if "externC" in tool else "c") + ("-macro-use" if tool.endswith("-use") else "")
    return "cpp" if cfg.startswith("cpp") else cfg


class Campaign:
    """collects units, builds the padded record list, lets the T-layer judge it (in portions), maps rejections to verdicts"""

    def __init__(self, ctx):
        self.ctx = ctx
        self.records = []
        self.info = {}  # record id -> (set, cfg, omit, event, unit observation)
        self.sets = {}
        self.not_accepted = []
        self.excluded = set()
        self.nunits = 0
        self.ncompiles = 0
        self.nrecords = 0
        self.observed = {}  # (set id, cfg, omit) -> ({file: set(includes)}, produced) ; kept for the worlds only (prediction comparison)
        self.found = []  # (clause, target, omode, class, what, case)
        self.clean_unit = None  # a clean C unit for the binding self-tests

    def add(self, sset, result, keep_observed=False):
        if not result["accepted"]:
            self.not_accepted.append((sset["id"], sset["meta"].get("key"), result["why"]))
            return
        self.sets[sset["id"]] = sset
        for u in result["units"]:
            evs = u["events"]
            if (len(self.records) % BATCH) + len(evs) > BATCH and len(evs) <= BATCH:
                while len(self.records) % BATCH:
                    self.records.append({"id": len(self.records), "ev": "nop"})
            obs = {}
            prod = set()
            steps = []  # (root, files below the output directory after that run)
            unit = (obs, prod, steps)
            for e in evs:
                e = dict(e)
                e["id"] = len(self.records)
                self.records.append(e)
                self.info[e["id"]] = (sset["id"], u["cfg"], u["omit"], e, unit)
                if e["ev"] == "refs":
                    obs[to_s(e["file"])] = {to_s(i) for i in e["includes"]}
                elif e["ev"] == "gen":
                    prod |= {to_s(p) for p in e["produced"]}
                    steps.append((e["root"], {to_s(p) for p in e["produced"]}))
                elif e["ev"] == "compile":
                    self.ncompiles += 1
                    self.ctx.count()
            if keep_observed:
                self.observed[(sset["id"], u["cfg"], u["omit"])] = unit
            self.nunits += 1
            self.ctx.count()

    def judge(self):
        """T-layer verdict on everything recorded since the last call"""
        ctx = self.ctx
        if not self.records:
            return {}
        rej = tlc.validate_traces(ctx, "IncludesTrace", self.records, batch=BATCH, constants=TRACE_CONSTANTS, xmx="2g")
        nops = sum(1 for r in self.records if r["ev"] == "nop")
        ctx.cov["traces_validated_against_impl"] -= nops
        self.nrecords += len(self.records) - nops
        for rid, clause in sorted(rej.items()):
            if rid not in self.info:
                raise MachineryFailure("T-layer rejected padding record %r: %s" % (rid, clause))
            sid, cfg, omode, e, unit = self.info[rid]
            if clause == "excluded.folded":
                self.excluded.add((sid, cfg, omode))
                ctx.cov["traces_validated_against_impl"] += 1  # the exclusion is the model's verdict on that record
        if self.clean_unit is None:
            self.clean_unit = self._find_clean_unit(rej)
        seen_file = set()
        for rid, clause in sorted(rej.items()):
            sid, cfg, omode, e, unit = self.info[rid]
            sset = self.sets[sid]
            if clause == "excluded.folded":
                continue
            if clause.startswith("harness"):
                raise MachineryFailure("harness produced an inconsistent record (%s): %r" % (clause, {k: v for k, v in e.items() if k != "produced"}))
            case = {"set": {k: sset[k] for k in ("id", "roots", "files")}, "meta": {k: v for k, v in sset["meta"].items() if k != "world"},
                    "cfg": cfg, "omit": omode, "clause": clause}
            lang = CFGS[cfg][0]
            if clause == "gen.rc":
                err = to_s(e["err"])
                self.found.append((clause, lang, omode, diag_class(err),
                                   "generation of root namespace '%s' for %s (%s) raised %s" % (e["root"], cfg, omode, err), dict(case, root=e["root"])))
            elif clause == "inc.closure":
                f = to_s(e["file"])
                obs, prod = unit[0], unit[1]
                missing = sorted(i for i in obs.get(f, ()) if i not in prod)
                kind = "support" if any("support" in m for m in missing) else "type"
                self.found.append((clause, lang, omode, "refers to a %s file that is not produced" % kind,
                                   "%s (%s, %s) refers to %s; generating all involved namespaces produced only %s" % (f, cfg, omode, missing, sorted(prod)[:12]),
                                   dict(case, file=f)))
            else:
                f = to_s(e["file"])
                if (sid, cfg, omode, f) in seen_file:
                    continue  # same file rejected by another tool: one verdict per file, first tool in matrix order
                seen_file.add((sid, cfg, omode, f))
                diags = [to_s(e["diag"])] + [to_s(d) for d in e.get("more", [])]
                classes = set()
                for k, diag in enumerate(diags):
                    dc = diag_class(diag) or "rc=%d" % e["rc"]
                    if k == 0 and (e.get("cause") or "").startswith("decl:"):
                        dc = "a DSDL name that the standard or support library declares at that point is emitted unstropped"
                        diag = "%s  [the diagnosed line contains the DSDL identifier '%s', which the libraries included there declare]" % (diag, e["cause"][5:])
                    elif k == 0 and e.get("cause"):
                        dc = "a DSDL name that is a standard-library macro at that point is emitted unstropped"
                        diag = "%s  [the diagnosed line contains the DSDL identifier '%s', a macro here]" % (diag, e["cause"])
                    elif k == 0 and lang == "cpp" and shadowing_namespaces(sset) and _RE_LOOKUP.search(diag):
                        # structural attribution: only sets in which a NESTED namespace is spelled like a root namespace in play, only name-lookup diagnostics
                        dc = "a type reference written from the root namespace is looked up inside a nested namespace spelled like that root namespace"
                        diag = "%s  [nested namespaces spelled like a root namespace of the set: %s]" % (diag, ", ".join(shadowing_namespaces(sset)))
                    if dc in classes:
                        continue
                    classes.add(dc)
                    self.found.append((clause, target_of(cfg, e["tool"]), omode, dc,
                                       "%s generated for %s (%s) handed alone to %s: rc=%d, diagnostic: %s" % (f, cfg, omode, e["tool"], e["rc"], diag or "(none)"),
                                       dict(case, file=f, tool=e["tool"])))
        self.records = []
        self.info = {}
        return rej

    def _find_clean_unit(self, rej):
        for rid in range(len(self.records)):
            e = self.records[rid]
            if e["ev"] == "begin" and e.get("lang") == "c" and e.get("omit") == "ser":
                evs, k = [], rid
                while k < len(self.records) and (k == rid or self.records[k]["ev"] not in ("begin", "nop")):
                    evs.append(self.records[k])
                    k += 1
                if any(x["id"] in rej for x in evs):
                    continue
                if any(x["ev"] == "compile" and x["rc"] == 0 and not x["diag"] for x in evs) and \
                        any(x["ev"] == "refs" and x["includes"] and any("support" in to_s(i) for i in x["includes"]) for x in evs):
                    return [dict(x) for x in evs]
        return None

    def report(self, only=None):
        """a failure that shows with support enabled AND omitted is one finding ("any"), otherwise the mode is part of the signature.
        only: the case of a replay (one unit is re-run: the recorded clause / file / mode label are kept)"""
        self.judge()
        modes = {}
        for clause, target, omode, dc, what, case in self.found:
            modes.setdefault((clause, target, dc), set()).add(omode)
        for clause, target, omode, dc, what, case in self.found:
            m = "any" if len(modes[(clause, target, dc)]) > 1 else omode
            if only is not None:
                if clause != only.get("clause") or case.get("file") != only.get("file"):
                    continue
                m = only.get("sigmode", m)
            self.ctx.violation("C06|%s|%s|%s|%s" % (clause, target, m, dc), what, dict(case, sigmode=m))


design_supgen = {}  # target -> observed SupportGen (set by run())


def compare_prediction(ctx, camp, sset, cfgs, omodes):
    """I-layer prediction (produced files after every Generate step, references of every file) vs. what was observed
    (P is judged elsewhere): difference = drift"""
    world = sset["meta"]["world"]
    for cfg in cfgs:
        for omode in omodes:
            key = (sset["id"], cfg, omode)
            if key not in camp.observed or omode not in ("ser", "omit"):
                continue
            obs, prod, steps = camp.observed[key]
            pred = predicted_refs(world, cfg, omode == "omit")
            # after every Generate(root, omit) step: the files the model says exist by then
            support = {"c": "nunavut/support/serialization.h", "cpp": "nunavut/support/serialization.hpp", "py": "nunavut_support.py"}[CFGS[cfg][0]]
            sup_gen = omode != "omit" or design_supgen.get(CFGS[cfg][0]) == "always"
            done = set()
            for root, files in steps:
                done.add(root)
                exp_files = {f for f in pred if f.split("/")[0] in done} | ({support} if sup_gen else set())
                if files != exp_files:
                    return "%s %s %s: after generating %s the output directory holds %s, the model predicts %s" % (
                        sset["id"], cfg, omode, sorted(done), sorted(files), sorted(exp_files))
            for f, exp in pred.items():
                got = obs.get(f)
                if got is None:
                    return "%s %s %s: predicted file %s was not produced (produced: %s)" % (sset["id"], cfg, omode, f, sorted(prod)[:8])
                if got != exp:
                    return "%s %s %s: %s refers to %s, the model predicts %s" % (sset["id"], cfg, omode, f, sorted(got), sorted(exp))
    return None


def observe_design(ctx, tools):
    """design parameters of the closure model, observed from the real generator per target (one tiny type, omit on)"""
    sset = {"id": "probe", "roots": ["pr"], "files": {"pr/P.1.0.dsdl": "uint8 a\n@sealed\n"}, "meta": {"src": "probe", "key": "probe"}}
    job = {"set": sset, "dir": str(ctx.scratch / "sets" / "probe"), "units": [(c, "omit") for c in ("c", "cpp14", "py")], "tools": tools,
           "compile": False}
    r = run_jobs(ctx, [job])[0]
    res = {}
    for u in r["units"]:
        prod = set()
        refs = {}
        for e in u["events"]:
            if e["ev"] == "gen":
                prod |= {to_s(p) for p in e["produced"]}
            if e["ev"] == "refs":
                refs[to_s(e["file"])] = {to_s(i) for i in e["includes"]}
        tf = [f for f in prod if "/P_1_0" in f]
        if len(tf) != 1:
            raise MachineryFailure("design probe: cannot find the type file among %s" % sorted(prod))
        sup_ref = any("support" in i for i in refs.get(tf[0], ()))
        sup_gen = any("support" in f for f in prod)
        res[CFGS[u["cfg"]][0]] = {"SupportRef": "always" if sup_ref else "unless_omitted", "SupportGen": "always" if sup_gen else "unless_omitted"}
    return res


STATIC_CFGS = {
    # (RefStyle, SupportRef, SupportGen) -> (quick cfg, thorough cfg) in /verif/specs
    ("file", "unless_omitted", "unless_omitted"): ("Includes", "Includes_4"),
    ("package", "always", "unless_omitted"): ("Includes_py", "Includes_py"),
    ("package", "always", "always"): ("Includes_pyfixed", "Includes_pyfixed"),
    ("file", "always", "unless_omitted"): ("Includes_neg_support", "Includes_neg_support"),
}


def model_cfg(ctx, name, *, N, nested, style="file", supref="unless_omitted", supgen="unless_omitted"):
    """a configuration for a design that has no static .cfg in /verif/specs (the observed parameters decide)"""
    d = ctx.scratch / "cfg"
    d.mkdir(exist_ok=True)
    consts = {"N": N, "NRoots": 2, "NestedRoots": nested, "RefStyle": '"%s"' % style, "SupportRef": '"%s"' % supref, "SupportGen": '"%s"' % supgen,
              "ScanResponse": "TRUE", "ScanArrays": "TRUE", "EmitWorlds": "FALSE"}
    return tlc.write_cfg(d / (name + ".cfg"), spec="Spec", post=None, constants=consts, invariants=["TypeOK", "Closure", "SelfSufficient"])


def run_models(ctx, design):
    spec = tlc.SPECS / "Includes.tla"
    predicted = {}
    done = {}
    for lang in ("c", "cpp", "py"):
        d = design[lang]
        style = "package" if lang == "py" else "file"
        key = (style, d["SupportRef"], d["SupportGen"])
        if key in done:
            predicted[lang] = done[key]
            continue
        if key in STATIC_CFGS:
            cfgname = STATIC_CFGS[key][0 if ctx.quick else 1]
            cfg = tlc.SPECS / (cfgname + ".cfg")
        else:
            cfgname = "observed design of " + lang
            cfg = model_cfg(ctx, "design_" + lang, N=3, nested="{1}", style=style, supref=d["SupportRef"], supgen=d["SupportGen"])
        consts = "%s: RefStyle=%s SupportRef=%s SupportGen=%s" % (cfgname, *key)
        res = tlc.run_tlc(spec, cfg, ctx.scratch, timeout=3000, constants=consts)
        if res.ok:
            ctx.add_model(res, "Includes.tla / %s.cfg (design observed for %s)" % (cfgname, lang))
            predicted[lang] = None
        elif res.violated == "Closure":
            # a design-level finding predicted by the model: the replay below must exhibit it on the real code (only that is a verdict)
            ctx.cov["states"] += res.distinct
            ctx.cov["transitions"] += res.generated
            ctx.cov["model_runs"].append({"spec": "Includes.tla / %s.cfg (design observed for %s)" % (cfgname, lang), "generated": res.generated,
                                          "distinct": res.distinct, "depth": res.depth, "wall_s": round(res.wall, 1), "mode": "exhaustive",
                                          "constants": consts, "result": "invariant Closure REFUTED for the observed design"})
            predicted[lang] = "Closure"
        else:
            raise MachineryFailure("Includes.tla (%s design, %s) failed: %s %s\n%s" % (lang, cfgname, res.error, res.violated, res.out[-2500:]))
        done[key] = predicted[lang]
    # negative controls: the invariants are not vacuous
    for cfgname, inv in (("Includes_neg_support", "Closure"), ("Includes_neg_response", "SelfSufficient"), ("Includes_neg_arrays", "SelfSufficient"),
                         ("Includes_py", "Closure")):
        res = tlc.run_tlc(spec, tlc.SPECS / (cfgname + ".cfg"), ctx.scratch, timeout=1200)
        if res.violated != inv:
            raise MachineryFailure("negative control %s: expected invariant %s to be refuted, got %s %s" % (cfgname, inv, res.violated, res.error))
    ctx.cov["model_negative_controls"] = ["support referred although omitted -> Closure refuted", "response attributes not scanned -> SelfSufficient refuted",
                                          "array elements not scanned -> SelfSufficient refuted", "package style + support always referred -> Closure refuted"]
    return predicted


def emit_worlds(ctx, design):
    """spec -> code: every world of the bounded design"""
    worlds = tlc.emit_cases(ctx, "Includes", "Includes_emit", name="Includes.tla / Includes_emit.cfg (world emission)",
                            constants="N=3 NRoots=2 NestedRoots={1}", timeout=3000)
    if len(worlds) < 1000:
        raise MachineryFailure("too few worlds emitted: %d" % len(worlds))
    return worlds


def emit_names(ctx):
    cfgname = ctx.pick("IncludesNames", "IncludesNames_t")
    cases = tlc.emit_cases(ctx, "IncludesNames", cfgname, name="IncludesNames.tla / %s.cfg" % cfgname, constants="MaxWords=%d" % ctx.pick(3, 28), timeout=1200)
    if len(cases) < 200:
        raise MachineryFailure("too few name cases emitted: %d" % len(cases))
    return cases


def select_name_cases(ctx, cases):
    """quick: a deterministic covering subset - every (position, class) with the kind rotating, and every (kind, position) for the
    positions the kind-specific templates treat differently with class and word rotating - independent of the seed.
    thorough: the whole product for the first word of every class, every further word with the kind rotating.
    The attribute type of a field case rotates with the class / kind so that every class meets every attribute type."""
    cases = sorted(cases, key=lambda c: (c["pos"], c["cls"], c["w"], c["kind"], c["ft"]))
    clss = sorted({c["cls"] for c in cases})
    kinds = sorted({c["kind"] for c in cases if c["kind"] != "empty"})

    def ft_is(c, idx):
        return c["pos"] != "field" or c["ft"] == FT_ORDER[idx % len(FT_ORDER)]

    if not ctx.quick:
        res = []
        by = {}
        for c in cases:
            if c["w"] <= 1:
                ci, fi = clss.index(c["cls"]), (FT_ORDER.index(c["ft"]) if c["ft"] in FT_ORDER else 0)
                # every (class, kind) with the attribute type rotating + every (class, attribute type) with the kind rotating
                if c["pos"] != "field" or ft_is(c, ci + kinds.index(c["kind"])) or c["kind"] == kinds[(ci + fi) % len(kinds)]:
                    res.append(c)
            else:
                by.setdefault((c["pos"], c["cls"], c["w"]), []).append(c)
        for n, (k, lst) in enumerate(sorted(by.items())):
            res.append(lst[(n * 7) % len(lst)])
        return res
    by = {}
    for c in cases:
        if c["w"] == 1 and ft_is(c, clss.index(c["cls"])):
            by.setdefault((c["pos"], c["cls"]), []).append(c)
    sel = {}

    def put(c):
        sel[(c["pos"], c["cls"], c["w"], c["kind"], c["ft"])] = c

    for n, (k, lst) in enumerate(sorted(by.items())):
        if k[0] == "field":  # the plain structure is the main path of a field; the other kinds meet fields in the loop below
            lst = [c for c in lst if c["kind"] == "struct"] or lst
        put(lst[n % len(lst)])
    by2 = {}
    for c in cases:
        if c["pos"] in ("type", "field", "const") and (c["kind"] == "empty" or ft_is(c, kinds.index(c["kind"]) + 2)):
            by2.setdefault((c["kind"], c["pos"]), []).append(c)  # the positions the kind-specific templates treat differently
    for n, (k, lst) in enumerate(sorted(by2.items())):
        lst = [c for c in lst if c["w"] == 2 + n % 2] or lst
        put(lst[(n * 5) % len(lst)])
    return [sel[k] for k in sorted(sel)]


def word_for(case, rotate):
    """rotate > 0 (quick tier, few word indices): different positions see different words of a class; rotate = 0: word w of the class"""
    lst = WORDS[case["cls"]]
    off = {"ns": 0, "nested_ns": 1, "type": 2, "field": 3, "const": 4}[case["pos"]]
    n = len(lst)
    if case["w"] > n:
        return None
    return lst[((case["w"] - 1) + off * rotate) % n]


def cfgs_for(ctx, case, word):
    """thorough tier, words beyond the first of a class: the targets for which the class of the name is special"""
    if case["pos"] == "ns" and word in PY_STDLIB:
        return [c for c in ALL_CFGS if c != "py"]  # see PY_STDLIB
    if ctx.quick or case["w"] <= 1 or case["cls"] in ("plain", "case"):
        return ALL_CFGS
    if case["cls"] in ("py_kw", "py_builtin"):
        return ["py"]
    return ["c", "cpp14", "cpp17", "cpp17pmr", "cpp20"]


def mkjob(ctx, sset, units, tools, compile_=True, keep=False, light=None):
    """light: (path prefix, configurations or None) of files that are compiled with every other tool of the matrix only (dependants)"""
    return {"set": sset, "dir": str(ctx.scratch / "sets" / sset["id"]), "units": units, "tools": tools, "compile": compile_, "keep": keep,
            "light": light}


ALL_CFGS = ["c", "cpp14", "cpp17", "cpp17pmr", "cpp20", "py"]


def run(ctx):
    for t in ("gcc", "g++", "clang", "clang++", "java"):
        if not shutil.which(t):
            raise MachineryFailure("%s is not installed" % t)
    try:
        import numpy  # noqa: F401
    except ImportError:
        raise MachineryFailure("numpy is not importable (run ./setup.sh)")
    cflags, cxxflags, flagsrc = read_flag_sets()
    ctx.cov["flag_set"] = {"source": flagsrc, "c": cflags, "cxx_only": cxxflags}
    tools = tool_matrix(full=not ctx.quick)
    # the flag set itself must be accepted silently by every tool on an empty header (else the flags are the problem: machinery)
    probe_dir = ctx.scratch / "flagprobe"
    probe_dir.mkdir()
    (probe_dir / "e.h").write_text("#ifndef E_H\n#define E_H\ntypedef int e_h_t;\n#endif\n")
    (probe_dir / "tu.src").write_text('#include "e.h"\n')
    for cfg, lst in tools.items():
        for tid, argv in lst:
            if argv is None:
                continue
            p = subprocess.run(argv + ["-fsyntax-only", "-I", str(probe_dir), str(probe_dir / "tu.src")], stdout=subprocess.PIPE, stderr=subprocess.STDOUT, text=True)
            if p.returncode != 0 or p.stdout.strip():
                raise MachineryFailure("the flag set is not accepted silently by %s: %s" % (tid, p.stdout[:400]))

    # ---- 1. the bounded design, with the design parameters observed from the real generator
    design = observe_design(ctx, tools)
    ctx.cov["observed_design"] = design
    design_supgen.update({k: v["SupportGen"] for k, v in design.items()})
    predicted = run_models(ctx, design)

    camp = Campaign(ctx)
    omodes = ["ser", "omit"]
    # the support files are the same in every set (they depend on the configuration only): compiled alone here, once per tool
    sup = {"id": "s-support", "roots": ["sp"], "files": {"sp/P.1.0.dsdl": "uint8 a\n@sealed\n"}, "meta": {"src": "support", "key": "support"}}
    sjob = mkjob(ctx, sup, [(cfg, m) for cfg in ALL_CFGS for m in omodes], tool_matrix(full=True))
    sjob["compile_support"] = True
    camp.add(sup, run_jobs(ctx, [sjob])[0])

    # ---- 2. spec -> code: worlds of the model
    worlds = emit_worlds(ctx, design)
    stride = ctx.pick(max(1, len(worlds) // 160), max(1, len(worlds) // 2400))
    chosen = [(i, w) for i, w in enumerate(worlds) if i % stride == 0]
    wjobs, wsets = [], []
    for n, (i, w) in enumerate(chosen):
        sset = world_set(w, i)
        cfgs = ALL_CFGS if n % ctx.pick(13, 5) == 0 else ["c", "cpp17", "py"]
        modes = omodes
        do_compile = n % ctx.pick(8, 16) == 0
        wsets.append((sset, cfgs, modes))
        wjobs.append(mkjob(ctx, sset, [(c, m) for c in cfgs for m in modes], tools, compile_=do_compile))
    for (sset, cfgs, modes), r in zip(wsets, run_jobs(ctx, wjobs)):
        if not r["accepted"]:
            raise MachineryFailure("the front end rejected a world of the model: %s (%s)" % (sset["id"], r["why"]))
        camp.add(sset, r, keep_observed=True)
        ctx.distinct(sset["meta"]["key"], nontrivial=any(t["deps"] and any(v != "none" for v in t["deps"]) for t in sset["meta"]["world"]["types"]))
    camp.judge()
    ndrift = 0
    for sset, cfgs, modes in wsets:
        d = compare_prediction(ctx, camp, sset, cfgs, modes)
        if d:
            ndrift += 1
            ctx.drift("references differ from the I-layer prediction: " + d)
    ctx.cov["worlds"] = {"emitted": len(worlds), "replayed": len(chosen), "prediction_mismatches": ndrift}
    if chosen:
        i, w = chosen[len(chosen) // 2]
        ss = world_set(w, i)
        obs = camp.observed.get((ss["id"], "c", "ser"))
        ctx.sample({"direction": "spec->code", "world": w, "dsdl": ss["files"], "observed_refs_c": {k: sorted(v) for k, v in (obs[0] if obs else {}).items()}})

    # ---- 3. spec -> code: the name universe
    cases = emit_names(ctx)
    sel = select_name_cases(ctx, cases)
    njobs, nsets = [], []
    seen = set()
    for n, c in enumerate(sel):
        w = word_for(c, ctx.pick(3, 0))
        if w is None:
            continue
        sset = name_case_set(c, w)
        if sset["id"] in seen:
            continue
        seen.add(sset["id"])
        nsets.append(sset)
        njobs.append(mkjob(ctx, sset, [(cfg, m) for cfg in cfgs_for(ctx, c, w) for m in omodes], tools if c["w"] <= 1 else tool_matrix(full=False),
                           light=("uroot/", ("c", "cpp14", "cpp17pmr") if ctx.quick else None)))
    # two distinct DSDL names that the C / C++ stropping folds onto one identifier: excluded by the property (Includes!Folded) for those
    # targets, judged as usual for Python (if_ and _if stay distinct)
    fold = {"id": "n-folded", "roots": ["hroot"], "files": {"hroot/Host.1.0.dsdl": "uint8 if\nuint16 _if\n@sealed\n"},
            "meta": {"src": "names", "pos": "field", "cls": "folded", "kind": "struct", "word": "if/_if", "key": "field|folded|struct|if/_if"}}
    nsets.append(fold)
    njobs.append(mkjob(ctx, fold, [(cfg, m) for cfg in ("c", "cpp14", "py") for m in omodes], tools))
    for sset, r in zip(nsets, run_jobs(ctx, njobs)):
        camp.add(sset, r)
        if r["accepted"]:
            ctx.distinct(sset["meta"]["key"], nontrivial=sset["meta"]["cls"] != "plain" or sset["meta"]["kind"] != "struct")
    ctx.cov["name_universe"] = {"emitted": len(cases), "selected": len(nsets),
                                "rejected_by_front_end": sorted({k for _, k, _ in camp.not_accepted if k and not k.startswith(("rand", "repo"))})[:60]}
    if nsets:
        s = nsets[len(nsets) // 3]
        ctx.sample({"direction": "spec->code", "name_case": s["meta"], "dsdl": s["files"]})
    camp.judge()

    # ---- 3b. every keyword of the target languages at once (complete fixed lists, not the generator's configuration)
    bsets = bulk_sets(ctx)
    bjobs = [mkjob(ctx, bs, [(cfg, m) for cfg in cfgs for m in omodes], tool_matrix(full=False)) for bs, cfgs in bsets]
    for (bs, cfgs), r in zip(bsets, run_jobs(ctx, bjobs)):
        if not r["accepted"]:
            raise MachineryFailure("the front end rejected a bulk keyword set although it accepted every word alone: %s (%s)" % (bs["meta"]["key"], r["why"]))
        camp.add(bs, r)
        ctx.distinct(bs["meta"]["key"])
    ctx.cov["bulk_keyword_sets"] = [{"key": bs["meta"]["key"], "configurations": cfgs} for bs, cfgs in bsets]
    wide = wide_set()
    shp = shapes_set()
    bnd = boundary_set()
    dcs = docs_set()
    shw = shadow_set()
    wr, sr, br, dr, hr = run_jobs(ctx, [mkjob(ctx, wide, [(cfg, m) for cfg in ("c", "cpp17", "py") for m in omodes], tool_matrix(full=False)),
                                        mkjob(ctx, shp, [(cfg, m) for cfg in ALL_CFGS + OPTION_CFGS for m in omodes], tools),
                                        mkjob(ctx, bnd, [(cfg, "ser") for cfg in ["c", "cpp14", "py"] + OPTION_CFGS], tool_matrix(full=False)),
                                        mkjob(ctx, dcs, [(cfg, "ser") for cfg in ALL_CFGS], tools),
                                        mkjob(ctx, shw, [(cfg, m) for cfg in ALL_CFGS for m in omodes], tool_matrix(full=False))])
    for xs, xr in ((dcs, dr), (shw, hr)):
        if not xr["accepted"]:
            raise MachineryFailure("the front end rejected the set %s: %s" % (xs["id"], xr["why"]))
        camp.add(xs, xr)
        ctx.distinct(xs["meta"]["key"])
    if not br["accepted"]:
        raise MachineryFailure("the front end rejected the set of boundary shapes: %s" % br["why"])
    camp.add(bnd, br)
    ctx.distinct(bnd["meta"]["key"])
    if wr["accepted"]:
        camp.add(wide, wr)
        ctx.distinct(wide["meta"]["key"])
    if not sr["accepted"]:
        raise MachineryFailure("the front end rejected the set of extreme structures: %s" % sr["why"])
    camp.add(shp, sr)
    ctx.distinct(shp["meta"]["key"])
    camp.judge()

    # ---- 4. code -> spec: larger random sets and the trees shipped in the repository
    rsets = [random_set(ctx.rng, i) for i in range(ctx.pick(8, 30))]
    usets = repo_sets()
    rjobs = [mkjob(ctx, s, [(cfg, m) for cfg in ALL_CFGS for m in omodes], tools) for s in rsets]
    rjobs += [mkjob(ctx, s, [(cfg, m) for cfg in (ALL_CFGS if not ctx.quick else ["c", "cpp14", "cpp17pmr", "py"]) for m in omodes], tools) for s in usets]
    nacc = 0
    for sset, r in zip(rsets + usets, run_jobs(ctx, rjobs)):
        camp.add(sset, r)
        if r["accepted"]:
            nacc += 1
            ctx.distinct(sset["meta"]["key"])
    ctx.cov["random_and_repo_sets"] = {"random": len(rsets), "repo_trees": len(usets), "accepted_by_front_end": nacc}
    if nacc < (len(rsets) + len(usets)) // 3:
        raise MachineryFailure("too few random / repository sets were accepted by the front end: %d of %d" % (nacc, len(rsets) + len(usets)))

    # ---- 5. the T-layer judged every portion that was recorded; verdicts
    camp.report()
    for lang, inv in predicted.items():
        if inv:
            hit = [v for v in ctx.violations if v[0].startswith("C06|inc.closure|%s|" % lang)] + [s for s in ctx.known_hit if s.startswith("C06|inc.closure|%s|" % lang)]
            if not hit:
                ctx.drift("the model refutes %s for the design observed for %s, but no recorded execution violated inc.closure" % (inv, lang))
    ctx.cov["units"] = camp.nunits
    ctx.cov["compiles"] = camp.ncompiles
    ctx.cov["excluded_units_folded_names"] = len(camp.excluded)
    ctx.cov["sets_rejected_by_front_end"] = len(camp.not_accepted)

    # ---- 6. binding self-tests
    selftests(ctx, camp)

    ctx.cov["rule"] = ("spec->code: worlds of Includes.tla (N=3, 2 roots, nested namespace; every %d-th of %d) and name cases of IncludesNames.tla "
                       "(%s) materialised as DSDL, generated by the real code for c / cpp x {c++14,c++17,c++17-pmr,c++20} / py x support "
                       "{enabled, omitted}, every produced file handed alone to the tools; code->spec: seeded random sets (<=10 types, <=3 roots, "
                       "depth<=3) and the DSDL trees of the repository; distinct = world / name case / set key; non-trivial = world with at least "
                       "one dependency, name case other than plain-name struct" % (stride, len(worlds), "whole product" if not ctx.quick else "covering subset"))
    ctx.cov["exhaustive"] = False
    ctx.assumptions += [
        "TLC and the Includes / IncludesNames / IncludesTrace specifications",
        "gcc 12 / clang 14 / CPython 3.12 + numpy as the judges of 'compiles / imports without diagnostics' (-fsyntax-only; flag set %s)" % flagsrc,
        "pydsdl as the front end that decides which inputs are valid",
        "an #include is a reference to a generated artifact unless it names a header of the C11 / C++20 standard library; an import unless "
        "it names the Python standard library, numpy or pydsdl",
    ]
    ctx.ambiguous("C header inside a C++ TU with clang++: -Wzero-as-null-pointer-constant fires on every `ptr == NULL` of the C code (g++ is "
                  "silent).  The project relaxes its C++ set for C code in C++ TUs (-Wno-old-style-cast, verification/CMakeLists.txt) because C "
                  "cannot satisfy it; NULL is the same kind of diagnostic, so clang++ extern-C compiles add -Wno-zero-as-null-pointer-constant.")
    ctx.not_exercised("cetl++14-17 flavour (CETL submodule is empty offline); 32-bit targets (-m32); linking / execution of the generated code")
    ctx.not_exercised("root namespaces named like a module of the Python standard library (e.g. operator): the generated package would shadow "
                      "the library module; such names are neither keywords nor reserved patterns and are not explored for the Python target")
    if ctx.quick:
        ctx.not_exercised("quick tier: covering subset of the name universe, every %d-th world, reduced compiler matrix for c++17/20" % stride)


def selftests(ctx, camp):
    """corrupt one recorded field per clause: the T-layer must reject exactly that record"""
    unit = camp.clean_unit
    if unit is None:
        raise MachineryFailure("self-test: no clean C unit with references and compile events was recorded")

    def variant(mut):
        recs = [dict(e) for e in unit]
        target = mut(recs)
        for n, e in enumerate(recs):
            e["id"] = n
        return recs, target

    def m_closure(recs):
        for n, e in enumerate(recs):
            if e["ev"] == "refs" and e["includes"]:
                e["includes"] = e["includes"] + [cps("ghost/Missing_1_0.h")]
                return n

    def m_rc(recs):
        for n, e in enumerate(recs):
            if e["ev"] == "compile" and e["rc"] == 0:
                e["rc"] = 1
                return n

    def m_diag(recs):
        for n, e in enumerate(recs):
            if e["ev"] == "compile" and e["rc"] == 0:
                e["diag"] = cps("x.h:1:1: warning: something")
                return n

    def m_gen(recs):
        for n, e in enumerate(recs):
            if e["ev"] == "gen":
                e["rc"] = 1
                return n

    def m_unproduced(recs):
        # drop the support header from what the runs produced: every file that refers to it must be rejected
        for e in recs:
            if e["ev"] == "gen":
                e["produced"] = [p for p in e["produced"] if "support" not in to_s(p)]
        for n, e in enumerate(recs):
            if e["ev"] == "refs" and any("support" in to_s(i) for i in e["includes"]) and "support" not in to_s(e["file"]):
                return n

    def m_folded(recs):
        recs[0]["groups"] = [[{"raw": cps("if"), "strop": cps("_if")}, {"raw": cps("_if"), "strop": cps("_if")}]]
        m_rc(recs)
        return 0

    tests = (("an include of a file that was not produced is rejected (inc.closure)", m_closure, "inc.closure", True),
             ("a non-zero compiler exit status is rejected (build.rc)", m_rc, "build.rc", True),
             ("a diagnostic with exit status 0 is rejected (build.diag)", m_diag, "build.diag", True),
             ("a failed generator run is rejected (gen.rc)", m_gen, "gen.rc", True),
             ("support header removed from the produced set: the referring file is rejected (inc.closure)", m_unproduced, "inc.closure", False),
             ("the uncorrupted unit is accepted", lambda r: None, None, True),
             ("folded names exclude the unit instead of judging it (Folded)", m_folded, "excluded.folded", True))
    allrecs, expect = [], []
    for name, mut, clause, exact in tests:
        recs, target = variant(mut)
        base = len(allrecs)
        for e in recs:
            e["id"] += base
        allrecs += recs
        expect.append((name, clause, None if target is None else base + target, range(base, base + len(recs)), exact))
    before = ctx.cov["traces_validated_against_impl"]
    st, tr = ctx.cov["states"], ctx.cov["transitions"]
    rej = tlc.validate_traces(ctx, "IncludesTrace", allrecs, batch=len(allrecs) + 1, constants=TRACE_CONSTANTS, xmx="1g")
    ctx.cov["traces_validated_against_impl"] = before
    ctx.cov["states"], ctx.cov["transitions"] = st, tr
    for name, clause, target, ids, exact in expect:
        mine = {k: v for k, v in rej.items() if k in ids}
        if clause is None:
            ctx.selftest(name, not mine)
        else:
            ctx.selftest(name, target is not None and mine.get(target) == clause and (len(mine) == 1 or not exact))
    # spec -> code: perturb one expected outcome, the comparison must report it
    for sid, sset in camp.sets.items():
        if sset["meta"].get("src") == "world" and (sid, "c", "ser") in camp.observed and any(t["direct"] for t in sset["meta"]["world"]["types"]):
            w = json.loads(json.dumps(sset["meta"]["world"]))
            for t in w["types"]:
                if t["direct"]:
                    t["direct"] = t["direct"][1:]
                    break
            fake = dict(sset)
            fake["meta"] = dict(sset["meta"], world=w)
            ok_before = compare_prediction(ctx, camp, sset, ["c"], ["ser"])
            ctx.selftest("a perturbed predicted reference set is reported by the replay comparison",
                         compare_prediction(ctx, camp, fake, ["c"], ["ser"]) is not None and ok_before is None)
            break
    else:
        raise MachineryFailure("self-test: no world with a dependency was replayed")


def replay(ctx, case):
    sset = dict(case["set"])
    sset["meta"] = dict(case.get("meta", {}), key="replay")
    tools = tool_matrix(full=True)
    camp = Campaign(ctx)
    job = mkjob(ctx, sset, [(case["cfg"], case["omit"])], tools)
    r = run_jobs(ctx, [job])[0]
    camp.add(sset, r)
    if not r["accepted"]:
        print("replay: the front end does not accept this input any more (%s)" % r["why"])
        return
    camp.report(only=case)
