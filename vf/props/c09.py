"""C09 - identifier stropping always yields valid, unreserved, deterministic identifiers.

Model:   specs/Stropping.tla.  P-layer: GoodAnswer (valid /\\ ~reserved \\/ error; identity on already-valid-unreserved) and
         Deterministic (memo).  I-layer: TokenEncoder.strop stage by stage (Encode, StropKw, StropPat, RecheckPat, HandlerPat,
         RecheckKw, HandlerKw, RecheckEnc, HandlerEnc, [Verify*], Return, Reask*) with the handlers of lang/c and lang/cpp,
         parametrised by the configuration DATA the harness reads from the live language objects on every run (reserved
         identifiers, reserved patterns and encoding rules as regex syntax trees evaluated by the spec's own matcher, affixes).
         TLC explores all inputs of length 1..MaxLen over a 15-symbol alphabet x 6 categories x 24 configurations (3 default +
         7 override classes per language) and evaluates P on every terminal state.
spec->code: every terminal state of the model (question, predicted stage trace, predicted answer, P's opinion of it) is replayed
         through the real Language.filter_id (public) and through a stage-instrumented TokenEncoder.  An answer equal to a
         P-approved prediction is accepted by the model run itself; everything else goes to the T-layer.  Differences from the
         prediction are drift notes.
code->spec: every configured reserved word with prefixed/suffixed/cased variants, all single ASCII/pool characters,
         pattern-shaped strings, seeded random unicode strings x categories x languages x configuration overrides (other/empty
         prefix+suffix, other encoding prefix, added reserved identifiers and patterns); each question is asked repeatedly (cache
         hit, after lru_cache eviction, on a fresh language object, in a second process with another PYTHONHASHSEED);
         specs/StroppingTrace.tla (P-layer operators) judges every record, and cross-checks its regex matcher against Python's.
"""
import copy
import gc
import json
import keyword
import os
import re
import subprocess
import sys
import threading
import unicodedata

from ..core import MachineryFailure, SPECS, sha
from .. import tlc

KINDS = ["any", "path", "macro", "typedef", "function", "enum"]
LANGS = ["c", "cpp", "py"]

# abstract alphabet of the model: keywords (if, in, int, to, not, for...), reserved patterns (_A, __, E1, EA, to[a-z], int..._t),
# encodable characters (space, punctuation, leading digit) and four kinds of non-ASCII: a letter, a \w-but-not-identifier
# character, a fullwidth letter whose NFKC form is ASCII, a symbol.
ALPHA = [ord(c) for c in "ifntoAE1_ -"] + [0xE9, 0xB2, 0xFF49, 0x2764]
# non-ASCII pool for random strings (letters, digits of other scripts, superscripts, fullwidth, combining, spaces, symbols, astral)
POOL = [0xE9, 0xB2, 0xFF49, 0x2764, 0xDF, 0x130, 0x149, 0x3A3, 0x4E2D, 0x663, 0x96F, 0xFF11, 0x2460, 0xB9, 0xBD, 0x301, 0x200D, 0x200B,
        0xA0, 0x2003, 0x3000, 0x85, 0x2028, 0x1F600, 0x1D7D8, 0x10400, 0xAA, 0x2118, 0x212E, 0x387, 0xB7, 0x37A, 0xFE33, 0xFF3F, 0x203F,
        0xD800, 0xFFFD, 0x7F, 0x1C, 0xAD]
ASCII_PUNCT = [ord(c) for c in " \t\n\r!\"#$%&'()*+,-./:;<=>?@[\\]^`{|}~"]

# Reserved words of the LANGUAGES, independent of the tree under test (never read from properties.yaml / nunavut):
# ISO/IEC 9899:2011 6.4.1 and ISO/IEC 14882:2020 [lex.key] + alternative tokens [lex.digraph]; Python: the running interpreter.
C11_KEYWORDS = """auto break case char const continue default do double else enum extern float for goto if inline int long register
restrict return short signed sizeof static struct switch typedef union unsigned void volatile while _Alignas _Alignof _Atomic _Bool
_Complex _Generic _Imaginary _Noreturn _Static_assert _Thread_local""".split()
CXX20_KEYWORDS = """alignas alignof asm auto bool break case catch char char8_t char16_t char32_t class concept const consteval constexpr
constinit const_cast continue co_await co_return co_yield decltype default delete do double dynamic_cast else enum explicit export
extern false float for friend goto if inline int long mutable namespace new noexcept nullptr operator private protected public
register reinterpret_cast requires return short signed sizeof static static_assert static_cast struct switch template this
thread_local throw true try typedef typeid typename union unsigned using virtual void volatile wchar_t while
and and_eq bitand bitor compl not not_eq or or_eq xor xor_eq""".split()


def language_oracle(lang):
    if lang == "py":
        import builtins
        return sorted(set(keyword.kwlist) | set(dir(builtins)))
    return sorted(set(C11_KEYWORDS if lang == "c" else CXX20_KEYWORDS))


_CC = {}


def compiler_accepts(lang, tok):
    """P-level oracle for Python: the real compiler takes the token as attribute, class-level name and local name"""
    if lang != "py":
        return True
    r = _CC.get(tok)
    if r is None:
        try:
            compile("class X:\n  def __init__(self):\n    self.%s = 0\n    %s = self.%s\n  %s = 1\n" % (tok, tok, tok, tok), "<c09>", "exec")
            r = True
        except Exception:
            r = False
        if len(_CC) > 400000:
            _CC.clear()
        _CC[tok] = r
    return r


# ---------------------------------------------------------------------------------------------------------------------
# regular expression -> syntax tree for the spec's matcher
# ---------------------------------------------------------------------------------------------------------------------
class Unsupported(Exception):
    pass


def _sre():
    try:
        import re._parser as sp
        import re._constants as sc
    except ImportError:  # python < 3.11
        import sre_parse as sp
        import sre_constants as sc
    return sp, sc


def rx_ast(pattern):
    sp, sc = _sre()
    tree = sp.parse(pattern)
    if tree.state.flags & ~re.UNICODE:
        raise Unsupported("flags in %r" % pattern)
    cats = {sc.CATEGORY_DIGIT: "d", sc.CATEGORY_NOT_DIGIT: "D", sc.CATEGORY_SPACE: "s", sc.CATEGORY_NOT_SPACE: "S",
            sc.CATEGORY_WORD: "w", sc.CATEGORY_NOT_WORD: "W"}

    def cset(neg, rs, cs):
        return {"t": "set", "neg": neg, "rs": rs, "cats": cs}

    def seq(sub):
        out = []
        for op, av in sub:
            if op is sc.LITERAL:
                out.append({"t": "lit", "c": av})
            elif op is sc.NOT_LITERAL:
                out.append(cset(True, [[av, av]], []))
            elif op is sc.ANY:
                out.append(cset(True, [[10, 10]], []))
            elif op is sc.IN:
                neg, rs, cs = False, [], []
                for o, a in av:
                    if o is sc.NEGATE:
                        neg = True
                    elif o is sc.LITERAL:
                        rs.append([a, a])
                    elif o is sc.RANGE:
                        rs.append([a[0], a[1]])
                    elif o is sc.CATEGORY and a in cats:
                        cs.append(cats[a])
                    else:
                        raise Unsupported("%s in class of %r" % (o, pattern))
                out.append(cset(neg, rs, cs))
            elif op in (sc.MAX_REPEAT, sc.MIN_REPEAT):
                lo, hi, body = av
                inf = hi == sc.MAXREPEAT
                out.append({"t": "rep", "min": lo, "max": 0 if inf else hi, "inf": inf, "x": seq(body)})
            elif op is sc.SUBPATTERN:
                _, add_flags, del_flags, body = av
                if add_flags or del_flags:
                    raise Unsupported("scoped flags in %r" % pattern)
                out.append({"t": "alt", "bs": [seq(body)]})
            elif op is sc.BRANCH:
                out.append({"t": "alt", "bs": [seq(b) for b in av[1]]})
            elif op is sc.AT and av in (sc.AT_BEGINNING, sc.AT_BEGINNING_STRING):
                out.append({"t": "bol"})
            elif op is sc.AT and av is sc.AT_END:
                out.append({"t": "eol"})
            elif op is sc.AT and av is sc.AT_END_STRING:
                out.append({"t": "eos"})
            else:
                raise Unsupported("%s in %r" % (op, pattern))
        return out

    return seq(tree)


def rx_simple(pattern):
    """True when leftmost-longest (what the I-layer's Sub does) is what Python's backtracking gives: no alternation, no lazy loops"""
    sp, sc = _sre()

    def ok(sub):
        for op, av in sub:
            if op in (sc.BRANCH, sc.MIN_REPEAT):
                return False
            if op is sc.MAX_REPEAT and not ok(av[2]):
                return False
            if op is sc.SUBPATTERN and not ok(av[3]):
                return False
        return True

    return ok(sp.parse(pattern))


# ---------------------------------------------------------------------------------------------------------------------
# configurations
# ---------------------------------------------------------------------------------------------------------------------
def cps(s):
    return [ord(c) for c in s]


def to_s(cp):
    return "".join(map(chr, cp))


def nfkc(s):
    return unicodedata.normalize("NFKC", s)


def mk_lang(lang, overrides=None):
    from nunavut.lang import LanguageContextBuilder

    b = LanguageContextBuilder(include_experimental_languages=True).set_target_language(lang)
    for k, v in (overrides or {}).items():
        b.set_target_language_configuration_override(k, copy.deepcopy(v))
    return b.create().get_target_language()


def override_specs():
    """(suffix of the id, class used in signatures, function(lang, base language object) -> override dict)"""

    def add_resv(ids=(), pats=None):
        def f(lang, base):
            ov = {}
            if ids:
                ov["reserved_identifiers"] = list(base.get_config_value_as_list("reserved_identifiers", [])) + list(ids)
            if pats:
                d = copy.deepcopy(base.get_config_value_as_dict("reserved_token_patterns_by_type", {}))
                for k, v in pats.items():
                    d[k] = list(d.get(k, [])) + list(v)
                ov["reserved_token_patterns_by_type"] = d
            return ov
        return f

    def const(d):
        return lambda lang, base: dict(d)

    def us(lang, base):  # added reserved names inside the space the stropping affix (and the c/c++ handlers) map into
        ov = add_resv(["if", "_if", "if_", "_a", "a_"], {"all": ["^__", "^_[a-z]"] if lang != "py" else ["^[a-z]+_$"]})(lang, base)
        if lang != "py":
            ov.update({"stropping_prefix": "_", "stropping_suffix": ""})
        else:
            ov.update({"stropping_prefix": "", "stropping_suffix": "_"})
        return ov

    return [
        ("default", "default", const({})),
        ("affix.xy", "affix", const({"stropping_prefix": "x_", "stropping_suffix": "_y"})),
        ("affix.swap", "affix", lambda lang, base: ({"stropping_prefix": "", "stropping_suffix": "_"} if lang != "py" else
                                                    {"stropping_prefix": "_", "stropping_suffix": ""})),
        ("affix.enc", "affix", const({"encoding_prefix": "_", "stropping_prefix": "E", "stropping_suffix": ""})),
        ("affix.noenc", "affix", const({"encoding_prefix": "", "stropping_prefix": "__", "stropping_suffix": ""})),
        ("empty", "empty-affix", const({"stropping_prefix": "", "stropping_suffix": ""})),
        ("resv.plain", "reserved+", add_resv(["too", "Ann", "zX"], {"all": ["^o[a-z]"], "function": ["^f[0-9]"], "path": ["^(tt|to)$"],
                                                                    "typedef": ["^[a-z]+_t$"]})),
        ("resv.us", "reserved+underscore", us),
        # rule FAMILIES are optional in a configuration: type-specific reserved patterns where no family for "all" exists (the python
        # configuration ships none; overrides are merged as unions, so c / c++ keep theirs) - every family must be honoured on its own
        ("resv.typed", "reserved+typed", add_resv([], {"attribute": ["^o[a-z]", "^(self|cls)$"], "path": ["^(tt|to)$"], "function": ["^f[0-9]"]})),
    ]


class Cfg:
    """One configuration in force: the live language object plus what the harness read back from it (public getters)."""

    def __init__(self, cid, lang, cls, overrides):
        self.cid, self.lang, self.cls, self.overrides = cid, lang, cls, overrides
        self.obj = mk_lang(lang, overrides)
        self.read(self.obj)

    def read(self, l):
        ids = [str(x) for x in l.get_config_value_as_list("reserved_identifiers", [])]
        ids += [str(x) for x in getattr(type(l), "PYTHON_RESERVED_IDENTIFIERS", [])]
        try:  # accelerator: what the encoder itself holds (a super-set is fine: reserved is what either source says)
            ids += [str(x) for x in l._token_encoder._reserved_identifiers if isinstance(x, str)]
        except AttributeError:
            pass
        self.ids = sorted(set(ids))
        self.idset = set(self.ids)
        self.kw = sorted(keyword.kwlist) if self.lang == "py" else []
        self.kwset = set(self.kw)
        self.oracle = language_oracle(self.lang)
        self.oracleset = set(self.oracle)

        def table(key):
            src = l.get_config_value_as_dict(key, {})
            d, anyl = {}, []
            for k, v in src.items():
                d[k.lower()] = [str(p) for p in v]
                anyl += d[k.lower()]
            d["any"] = anyl
            return d

        self.pats = table("reserved_token_patterns_by_type")
        self.encs = table("token_encoding_rules_by_identifier_type")
        self.cpats = {k: [re.compile(p) for p in v] for k, v in self.pats.items()}
        self.cencs = {k: [re.compile(p) for p in v] for k, v in self.encs.items()}
        self.pre = l.get_config_value("stropping_prefix", "") or ""
        self.suf = l.get_config_value("stropping_suffix", "") or ""
        self.encpre = l.get_config_value("encoding_prefix", "") or ""
        try:
            self.ws = l.get_config_value("whitespace_encoding_char")
        except KeyError:
            self.ws = None
        self.collapse = bool(l.get_config_value_as_bool("collapse_whitespace_when_encoding"))

    def doc(self):
        def t(tbl):
            return {k: [rx_ast(p) for p in v] for k, v in tbl.items()}
        return {"lang": self.lang, "cls": self.cls, "ids": [cps(x) for x in self.ids], "kw": [cps(x) for x in self.kw], "oracle": [cps(x) for x in self.oracle],
                "pats": t(self.pats), "encs": t(self.encs), "pre": cps(self.pre), "suf": cps(self.suf), "encpre": cps(self.encpre),
                "hasws": self.ws is not None, "ws": cps(self.ws or ""), "collapse": self.collapse}

    # ---- Python's own opinion on the atoms (cross-check of the spec's matcher; never a verdict)
    def inforce(self, tbl, kind):
        if kind == "any":
            return [p for v in tbl.values() for p in v]
        return tbl.get("all", []) + tbl.get(kind, [])

    def lexvalid(self, s):
        if self.lang == "py":
            return s.isidentifier() and s not in self.kwset and nfkc(s) not in self.kwset
        return re.fullmatch(r"[A-Za-z_][A-Za-z0-9_]*", s) is not None and s.isascii()

    def reserved(self, s, kind, loose=False):
        forms = [s] if self.lang != "py" else [s, nfkc(s)]
        pats = self.inforce(self.cpats, kind)
        if any(f in self.idset or f in self.oracleset or any(p.match(f) for p in pats) for f in forms):
            return True
        return loose and any(p.search(s) for p in pats)

    def enctouch(self, s, kind):
        return any(p.search(s) for p in self.inforce(self.cencs, kind))


def build_cfgs(which=None):
    cfgs = {}
    for lang in LANGS:
        base = mk_lang(lang)
        for suffix, cls, f in override_specs():
            cid = "%s.%s" % (lang, suffix)
            if which is not None and cid not in which:
                continue
            cfgs[cid] = Cfg(cid, lang, cls, f(lang, base))
    return cfgs


def class_tables(extra):
    u = sorted(set(c for c in list(POOL) + list(ALPHA) + list(extra) if c >= 128))
    t = {"d": [], "s": [], "w": [], "xs": [], "xc": []}
    for c in u:
        ch = chr(c)
        if re.match(r"\d", ch):
            t["d"].append(c)
        if ch.isspace() != (re.match(r"\s", ch) is not None):
            raise MachineryFailure("str.isspace and re \\s differ on U+%04X" % c)
        if ch.isspace():
            t["s"].append(c)
        if re.match(r"\w", ch):
            t["w"].append(c)
        if ch.isidentifier():
            t["xs"].append(c)
        if ("a" + ch).isidentifier():
            t["xc"].append(c)
    return t


def write_doc(ctx, cfgs, extra=()):
    doc = {"cfgs": {cid: c.doc() for cid, c in cfgs.items()}, "cls": class_tables(extra),
           "nfkc": [[c, cps(nfkc(chr(c)))] for c in ALPHA if c >= 128 and nfkc(chr(c)) != chr(c)]}
    p = ctx.scratch / "strop_cfgs.json"
    tmp = ctx.scratch / ("strop_cfgs.%d.tmp" % threading.get_ident())
    tmp.write_text(json.dumps(doc, separators=(",", ":")))
    os.replace(tmp, p)   # atomic: TLC processes started by other threads may be reading the previous version
    os.environ["STROP_CFGS"] = str(p)
    return doc


# ---------------------------------------------------------------------------------------------------------------------
# observing the real code
# ---------------------------------------------------------------------------------------------------------------------
def ask(obj, s, kind):
    """the public observation point: Language.filter_id -> (err, out, exception type name)"""
    try:
        o = obj.filter_id(s, kind)
    except Exception as ex:  # "raises an error"
        return True, "", type(ex).__name__
    if not isinstance(o, str):   # not a token at all: judged as the empty (invalid) token
        return False, "", "non-str:" + type(o).__name__
    return False, o, ""


class StageTracer:
    """protected accelerator: a second language object whose TokenEncoder logs every stage of strop()"""

    def __init__(self, cfg):
        self.ok = False
        self.log = []
        try:
            self.obj = mk_lang(cfg.lang, cfg.overrides)
            enc = self.obj._token_encoder
            orig = enc._do_for_type_and_all
            self.raw = type(enc).strop.__wrapped__
            handlers = {a: getattr(enc, a) for a in ("_stropping_failure_handler", "_encoding_failure_handler")}
        except AttributeError:
            return
        self.enc = enc

        def stage(transform, token, token_type, dry_run):
            name = getattr(transform, "__name__", "?")
            try:
                r = orig(transform, token, token_type, dry_run)
            except RuntimeError:
                self.log.append((name, dry_run, token, None))
                raise
            self.log.append((name, dry_run, token, r))
            return r

        def wrap_handler(h):
            def hw(e, stropped, token_type, pending):
                try:
                    r = h(e, stropped, token_type, pending)
                except RuntimeError:
                    self.log.append(("handler", True, stropped, None))
                    raise
                self.log.append(("handler", True, stropped, r))
                return r
            return hw

        enc._do_for_type_and_all = stage
        for a, h in handlers.items():
            if h is not None:
                setattr(enc, a, wrap_handler(h))
        self.ok = True

    NAMES = {("_encode", False): "enc", ("_strop_by_keyword", False): "kw", ("_strop_by_pattern", False): "pat",
             ("_strop_by_pattern", True): "rpat", ("_strop_by_keyword", True): "rkw", ("_encode", True): "renc"}

    def run(self, s, kind):
        """-> (steps in the I-layer's vocabulary or None, (err, out))"""
        self.log = []
        try:
            out = self.raw(self.enc, s, kind)
            res = (False, out)
        except Exception:
            res = (True, "")
        steps, last = [], ""
        for name, dry, tin, r in self.log:
            if name == "handler":
                steps.append({"s": "h" + last[1:], "t": cps(r) if r is not None else [], "x": r is None})
                continue
            st = self.NAMES.get((name, dry))
            if st is None:
                return None, res
            last = st
            if dry:
                steps.append({"s": st, "t": cps(tin), "x": r is None})
            else:
                steps.append({"s": st, "t": cps(r), "x": False})
        return steps, res


CHILD = r"""
import json, sys
from vf.props import c09
req = json.load(sys.stdin)
objs = {cid: c09.mk_lang(lang, ov) for cid, (lang, ov) in req["cfgs"].items()}
out = []
for cid, kind, s in req["q"]:
    e, o, _ = c09.ask(objs[cid], s, kind)
    out.append([e, o])
json.dump(out, sys.stdout)
"""


class Observer:
    """Collects questions, asks them in every way the determinism clause talks about, produces one record per question and
    hands them to the T-layer in large flushes (so that memory stays bounded in the thorough tier)."""

    def __init__(self, ctx, cfgs, reverify, flush_at=60000):
        self.ctx, self.cfgs, self.reverify, self.flush_at = ctx, cfgs, reverify, flush_at
        self.seen = set()
        self.pending = []   # records under construction
        self.next_id = 0
        self.rejected = {}  # id -> clause, over all flushes
        self.ndrift = 0
        self.nq = self.nobs = 0
        self.model_stride = ctx.pick(7, 3)
        self.samples = {}
        self.model_rep = []  # model cases whose first answers equal the model's (P-approved) prediction, selected for the repeats
        self.nmodel = self.nmodel_ok = 0

    def add_model(self, cid, case, steps):
        """spec -> code: one terminal state of the model.  TLC has evaluated GoodAnswer on the predicted answer (case.pok); when the real
        code gives exactly that answer every time it is asked, the model run itself is the judgement.  Anything else (a different
        answer, a prediction P rejects) becomes an ordinary record for the T-layer."""
        kind, s = case["kind"], to_s(case["inp"])
        pred = (bool(case["err"]), "" if case["err"] else to_s(case["out"]))
        c = self.cfgs[cid]
        e, o, exc = ask(c.obj, s, kind)
        e2, o2, _ = ask(c.obj, s, kind)
        self.ctx.count(2)
        self.nmodel += 1
        rec = {"key": (cid, kind, s), "tag": "model", "exc": exc, "obs": [("call1", e, o), ("call2", e2, o2)], "steps": steps, "nopipe": False,
               "pred": pred}
        if case["pok"] and (e, "" if e else o) == pred and (e2, "" if e2 else o2) == pred and (e or compiler_accepts(c.lang, o)):
            if self.nmodel % self.model_stride == 0:
                self.model_rep.append(rec)
            else:
                self.nmodel_ok += 1
        else:
            self.seen.add(rec["key"])
            self.pending.append(rec)
        return rec

    def add(self, cid, kind, s, steps=None, tag="", nopipe=False):
        key = (cid, kind, s)
        if key in self.seen or not s:
            return None
        self.seen.add(key)
        c = self.cfgs[cid]
        e, o, exc = ask(c.obj, s, kind)
        e2, o2, _ = ask(c.obj, s, kind)  # served by the lru_cache when the first call returned
        self.ctx.count(2)
        rec = {"key": key, "tag": tag, "exc": exc, "obs": [("call1", e, o), ("call2", e2, o2)], "steps": steps, "nopipe": nopipe}
        self.pending.append(rec)
        if exc and exc not in ("RuntimeError", "ValueError"):
            self.ctx.drift("%s(%r, %r) raised %s (the I-layer knows RuntimeError)" % (cid, s, kind, exc))
        if tag != "model":
            self.ctx.distinct("r|%s|%s|%s|%s" % (cid, kind, tag, sha(s)[:8]), nontrivial=(e or o != s))
        return rec

    def maybe_flush(self):
        if len(self.pending) + len(self.model_rep) >= self.flush_at:
            self.flush()

    def cache_misses(self):
        try:
            from nunavut.lang._common import TokenEncoder
            return TokenEncoder.strop.cache_info().misses
        except Exception:
            return None

    def repeat(self, recs):
        """after eviction, on fresh objects, in a second process"""
        ctx = self.ctx
        if not recs:
            return
        keys = [r["key"] for r in recs]
        child_env = dict(os.environ)
        child_env["PYTHONHASHSEED"] = str((int(os.environ.get("PYTHONHASHSEED", "0") or 0) + 4241) % 4294967295 or 7)
        used = sorted(set(k[0] for k in keys))
        req = {"cfgs": {cid: (self.cfgs[cid].lang, self.cfgs[cid].overrides) for cid in used}, "q": [list(k) for k in keys]}
        child = subprocess.Popen([sys.executable, "-c", CHILD], stdin=subprocess.PIPE, stdout=subprocess.PIPE, stderr=subprocess.PIPE,
                                 env=child_env, text=True)
        res = {}

        def comm():
            res["out"], res["err"] = child.communicate(json.dumps(req))
        th = threading.Thread(target=comm)
        th.start()
        # (a) after eviction: more than 1024 other questions have been asked since (confirmed through cache_info when available)
        m0 = self.cache_misses()
        for r in recs:
            k = r["key"]
            e, o, _ = ask(self.cfgs[k[0]].obj, k[2], k[1])
            r["obs"].append(("evicted", e, o))
        m1 = self.cache_misses()
        if m0 is None:
            if not getattr(self, "_noted", False):
                ctx.not_exercised("lru_cache eviction could not be confirmed (TokenEncoder.strop.cache_info unavailable)")
                self._noted = True
        else:
            ctx.cov["recomputed_after_eviction"] = ctx.cov.get("recomputed_after_eviction", 0) + (m1 - m0)
        # (b) fresh language objects
        fresh = {cid: mk_lang(self.cfgs[cid].lang, self.cfgs[cid].overrides) for cid in used}
        for r in recs:
            k = r["key"]
            e, o, _ = ask(fresh[k[0]], k[2], k[1])
            r["obs"].append(("fresh", e, o))
        # (b') churn: short-lived language objects of ALTERNATING configurations, each dropped before the next is made (an answer must not depend on
        # what an earlier, already collected object of another configuration had computed - e.g. through a store keyed by object identity)
        budget = max(0, 400 - getattr(self, "_churned", 0))
        sample = recs[:: max(1, len(recs) // 60)][:min(60, budget // 2)]
        by_lang = {}
        for cid in sorted(self.cfgs):
            by_lang.setdefault(self.cfgs[cid].lang, []).append(cid)
        for n, r in enumerate(sample):
            k = r["key"]
            lang = self.cfgs[k[0]].lang
            others = [c for c in by_lang[lang] if c != k[0]] or [k[0]]
            oc = self.cfgs[others[n % len(others)]]
            tmp = mk_lang(oc.lang, oc.overrides)
            ask(tmp, k[2], k[1])
            del tmp
            gc.collect()
            tmp = mk_lang(lang, self.cfgs[k[0]].overrides)
            e, o, _ = ask(tmp, k[2], k[1])
            del tmp
            gc.collect()
            r["obs"].append(("churn", e, o))
        self._churned = getattr(self, "_churned", 0) + 2 * len(sample)
        # (c) second process, other hash seed
        th.join()
        if child.returncode != 0:
            raise MachineryFailure("second process failed: %s" % (res.get("err") or "")[-2000:])
        for r, (e, o) in zip(recs, json.loads(res["out"])):
            r["obs"].append(("proc2:hashseed=" + child_env["PYTHONHASHSEED"], e, o))
        ctx.count(3 * len(recs))

    def record(self, r):
        cid, kind, s = r["key"]
        kind = kind.lower()   # categories are case-insensitive names
        c = self.cfgs[cid]
        e1, o1 = r["obs"][0][1], r["obs"][0][2]
        rec = {"id": self.next_id, "cfg": cid, "kind": kind, "inp": cps(s), "innf": cps(nfkc(s)), "nopipe": bool(r["nopipe"]),
               "obs": [{"err": e, "out": cps(o), "nf": cps(nfkc(o)), "cc": e or compiler_accepts(c.lang, o)} for _, e, o in r["obs"]],
               "py": {"iv": c.lexvalid(s), "ir": c.reserved(s, kind), "il": c.reserved(s, kind, True), "ie": c.enctouch(s, kind),
                      "ov": (not e1) and c.lexvalid(o1) and compiler_accepts(c.lang, o1), "orr": (not e1) and c.reserved(o1, kind)}}
        if r["steps"] is not None:
            rec["steps"] = r["steps"]
        self.next_id += 1
        return rec

    def flush(self):
        pend, self.pending = self.pending, []
        mrep, self.model_rep = self.model_rep, []
        if not pend and not mrep:
            return
        self.repeat(pend + mrep)
        for r in mrep:
            if all((e, "" if e else o) == r["pred"] for _, e, o in r["obs"]):
                self.nmodel_ok += 1
            else:
                pend.append(r)
        if not pend:
            return
        recs, info = [], {}
        for r in pend:
            rec = self.record(r)
            recs.append(rec)
            info[rec["id"]] = r
        self.nq += len(recs)
        self.nobs += sum(len(r["obs"]) for r in recs)
        for tag in ("reserved-variant", "random", "shaped"):
            if tag not in self.samples:
                for r in pend[len(pend) // 3:]:
                    if r["tag"] == tag and (r["obs"][0][1] or r["obs"][0][2] != r["key"][2]):
                        self.samples[tag] = {"direction": "code->spec", "cfg": r["key"][0], "kind": r["key"][1],
                                             "inp": r["key"][2], "class": tag, "observations": [{"src": a, "err": b, "out": c} for a, b, c in r["obs"]]}
                        break
        rej, nd = judge(self.ctx, self.cfgs, recs, info, self.reverify)
        self.rejected.update(rej)
        self.ndrift += nd


# ---------------------------------------------------------------------------------------------------------------------
# judging
# ---------------------------------------------------------------------------------------------------------------------
def input_class(s):
    if not s.isascii():
        return "non-ascii"
    if re.fullmatch(r"[A-Za-z_][A-Za-z0-9_]*", s):
        return "identifier-like"
    return "needs-encoding"


def validate(ctx, recs, consts, batch=2500):
    """tlc.validate_traces; a JVM that ends without any TLC message (killed from outside: OOM killer, a neighbour's cleanup) is retried"""
    for attempt in range(3):
        snap = {k: ctx.cov[k] for k in ("states", "transitions", "traces_validated_against_impl")}
        try:
            return tlc.validate_traces(ctx, "StroppingTrace", recs, batch=batch, constants=consts)
        except MachineryFailure as ex:
            if attempt == 2 or ": None None" not in str(ex).split("\n")[0]:
                raise
            ctx.cov.update(snap)
            ctx.cov["tlc_retries"] = ctx.cov.get("tlc_retries", 0) + 1


def judge(ctx, cfgs, recs, info, reverify, batch=None):
    """T-layer verdicts -> violations (P) / drift notes (I) / machinery failures (matcher cross-check)"""
    extra = set()
    for r in recs:
        for f in [r["inp"], r["innf"]] + [x for o in r["obs"] for x in (o["out"], o["nf"])]:
            extra.update(c for c in f if c >= 128)
    write_doc(ctx, cfgs, extra)
    consts = dict(T_CONSTS, Reverify="TRUE" if reverify else "FALSE")
    rej = validate(ctx, recs, consts, batch or ctx.pick(2500, 4000))
    ndrift = 0
    for rid, clause in rej.items():
        r = info[rid]
        cid, kind, s = r["key"]
        c = cfgs[cid]
        obs = [{"src": src, "err": e, "out": o} for src, e, o in r["obs"]]
        case = {"cfg": cid, "lang": c.lang, "overrides": c.overrides, "kind": kind, "inp": s, "observed": obs}
        if clause.startswith("harness"):
            raise MachineryFailure("spec matcher and Python disagree (%s) on %r" % (clause, case))
        if clause.startswith("drift"):
            ndrift += 1
            ctx.drift("%s: %s %s %r -> %r differs from the I-layer prediction (P satisfied)" % (clause, cid, kind, s, obs[0]))
            continue
        m = re.match(r'^(\S+) "([^"]*)"$', clause)
        if not m:
            raise MachineryFailure("unparsable verdict %r" % clause)
        for cl in [x for x in m.group(1).split("+") if x]:
            sig = "C09|%s|%s|%s|%s" % (cl, c.lang, c.cls, m.group(2) if cl != "strop.determinism" else input_class(s))
            what = {"strop.valid": "filter_id returned a token that is not a valid identifier (lexical rule, keyword, or rejected by the language's compiler)",
                    "strop.reserved": "filter_id returned a token that is reserved (language oracle or configuration in force)",
                    "strop.identity": "an already valid, unreserved identifier was not returned unchanged",
                    "strop.determinism": "answers to the same question differ"}.get(cl, cl)
            ctx.violation(sig, "%s: %s(%r, %r) -> %s" % (what, cid, s, kind, json.dumps(obs, ensure_ascii=True)[:600]), case)
    return rej, ndrift


# ---------------------------------------------------------------------------------------------------------------------
# model runs
# ---------------------------------------------------------------------------------------------------------------------
T_CONSTS = {"CfgIds": "{}", "Kinds": "{}", "Alphabet": "{}", "MaxLen": "0", "WithReask": "FALSE"}
INV = ["IRefinesP", "PipeAgrees", "TypeOK"]


def model_cfg(ctx, name, cids, maxlen, reverify, reask, invariants, kinds=None):
    p = ctx.scratch / (name + ".cfg")
    tlc.write_cfg(p, spec="Spec", post=None, invariants=invariants, constants={
        "CfgIds": "{%s}" % ", ".join('"%s"' % c for c in cids), "Kinds": "{%s}" % ", ".join('"%s"' % k for k in (kinds or KINDS)),
        "Alphabet": "{%s}" % ", ".join(map(str, ALPHA)), "MaxLen": str(maxlen),
        "Reverify": "TRUE" if reverify else "FALSE", "WithReask": "TRUE" if reask else "FALSE"})
    return p


def parse_counterexample(out):
    """question of the last state of a TLC error trace"""
    m_c = re.findall(r'/\\ cfg = "([^"]*)"', out)
    m_k = re.findall(r'/\\ kind = "([^"]*)"', out)
    m_i = re.findall(r"/\\ inp = <<([^>]*)>>", out)
    if not (m_c and m_k and m_i):
        return None
    return m_c[-1], m_k[-1], to_s([int(x) for x in m_i[-1].split(",") if x.strip()])


class TlcJobs:
    """Runs TLC jobs NCPU at a time in a helper process (reader threads inside this process would fight the harness for the GIL)."""

    def __init__(self, ctx, jobs):
        self.dir = ctx.scratch / "tlcjobs"
        self.dir.mkdir(exist_ok=True)
        (self.dir / "jobs.json").write_text(json.dumps({"scratch": str(ctx.scratch), "ncpu": tlc.NCPU, "jobs": [
            {k: j[k] for k in ("name", "cfg", "workers", "constants")} for j in jobs]}))
        self.proc = subprocess.Popen([sys.executable, "-m", "vf.props.c09", "--tlc-jobs", str(self.dir)], env=dict(os.environ),
                                     stdout=subprocess.DEVNULL, stderr=open(self.dir / "stderr.txt", "w"))

    def result(self, name):
        import time
        p = self.dir / (name + ".json")
        while not p.exists():
            if self.proc.poll() is not None and not p.exists():
                raise MachineryFailure("TLC job runner ended without a result for %s: %s" % (name, (self.dir / "stderr.txt").read_text()[-2000:]))
            time.sleep(0.05)
        r = tlc.TlcResult()
        r.__dict__.update(json.loads(p.read_text()))
        p.unlink()
        return r

    def close(self):
        self.proc.wait()


def _tlc_jobs_main(d):
    import concurrent.futures
    import pathlib
    d = pathlib.Path(d)
    spec = json.loads((d / "jobs.json").read_text())

    def one(j):
        for attempt in range(3):
            r = tlc.run_tlc(SPECS / "Stropping.tla", j["cfg"], spec["scratch"], workers=j["workers"], timeout=3000, xmx="2g", constants=j["constants"])
            if r.ok or r.error is not None or r.violated is not None:
                break   # (no verdict and no TLC message at all: the JVM was killed from outside; run it again)
        tmp = d / (j["name"] + ".tmp")
        tmp.write_text(json.dumps(r.__dict__))
        os.replace(tmp, d / (j["name"] + ".json"))

    with concurrent.futures.ThreadPoolExecutor(max_workers=spec["ncpu"]) as ex:
        list(ex.map(one, spec["jobs"]))


def probe_reverify():
    """which I-layer variant describes this tree: is a failure handler's result re-verified before it is returned?"""
    for suffix, _, f in override_specs():
        if suffix == "resv.us":
            e, _, _ = ask(mk_lang("c", f("c", mk_lang("c"))), "if", "any")
            return bool(e)
    return False


def _lap(ctx, label):
    import time
    now = time.time()
    ctx.cov.setdefault("timing_s", {})[label] = round(now - getattr(ctx, "_lap_t", ctx.t0), 1)
    ctx.cov["timing_s"]["harness process cpu"] = round(time.process_time(), 1)
    ctx._lap_t = now


def check_patterns(ctx, cfgs):
    for c in cfgs.values():
        for key, tbl in (("reserved_token_patterns_by_type", c.pats), ("token_encoding_rules_by_identifier_type", c.encs)):
            for k, v in tbl.items():
                for p in v:
                    try:
                        rx_ast(p)
                    except Unsupported as ex:
                        raise MachineryFailure("%s %s: regular expression outside the spec's subset: %s" % (c.cid, key, ex))
                    if key.startswith("token") and not rx_simple(p):
                        note = "encoding rule %r has alternation/lazy loops: the I-layer substitutes leftmost-longest" % p
                        if note not in ctx.assumptions:
                            ctx.assumptions.append(note)


def code_to_spec_questions(ctx, cfgs, obs):
    rng = ctx.rng
    for cid, c in cfgs.items():
        full = cid.endswith(".default") or not ctx.quick
        # the complete language oracle (C11 / C++20 keywords, Python keywords + builtins incl. the dunder ones) is part of every tier
        universe = sorted(set(c.ids) | c.oracleset)
        words = list(universe) if full else rng.sample(universe, min(len(universe), 12))
        words += [w for w in ("if", "_if", "if_", "_a", "a_", "too", "Ann", "zX", "tt", "to", "f1", "int8_t", "a_t") if w not in words]
        if not full:
            for wi, w in enumerate(c.oracle):
                for k in ("any", KINDS[1 + wi % 5]):
                    obs.add(cid, k, w, tag="reserved-word")
        if c.lang == "py":   # soft keywords are identifiers for the compiler: asked, judged like any other input
            for w in getattr(keyword, "softkwlist", []):
                for k in KINDS:
                    obs.add(cid, k, w, tag="soft-keyword")
        for wi, w in enumerate(words):
            variants = {w.upper(), w.capitalize(), w.lower(), "_" + w, w + "_", "__" + w, w + "__", "_" + w.capitalize(), c.pre + w + c.suf,
                        c.pre + c.pre + w + c.suf + c.suf, " " + w, w + " ", w + "1", "1" + w, w + "_t", w + "é",
                        w.replace("i", "ｉ") if "i" in w else "ｉ" + w} - {w}
            for k in KINDS:
                obs.add(cid, k, w, tag="reserved-word")
            if cid.endswith(".default"):
                kinds = KINDS if not ctx.quick else ["any", KINDS[1 + wi % 5]]
            else:
                kinds = ["any", KINDS[1 + wi % 5], KINDS[1 + (wi + 2) % 5]] if not ctx.quick else [KINDS[wi % 6]]
            for v in sorted(variants):
                for k in kinds:
                    obs.add(cid, k, v, tag="reserved-variant")
        # every ASCII character alone, in second and in first position, every pool character
        for ch in [chr(i) for i in range(0, 128)] + [chr(x) for x in POOL]:
            for s in (ch, "a" + ch, ch + "a"):
                obs.add(cid, "any", s, tag="single-char")
                if cid.endswith(".default"):
                    obs.add(cid, rng.choice(KINDS[1:]), s, tag="single-char")
        # pattern-shaped strings (reserved patterns of C/C++ and of the overrides)
        shaped = ["_A", "_Ab", "__x", "___", "_", "__", "E1", "EA", "EINVAL", "FE_X", "INT8_MAX", "UINT_C", "PRId", "SCNx", "LC_ALL", "SIGA", "SIG_A",
                  "TIME_UTC", "ATOMIC_X", "isalpha", "toupper", "strx", "memcpy", "wcsx", "int8_t", "uint_fast8_t", "atomic_x", "memory_x", "cnd_x",
                  "mtx_a", "thrd_a", "tss_a", "memory_order_x", "1abc", "9", "a__b", "a__", "__a__", "x y", "x  y", " x", "x ", "x\ty", "a-b", "a.b",
                  "oa", "f1", "tt", "to", "ab_t", "zX0031", "zXa", "_1", "_a1", "A", "Z9_", "_" * 24, " " * 9, "a" * 40]
        for s in shaped:
            for k in KINDS:
                obs.add(cid, k, s, tag="shaped")
        # the category spelled in another case
        for s in ("if", "E1", "abc"):
            obs.add(cid, "MACRO", s, tag="kind-case")
        # `all` is not a category (documented to be refused): outside the property, compared with the I-layer only
        e, o, _ = ask(c.obj, "abc", "all")
        if not e:
            ctx.drift("%s: filter_id('abc', 'all') returned %r (the I-layer expects ValueError)" % (cid, o))
        obs.maybe_flush()
    # seeded random strings: ASCII identifiers, ASCII with punctuation, unicode, reserved words in noise
    n_rand = ctx.pick(12000, 160000)
    cids = list(cfgs)
    idc = [ord(c) for c in "abeimnostuxzAEINTUX019__"]
    for i in range(n_rand):
        cid = cids[i % len(cids)] if i % 3 else rng.choice(["c.default", "cpp.default", "py.default"])
        mode = i % 4
        n = rng.choice([1, 2, 3, 5, 8, 13, 24])
        if mode == 0:
            s = [rng.choice(idc) for _ in range(n)]
        elif mode == 1:
            s = [rng.choice(idc + ASCII_PUNCT) for _ in range(n)]
        elif mode == 2:
            s = [rng.choice(idc + ASCII_PUNCT + POOL) for _ in range(n)]
        else:
            w = rng.choice(cfgs[cid].ids or ["if"])
            s = cps(rng.choice(["", "_", "__", " ", "1", "é"]) + rng.choice([w, w.upper(), w.capitalize()]) + rng.choice(["", "_", "__", " ", "_t", "ｉ"]))
        obs.add(cid, rng.choice(KINDS), to_s(s), tag="random")
        if i % 1000 == 0:
            obs.maybe_flush()
    return n_rand


def run(ctx):
    cfgs = build_cfgs()
    check_patterns(ctx, cfgs)
    write_doc(ctx, cfgs)
    import builtins
    missing = sorted(set(dir(builtins)) - cfgs["py.default"].idset)
    if missing:   # not a property violation ("reserved" is the configuration's notion), but the I-layer's picture of the Python language
        ctx.drift("the Python configuration in force no longer reserves %d builtin names (e.g. %s)" % (len(missing), ", ".join(missing[:4])))
    reverify = probe_reverify()
    ctx.cov["i_layer_variant"] = "Reverify=%s (probed on the real code: is a failure handler's result re-verified?)" % reverify
    defaults = [cid for cid in cfgs if cid.endswith(".default")]
    flawed = [cid for cid, c in cfgs.items() if c.cls == "reserved+underscore" and c.lang != "py"]
    L0, L1 = ctx.pick(3, 4), ctx.pick(2, 3)
    obs = Observer(ctx, cfgs, reverify)

    # ---- TLC jobs, all started now: (a) the bounded design I => P together with the emission of every terminal state, one JVM per
    # (default configuration, category) resp. per override configuration; (b) the same question asked twice; (c) controls.
    jobs = []
    # Emit evaluates the P-layer's GoodAnswer on the model's answer and prints it as `pok`; the harness requires pok of every terminal
    # state of a sound configuration, which is the invariant IRefinesP without evaluating it twice.  PipeAgrees (the composed operator
    # used by the trace spec = the stage machine) is checked on every override job and, in the thorough tier, everywhere.
    for cid in cfgs:
        if cid in defaults:
            for k in KINDS:
                jobs.append({"cid": cid, "kinds": [k], "L": L0, "inv": ctx.pick(["TypeOK", "Emit"], ["PipeAgrees", "TypeOK", "Emit"])})
        else:   # (the thorough tier goes one character further for the configurations where stropping has something to repair or to refuse)
            deep = not ctx.quick and cfgs[cid].cls != "affix"
            jobs.append({"cid": cid, "kinds": KINDS, "L": L1 if (ctx.quick or deep) else L1 - 1, "inv": ["PipeAgrees", "TypeOK", "Emit"]})

    Lr = ctx.pick(2, 3)
    extra_jobs = [{"name": "m_reask", "cfg": str(model_cfg(ctx, "m_reask", defaults, Lr, reverify, True, INV)), "workers": 2,
                   "constants": "default configurations, all kinds, MaxLen=%d, WithReask=TRUE; invariants %s" % (Lr, ",".join(INV))}]
    if flawed:
        extra_jobs += [{"name": "m_flawed", "cfg": str(model_cfg(ctx, "m_flawed", flawed, 2, False, False, INV)), "workers": 1, "constants": ""},
                       {"name": "m_reverify", "cfg": str(model_cfg(ctx, "m_reverify", flawed, 2, True, False, INV)), "workers": 1, "constants": ""}]
    for j in jobs:
        j["name"] = "emit_%s_%s" % (j["cid"].replace(".", "_"), "_".join(j["kinds"]) if len(j["kinds"]) == 1 else "allkinds")
        j["cfg"] = str(model_cfg(ctx, j["name"], [j["cid"]], j["L"], reverify, False, j["inv"], j["kinds"]))
        j["workers"] = 1
        j["constants"] = "%s kinds=%s |Alphabet|=%d MaxLen=%d Reverify=%s; invariants %s" % (
            j["cid"], ",".join(j["kinds"]), len(ALPHA), j["L"], reverify, ",".join(j["inv"]))
    runner = TlcJobs(ctx, jobs + extra_jobs)

    # ---- code -> spec questions are put while TLC works
    n_rand = code_to_spec_questions(ctx, cfgs, obs)
    _lap(ctx, "code->spec questions (TLC running)")

    # ---- spec -> code: replay every terminal state of the model
    tracers = {cid: StageTracer(c) for cid, c in cfgs.items()}
    if not all(t.ok for t in tracers.values()):
        ctx.not_exercised("stage-level comparison (TokenEncoder internals not reachable): only end-to-end answers are compared")
    ncases = ndr = 0
    design = []
    import time
    t_wait = 0.0
    for job in jobs:
        t_w = time.time()
        r = runner.result(job["name"])
        t_wait += time.time() - t_w
        cid = job["cid"]
        if not r.ok:
            raise MachineryFailure("model run for %s %s failed: %s %s\n%s" % (cid, job["kinds"], r.error, r.violated, r.out[-2000:]))
        ctx.add_model(r, "Stropping %s %s" % (cid, ",".join(job["kinds"])))
        cases = r.json_lines()
        if len(cases) != sum(len(ALPHA) ** n for n in range(1, job["L"] + 1)) * len(job["kinds"]):
            raise MachineryFailure("emission for %s gave %d cases" % (cid, len(cases)))
        tr = tracers[cid]
        for case in cases:
            s, kind = to_s(case["inp"]), case["kind"]
            steps = tr.run(s, kind)[0] if tr.ok else None
            rec = obs.add_model(cid, case, steps)
            e, o = rec["obs"][0][1], rec["obs"][0][2]
            ncases += 1
            if not case["pok"]:
                design.append({"cfg": cid, "kind": kind, "inp": s, "predicted": to_s(case["out"])})
            if (e, "" if e else o) != rec["pred"]:
                ndr += 1
                ctx.drift("model terminal state %s %s %r predicts %s, real filter_id gives %s" % (
                    cid, kind, s, "error" if case["err"] else repr(to_s(case["out"])), "error" if e else repr(o)))
            elif steps is not None and steps != case["steps"]:
                ndr += 1
                ctx.drift("stage trace of %s %s %r differs from the model: %s vs %s" % (cid, kind, s, steps, case["steps"]))
            if ncases == 5000:
                ctx.sample({"direction": "spec->code", "cfg": cid, "kind": kind, "inp": s, "model_predicts": "error" if case["err"] else to_s(case["out"]),
                            "model_stage_trace": [st["s"] + ("!" if st["x"] else "") for st in case["steps"]], "P_accepts_prediction": case["pok"],
                            "real": "error" if e else o})
            ctx.distinct("m|%s|%s|%s|%s" % (cid, kind, "".join(st["s"][-1] + ("!" if st["x"] else "") for st in case["steps"]), s),
                         nontrivial=bool(case["err"] or case["out"] != case["inp"]))
        obs.maybe_flush()
    ctx.cov["spec_to_code_cases"] = ncases
    ctx.cov.setdefault("timing_s", {})["(of which waiting for TLC)"] = round(t_wait, 1)
    ctx.cov["timing_s"]["(slowest model job)"] = round(max(m["wall_s"] for m in ctx.cov["model_runs"]), 1)
    unexpected = sorted(set(d["cfg"] for d in design) - set(flawed))
    ctx.cov["model_I_refines_P"] = ("holds in every terminal state of %d configurations" % (len(cfgs) - len(set(d["cfg"] for d in design)))) + (
        "; refuted in %s" % sorted(set(d["cfg"] for d in design)) if design else "")
    if unexpected:
        ctx.cov.setdefault("design_findings", []).append("I => P is refuted in configurations where it was expected to hold: %s" % unexpected)
    if design:
        ctx.cov.setdefault("design_findings", []).append(
            "%d terminal states of the model violate P, all in configurations %s%s; each was replayed against the real code, e.g. %r" % (
                len(design), sorted(set(d["cfg"] for d in design)),
                "" if unexpected else " (the c/c++ failure handlers' results are returned without being re-verified)", design[0]))
    _lap(ctx, "model runs + replay of every terminal state")
    # the configuration data is live, so a refuted invariant is a finding about the design under that data (the replayed executions above
    # are what P judges), never a machinery failure; anything else TLC complains about is.
    r = runner.result("m_reask")
    if r.violated == "IRefinesP":
        ctx.cov.setdefault("design_findings", []).append("m_reask: I => P refuted by TLC for %r" % (parse_counterexample(r.out),))
    elif not r.ok:
        raise MachineryFailure("model Stropping/m_reask did not pass: %s %s\n%s" % (r.error, r.violated, r.out[-3000:]))
    ctx.add_model(r, "Stropping m_reask")
    if flawed:
        neg, pos = runner.result("m_flawed"), runner.result("m_reverify")
        for x in (neg, pos):
            if not x.ok and x.violated != "IRefinesP":
                raise MachineryFailure("control run failed: %s %s\n%s" % (x.error, x.violated, x.out[-2000:]))
        ctx.cov["model_negative_control"] = (
            "configurations %s (added reserved names inside the space the c/c++ failure handlers map into): Reverify=FALSE %s; Reverify=TRUE %s"
            % (flawed, "refuted by IRefinesP, counterexample %r" % (parse_counterexample(neg.out),) if neg.violated else "NOT refuted",
               "passes (%d states)" % pos.distinct if pos.ok else "refuted too: %r" % (parse_counterexample(pos.out),)))
        if not neg.violated:
            ctx.not_exercised("negative control of the model: the design without re-verification of handler results was not refuted")
    runner.close()

    # ---- everything still pending goes to the T-layer
    obs.flush()
    _lap(ctx, "repeats + trace validation")
    ctx.validated(obs.nmodel_ok)
    ctx.cov["spec_to_code_agreeing"] = obs.nmodel_ok
    ctx.cov["questions"] = obs.nq + obs.nmodel_ok
    ctx.cov["observations"] = obs.nobs
    for smp in obs.samples.values():
        ctx.sample(smp)

    # ---- binding self-tests: corrupt one recorded field / one expected outcome
    selftests(ctx, cfgs, reverify)
    _lap(ctx, "self-tests")

    ctx.cov["rule"] = ("one case = one question (configuration, category, input) with all its observations; spec->code: every terminal state of "
                       "Stropping.tla (all inputs <= %d chars over a 15-symbol alphabet for the 3 default configurations, <= %d (affix overrides in the "
                       "thorough tier: one less) for the %d override configurations, x 6 categories); code->spec: every configured reserved word x 18 variants, all single ASCII/pool characters, "
                       "pattern-shaped strings, %d seeded random strings; distinct = (configuration, category, stage path or class, input hash); "
                       "non-trivial = the filter changed the input or raised" % (L0, L1, len(cfgs) - 3, n_rand))
    ctx.cov["exhaustive"] = False
    ctx.cov["drift_records"] = obs.ndrift + ndr
    ctx.assumptions += [
        "TLC and specs/Stropping.tla (its regex matcher is cross-checked against Python `re` on every record: harness.xcheck)",
        "reserved/valid are the configuration's notions: reserved_identifiers (+ the language's own list) and reserved_token_patterns_by_type "
        "read through the public getters of the live Language object; `any` = every category; patterns are applied with re.match",
        "Unicode tables (\\d \\s \\w, XID_Start/Continue via str.isidentifier, NFKC, keyword.kwlist) of the running interpreter",
        "language oracle independent of the tree: ISO C11 / C++20 keyword lists hard-coded in vf/props/c09.py; keyword.kwlist + dir(builtins) and "
        "compile() of the interpreter running the check; a returned token must be outside the oracle AND outside the configuration's reserved set",
        "identity is demanded only for inputs that are lexically valid, unreserved under re.match and re.search, and untouched by every "
        "encoding rule of the category (configuration-level validity, DESIGN 3.1(6))",
    ]
    ctx.ambiguous("C++ `__x` / `x__` and Python non-ASCII identifiers are lexically valid and unreserved but an encoding rule rewrites them: "
                  "identity is not demanded there (configuration-level reading of `already valid`)")
    soft = [w for w in getattr(keyword, "softkwlist", []) if w not in cfgs["py.default"].oracleset and ask(cfgs["py.default"].obj, w, "any")[:2] == (False, w)]
    if soft:
        ctx.ambiguous("Python soft keywords %s are returned unchanged: they are identifiers for the compiler (compile() oracle accepts them) and not "
                      "reserved by the configuration; only hard keywords and builtins are demanded to be stropped" % soft)
    ctx.not_exercised("overrides of token_encoding_rules_by_identifier_type / whitespace_encoding_char (they define what the configuration "
                      "considers valid; a rule set that lets invalid characters through is a configuration error, not a filter error)")
    ctx.not_exercised("objects with a .name attribute as filter_id instance (default_filter_id_for_target); only str inputs")


def selftests(ctx, cfgs, reverify):
    c, cpp, py = cfgs["c.default"], cfgs["cpp.default"], cfgs["py.default"]
    so = Observer(ctx, cfgs, reverify)

    def find(cfg, cands, pred):
        for w in cands:
            e, o, _ = ask(cfg.obj, w, "any")
            if pred(w, e, o):
                r = so.add(cfg.cid, "any", w, tag="selftest")
                if r is not None:
                    return r
        raise MachineryFailure("no question for a self-test in %s" % cfg.cid)
    q1 = find(c, c.ids, lambda w, e, o: c.lexvalid(w) and not e and o != w)                                   # reserved word, stropped
    q2 = find(py, ["abc", "x1", "value", "q"], lambda w, e, o: not e and o == w and py.lexvalid(w) and not py.reserved(w, "any", True))
    q3 = find(cpp, ["a b", "x-y", "a.b"], lambda w, e, o: not e and o != w)                                 # needs encoding
    q4 = find(c, ["plain", "abc1", "k"], lambda w, e, o: not e)
    so.repeat(so.pending)
    good = [so.record(r) for r in so.pending]
    so.pending = []
    t1, t2, t3, t4 = [copy.deepcopy(g) for g in good]
    t5 = copy.deepcopy(good[3])
    for o in t1["obs"]:
        o["out"], o["nf"] = t1["inp"], t1["innf"]   # pretend the reserved word came back unchanged
    t1["py"]["ov"], t1["py"]["orr"] = t1["py"]["iv"], True
    for o in t2["obs"]:
        o["out"], o["nf"] = o["out"] + [95], o["nf"] + [95]   # an already valid identifier comes back altered
    t3["obs"][0]["out"], t3["obs"][0]["nf"] = t3["inp"], t3["innf"]   # pretend the invalid input came back
    for o in t3["obs"][1:]:
        o["out"], o["nf"] = t3["inp"], t3["innf"]
    t3["py"]["ov"], t3["py"]["orr"] = False, t3["py"]["ir"]
    t4["obs"][-1]["out"] = t4["obs"][-1]["out"] + [120]   # the second process answers differently
    t4["obs"][-1]["nf"] = t4["obs"][-1]["nf"] + [120]
    t5["py"]["ov"] = not t5["py"]["ov"]                   # Python's opinion on an atom flipped
    bad = [t1, t2, t3, t4, t5]
    for i, t in enumerate(bad):
        t["id"] = 100 + i
        t.pop("steps", None)
    for i, g in enumerate(good):
        g["id"] = i
    before = ctx.cov["traces_validated_against_impl"]
    write_doc(ctx, cfgs)
    srej = validate(ctx, good + bad, dict(T_CONSTS, Reverify="TRUE" if reverify else "FALSE"))
    ctx.cov["traces_validated_against_impl"] = before
    if any(i in srej and not srej[i].startswith("drift") for i in range(len(good))):
        raise MachineryFailure("self-test base records are not accepted: %r" % srej)
    ctx.selftest("reserved word returned unchanged is rejected (strop.reserved)", "strop.reserved" in srej.get(100, ""))
    ctx.selftest("altered answer for an already valid identifier is rejected (strop.identity)", "strop.identity" in srej.get(101, ""))
    ctx.selftest("invalid token returned is rejected (strop.valid)", "strop.valid" in srej.get(102, ""))
    ctx.selftest("one differing observation (second process) is rejected (strop.determinism)", "strop.determinism" in srej.get(103, ""))
    ctx.selftest("flipped Python-side atom is caught by the matcher cross-check", srej.get(104, "").startswith("harness.xcheck"))


def _cls_of(cid):
    for suffix, cls, _ in override_specs():
        if cid.endswith("." + suffix):
            return cls
    return "other"


def replay(ctx, case):
    cid = case["cfg"]
    cfgs = {cid: Cfg(cid, case["lang"], _cls_of(cid), case.get("overrides") or {})}
    obs = Observer(ctx, cfgs, probe_reverify())
    obs.add(cid, case["kind"], case["inp"], tag="replay")
    shown = list(obs.pending)
    obs.flush()
    for r in shown:
        for src, e, o in r["obs"]:
            print("  %s: %s" % (src, "error" if e else repr(o)))


if __name__ == "__main__":
    if len(sys.argv) == 3 and sys.argv[1] == "--tlc-jobs":
        _tlc_jobs_main(sys.argv[2])
    elif len(sys.argv) == 3 and sys.argv[1] == "--dump-cfgs":   # snapshot for running the specs by hand (STROP_CFGS=<file>)
        _cfgs = build_cfgs()
        with open(sys.argv[2], "w") as _f:
            json.dump({"cfgs": {cid: c.doc() for cid, c in _cfgs.items()}, "cls": class_tables(()),
                       "nfkc": [[c, cps(nfkc(chr(c)))] for c in ALPHA if c >= 128 and nfkc(chr(c)) != chr(c)]}, _f, separators=(",", ":"), sort_keys=True)
