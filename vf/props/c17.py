"""C17 - headers generated with different language options cannot be compiled together.

Model:   specs/OptionGuardP.tla (documented option values, P-layer verdict, CRC-32 written out in TLA+), specs/OptionGuard.tla
         (I-layer: validate/short-hand expansion, one constant per option in the support header, one static_assert per option in
         every type header, the compiler evaluating them; refinement I => P; collision check of the hash on the documented values;
         negative control with a 1-bit hash).
spec->code: TLC enumerates every ordered pair of option sets that differ in exactly one documented option value around every c
         vector / every documented cpp family (both directions), all identical pairs of those vectors, and a simulated set with
         several differences; python generates type headers with `a`, the support header with `b` (real generator of the current
         tree), compiles one translation unit including both (-fsyntax-only) and compares with the outcome the P-layer fixes.
         The identical-options side quantifies over TYPES as well: every identical pair for which P fixes `builds` is also built
         with a namespace of ~120 type shapes (shape_types) that reach the option-dependent code paths of the generated codecs
         (e.g. the little-endian fast path exists only for a byte-aligned field wider than 8 bits) - one build per option set.
code->spec: the same builds plus seeded random pairs (undocumented string values, unicode, near-identical strings) and pairs whose
         one side is generated through the nnvg command line; every build is one `compile{...}` record judged by
         specs/OptionGuardTrace.tla (P-layer verdict; I-layer notes: which assertions fail, CRC-32 rendering of the constants).
"""
import concurrent.futures
import copy
import itertools
import json
import multiprocessing
import os
import pathlib
import re
import shutil
import subprocess
import sys
import zlib

from ..core import MachineryFailure, NCPU, sha
from .. import tlc

# --------------------------------------------------------------------------------------------------------------------------
# fixture: a message with fields, a union, a union holding composites, a service, a type without fields, a nested-namespace
# delimited type and (sub-namespace fl) types that need floating point support.
FIXTURE = {
    "Empty.1.0.dsdl": "@sealed\n",
    "Msg.1.0.dsdl": "uint8 a\nint16 b\nbool c\nuint16[<=5] v\nuint8[3] fx\nEmpty.1.0 e\n@sealed\n",
    "Un.1.0.dsdl": "@union\nuint8 a\nuint16[<=3] b\nint8[2] c\n@extent 64*8\n",
    "UnC.1.0.dsdl": "@union\nuint8 a\nMsg.1.0 m\nEmpty.1.0 e\n@extent 64*8\n",
    "Svc.1.0.dsdl": "uint8[<=4] q\n@sealed\n---\nUn.1.0 u\nbool ok\n@extent 128*8\n",
    "sub/Inner.1.0.dsdl": "uint32 x\nvns.Msg.1.0[<=2] ms\n@extent 100*8\n",
    "fl/Flt.1.0.dsdl": "float16 h\nfloat32 f\nfloat64 d\nfloat32[<=2] fa\n@sealed\n",
    "fl/FltU.1.0.dsdl": "@union\nfloat32 x\nuint8 y\n@sealed\n",
}
H_BASE = ["Empty", "Msg", "Un", "Svc", "sub/Inner"]
H_DEFCTOR = ["UnC"]            # a union of composites default-constructs them: only with a default-constructible allocator
H_FLOAT = ["fl/Flt", "fl/FltU"]  # only when the type headers were generated with float support

def shape_types():
    """A second namespace (shp) of TYPE SHAPES that reach the option-dependent code paths of the generated (de)serializers: the
    identical-options side of the property quantifies over types, and e.g. the little-endian fast path is only emitted for a
    byte-aligned field wider than 8 bits (such as the 16-bit length prefix of an array with capacity > 255).  Sub-directories mark
    what a shape needs: fl = floating point support, dc = a default-constructible allocator (unions holding composites)."""
    t = {
        "El.1.0.dsdl": "uint8 a\nuint16 b\n@sealed\n",
        "ElD.1.0.dsdl": "uint8 a\nint32[<=2] w\n@extent 16*8\n",
        "Empty.1.0.dsdl": "@sealed\n",
        "EmptyD.1.0.dsdl": "@extent 0\n",
    }
    elems = [("B", "bool", ""), ("U8", "uint8", ""), ("U16", "uint16", ""), ("U24", "uint24", ""), ("I40", "int40", ""),
             ("El", "El.1.0", ""), ("ElD", "ElD.1.0", ""), ("F32", "float32", "fl/"), ("F16", "float16", "fl/")]
    fq = {"El.1.0": "shp.El.1.0", "ElD.1.0": "shp.ElD.1.0"}
    for en, et, d in elems:
        et = fq.get(et, et) if d else et
        for cap in (255, 256, 65535, 65536):
            if en in ("I40", "F16") and cap in (255, 65535):
                continue
            for al, pad in (("A", ""), ("U", "uint3 p\n")):
                t["%sVa%sC%d%s.1.0.dsdl" % (d, en, cap, al)] = "%s%s[<=%d] v\nuint16 tail\n@sealed\n" % (pad, et, cap)
        for n in (2, 256):
            for al, pad in (("A", ""), ("U", "bool p\n")):
                # a fixed array of composites value-initializes its elements: needs default-constructible composites (dc)
                dd, ee = ("dc/", fq[et]) if et in fq else (d, et)
                t["%sFa%sN%d%s.1.0.dsdl" % (dd, en, n, al)] = "%s%s[%d] v\nuint8 tail\n@extent 8 * 1000000\n" % (pad, ee, n)
    ints = "".join("%s%d %s%d\n" % (k, w, k[0], w) for w in (8, 16, 24, 32, 40, 64) for k in ("uint", "int"))
    ints += "".join("truncated uint%d t%d\n" % (w, w) for w in (8, 16, 24, 32, 40, 64))
    t["IntsA.1.0.dsdl"] = ints + "@sealed\n"
    t["IntsU.1.0.dsdl"] = "bool p\n" + ints + "@sealed\n"
    t["IntsOdd.1.0.dsdl"] = "uint3 a\nint5 b\nuint7 c\nuint9 d\nint13 e\nuint17 f\ntruncated uint33 g\nint63 h\nvoid7\nbool i\nuint1 j\n@sealed\n"
    fl = "".join("%sfloat%d %s%d\n" % (m + " " if m else "", w, m[:1] or "s", w) for w in (16, 32, 64) for m in ("", "truncated"))
    t["fl/FloatsA.1.0.dsdl"] = fl + "@sealed\n"
    t["fl/FloatsU.1.0.dsdl"] = "uint5 p\n" + fl + "@extent 64 * 8\n"
    t["NestA.1.0.dsdl"] = "El.1.0 e\nElD.1.0 d\nEmpty.1.0 x\nEmptyD.1.0 y\nVaU16C256A.1.0 va\nVaBC65536U.1.0 vb\nFaU24N2U.1.0 fa\n@sealed\n"
    t["NestU.1.0.dsdl"] = "bool p\nEl.1.0 e\nuint3 q\nElD.1.0 d\nvoid1\nVaU8C256U.1.0 va\nIntsU.1.0 i\n@extent 8 * 1000000\n"
    t["NestDeep.1.0.dsdl"] = "NestU.1.0[<=2] n\nNestA.1.0[<=3] m\nElD.1.0[<=256] d\n@sealed\n"
    t["dc/NestFix.1.0.dsdl"] = "shp.NestU.1.0[2] n\nshp.NestA.1.0[2] m\nFaElN2U.1.0 f\n@sealed\n"
    t["UnPrim.1.0.dsdl"] = "@union\nuint8 a\nuint16 b\nint64 c\nbool d\ntruncated uint24 e\n@sealed\n"
    t["UnArr.1.0.dsdl"] = "@union\nuint8[<=256] a\nuint16[3] b\nbool[<=65536] c\nuint24[<=255] d\nbool[9] e\n@extent 8 * 100000\n"
    t["UnHold.1.0.dsdl"] = "uint3 p\nUnPrim.1.0 u\nUnArr.1.0 w\nUnPrim.1.0[<=256] us\n@sealed\n"
    t["dc/UnComp.1.0.dsdl"] = "@union\nshp.El.1.0 a\nshp.ElD.1.0 b\nshp.Empty.1.0 c\nshp.VaU16C256A.1.0 d\nshp.El.1.0[<=256] e\nuint8 f\n@extent 8 * 100000\n"
    t["dc/UnCompHold.1.0.dsdl"] = "bool p\nUnComp.1.0 u\nUnComp.1.0[<=256] us\nUnComp.1.0[2] uf\n@sealed\n"
    t["fl/UnFl.1.0.dsdl"] = "@union\nfloat16 a\nfloat64 b\nfloat32[<=256] c\nuint8 d\n@sealed\n"
    t["fl/dc/UnFlComp.1.0.dsdl"] = "@union\nshp.fl.FloatsA.1.0 a\nshp.El.1.0 b\nfloat32 c\n@sealed\n"
    t["SvcShapes.1.0.dsdl"] = ("uint16[<=256] a\nbool[<=255] b\nEl.1.0[<=2] c\n@sealed\n---\nUnPrim.1.0 u\nuint8[<=65536] blob\nElD.1.0 d\n"
                               "@extent 8 * 100000\n")
    t["SvcEmpty.1.0.dsdl"] = "@sealed\n---\n@sealed\n"
    return t


# small stand-ins for the two CETL headers named by the cetl++14-17 group (CETL itself is not available offline); they exist so that
# the documented option VALUES can be used: a missing include would be a fatal error that hides every later diagnostic.
CETL_VLA = r"""
#pragma once
#include <vector>
#include <cstddef>
#include <utility>
namespace cetl {
template <typename T, typename A>
class VariableLengthArray : public std::vector<T, A> {
    using base = std::vector<T, A>;
public:
    using allocator_type = A;
    VariableLengthArray() : base(A(nullptr)), max_(~std::size_t(0)) {}
    explicit VariableLengthArray(const A& a) : base(a), max_(~std::size_t(0)) {}
    VariableLengthArray(std::size_t max, const A& a) : base(a), max_(max) {}
    VariableLengthArray(const VariableLengthArray& o, const A& a) : base(o, a), max_(o.max_) {}
    VariableLengthArray(VariableLengthArray&& o, const A& a) : base(std::move(o), a), max_(o.max_) {}
    VariableLengthArray(const VariableLengthArray&) = default;
    VariableLengthArray(VariableLengthArray&&) = default;
    VariableLengthArray& operator=(const VariableLengthArray&) = default;
    VariableLengthArray& operator=(VariableLengthArray&&) = default;
    std::size_t max_size() const noexcept { return max_; }
private:
    std::size_t max_;
};
}
"""
CETL_MEMRES = r"""
#pragma once
#include <cstddef>
#include <new>
namespace cetl { namespace pf17 { namespace pmr {
class memory_resource { public: virtual ~memory_resource() = default; };
template <typename T>
class polymorphic_allocator {
public:
    using value_type = T;
    polymorphic_allocator(memory_resource* r) noexcept : r_(r) {}
    template <typename U> polymorphic_allocator(const polymorphic_allocator<U>& o) noexcept : r_(o.resource()) {}
    T* allocate(std::size_t n) { return static_cast<T*>(::operator new(n * sizeof(T))); }
    void deallocate(T* p, std::size_t) noexcept { ::operator delete(p); }
    memory_resource* resource() const noexcept { return r_; }
private:
    memory_resource* r_;
};
template <> class polymorphic_allocator<void> {
public:
    using value_type = void;
    polymorphic_allocator(memory_resource* r) noexcept : r_(r) {}
    template <typename U> polymorphic_allocator(const polymorphic_allocator<U>& o) noexcept : r_(o.resource()) {}
    memory_resource* resource() const noexcept { return r_; }
private:
    memory_resource* r_;
};
template <typename A, typename B> bool operator==(const polymorphic_allocator<A>& a, const polymorphic_allocator<B>& b) noexcept { return a.resource() == b.resource(); }
template <typename A, typename B> bool operator!=(const polymorphic_allocator<A>& a, const polymorphic_allocator<B>& b) noexcept { return !(a == b); }
}}}
"""

STDS = ("c++14", "c++17", "c++20")
NOLIMIT = {"gcc": "-fmax-errors=0", "clang": "-ferror-limit=0"}  # every assertion of every header must get its turn


# --------------------------------------------------------------------------------------------------------------------------
# option values <-> model values
def cps(s):
    return [ord(c) for c in s]


def enc(x):
    if isinstance(x, bool):
        return {"t": "b", "v": [1 if x else 0]}
    if isinstance(x, int):
        return {"t": "i", "v": [x]}
    return {"t": "s", "v": cps(x)}


def dec(val):
    if val["t"] == "b":
        return bool(val["v"][0])
    if val["t"] == "i":
        return int(val["v"][0])
    return "".join(map(chr, val["v"]))


def pyvec(vec):
    return {k: dec(v) for k, v in vec.items()}


def vkey(lang, vec):
    return lang + "-" + sha(json.dumps(pyvec(vec), sort_keys=True))[:16]


class Model:
    """constants of the model (printed by TLC from OptionGuard.tla so that the spec is the single source)"""

    def __init__(self, ctx):
        recs = tlc.emit_cases(ctx, "OptionGuard", "OptionGuard_doc", name="OptionGuard_doc.cfg (constants of the model)", timeout=300)
        if len(recs) != 1:
            raise MachineryFailure("model constants: expected one record, got %d" % len(recs))
        d = recs[0]
        self.keys = d["keys"]
        self.doc = d["doc"]
        self.groups = {dec({"t": "s", "v": g["name"]}): g["o"] for g in d["groups"].values()}
        self.group_keys = sorted(next(iter(self.groups.values())).keys())

    def default(self, lang):
        return {k: copy.deepcopy(self.doc[lang][k][0]) for k in self.keys[lang]}

    def expand(self, lang, vec):
        if lang == "cpp":
            s = dec(vec["std"])
            if vec["std"]["t"] == "s" and s in self.groups:
                out = dict(vec)
                out.update(self.groups[s])
                return out
        return vec

    def language_options(self, lang, vec):
        """what the user passes: every option explicitly; with a language-standard short-hand only the options outside its group
        (whether an explicit option inside the group survives the short-hand is a C13 question, not asked here)"""
        o = pyvec(vec)
        if lang == "cpp" and vec["std"]["t"] == "s" and o["std"] in self.groups:
            for k in self.group_keys:
                if k != "std":
                    o.pop(k, None)
        return o


# --------------------------------------------------------------------------------------------------------------------------
def _gen_job(job):
    """runs in a forked worker: real generator of the tree under test, public API"""
    lang, opts, nsdir, out = job
    try:
        import nunavut

        nunavut.generate_types(lang, nsdir, out, omit_serialization_support=False, language_options=opts,
                               include_experimental_languages=True)
        return None
    except Exception as e:  # the generator refusing an option set is an observation, not a crash
        shutil.rmtree(out, ignore_errors=True)
        return "%s: %s" % (type(e).__name__, str(e)[:300])


_RE_ERR = re.compile(r"^(?P<file>[^\s:][^:\n]*):(?P<line>\d+):(?P<col>\d+): (?P<kind>fatal error|error): (?P<msg>.*)$")
_RE_SA = re.compile(r"static[ _]assert(?:ion)? failed")
_RE_NAMES = re.compile(r"(?i)language[ _-]?options?|support::options|options::")
_RE_KEY_C = re.compile(r"NUNAVUT_SUPPORT_LANGUAGE_OPTION_(\w+)")
_RE_KEY_CPP = re.compile(r"options\s*::\s*(\w+)")


class Builder:
    def __init__(self, ctx, model):
        self.ctx = ctx
        self.m = model
        self.root = ctx.scratch / "c17"
        self.ns = self.root / "dsdl" / "vns"
        for rel, txt in FIXTURE.items():
            p = self.ns / rel
            p.parent.mkdir(parents=True, exist_ok=True)
            p.write_text(txt)
        self.ns_shp = self.root / "dsdl" / "shp"
        for rel, txt in shape_types().items():
            p = self.ns_shp / rel
            p.parent.mkdir(parents=True, exist_ok=True)
            p.write_text(txt)
        self.cetl = self.root / "standin"
        (self.cetl / "cetl" / "pf17" / "sys").mkdir(parents=True)
        (self.cetl / "cetl" / "variable_length_array.hpp").write_text(CETL_VLA)
        (self.cetl / "cetl" / "pf17" / "sys" / "memory_resource.hpp").write_text(CETL_MEMRES)
        self.gen = {}  # vkey -> (dir | None, error | None)          fixture namespace vns
        self.gen_shp = {}  # the same for the shape namespace shp
        self.env = dict(os.environ, LC_ALL="C", LANG="C")
        self.nmix = itertools.count(1)  # next() is atomic under the GIL (builds run in threads)
        for cc in ("gcc", "g++"):
            if shutil.which(cc) is None:
                raise MachineryFailure("compiler %s not found" % cc)
        self.have_clang = shutil.which("clang") is not None and shutil.which("clang++") is not None

    # ---- generation (parallel, forked workers import the tree's nunavut once)
    def generate(self, wanted, ns="vns"):
        """wanted: iterable of (lang, vec); ns: which namespace (vns: fixture of the pair builds, shp: the type shapes)"""
        store = self.gen if ns == "vns" else self.gen_shp
        nsdir = self.ns if ns == "vns" else self.ns_shp
        jobs, keys = [], []
        for lang, vec in wanted:
            k = vkey(lang, vec)
            if k in store or k in keys:
                continue
            keys.append(k)
            jobs.append((lang, self.m.language_options(lang, vec), str(nsdir), str(self.root / ("gen-" + ns) / k)))
        if not jobs:
            return
        import nunavut  # noqa: F401  (imported before forking)

        with multiprocessing.get_context("fork").Pool(min(NCPU, len(jobs))) as pool:
            res = pool.map(_gen_job, jobs, chunksize=1)
        for k, job, err in zip(keys, jobs, res):
            store[k] = (None, err) if err else (pathlib.Path(job[3]), None)

    def generate_cli(self, lang, args, tag):
        """one option set through the nnvg command line; returns the output directory"""
        out = self.root / "cli" / tag
        cmd = [sys.executable, "-m", "nunavut", "--target-language", lang, "--experimental-languages", "--outdir", str(out)] + args + [str(self.ns)]
        p = subprocess.run(cmd, capture_output=True, text=True, env=self.env, timeout=300)
        if p.returncode != 0:
            return None, (p.stderr or p.stdout)[-300:]
        return out, None

    # ---- one build
    def headers_for(self, lang, a, dir_a, ns="vns"):
        """every generated type header of the namespace (found, not assumed), minus those that cannot build with `a` for reasons of
        their own: float users without float support; types that value-initialize composites (unions holding composites, fixed arrays
        of composites) without a default-constructible allocator.  vns marks them by name, shp by sub-directory (fl, dc)."""
        ea = pyvec(self.m.expand(lang, a))
        no_dc = lang == "cpp" and ea.get("allocator_is_default_constructible", True) is False
        no_fl = bool(ea.get("omit_float_serialization_support"))
        skip = []
        if no_dc:
            skip += [pathlib.PurePosixPath(h).name for h in H_DEFCTOR]
        if no_fl:
            skip += [pathlib.PurePosixPath(h).name for h in H_FLOAT]
        hs = []
        for f in sorted((dir_a / ns).rglob("*")):
            if not (f.is_file() and f.suffix in (".h", ".hpp")):
                continue
            rel = f.relative_to(dir_a / ns)
            if ns == "vns" and any(f.name.startswith(x + "_") for x in skip):
                continue
            if ns == "shp" and ((no_dc and "dc" in rel.parts[:-1]) or (no_fl and "fl" in rel.parts[:-1])):
                continue
            hs.append(str(pathlib.PurePosixPath(ns) / rel.as_posix()))
        if len(hs) < len(H_BASE):
            raise MachineryFailure("generated type headers not found under %s" % dir_a)
        return hs

    def compile_cmd(self, lang, a, mix, tu, compiler):
        if lang == "c":
            return [{"gcc": "gcc", "clang": "clang"}[compiler], "-std=c11", "-fsyntax-only", NOLIMIT[compiler], "-DNUNAVUT_ASSERT(x)=assert(x)", "-I", str(mix), str(tu)]
        std = pyvec(self.m.expand(lang, a)).get("std")
        std = std if std in STDS else "c++17"
        return [{"gcc": "g++", "clang": "clang++"}[compiler], "-std=" + std, "-fsyntax-only", NOLIMIT[compiler], "-DNUNAVUT_ASSERT(x)=assert(x)", "-I", str(mix),
                "-I", str(self.cetl), str(tu)]

    def build(self, lang, a, dir_a, dir_b, compiler="gcc", ns="vns"):
        """translation unit including the type headers of dir_a and (through them) the support header of dir_b"""
        mix = self.root / "mix" / ("m%06d" % next(self.nmix))
        mix.mkdir(parents=True)
        os.symlink(dir_a / ns, mix / ns)                 # the generated types of a
        for e in sorted(dir_b.iterdir()):                 # everything else (the support library) from b
            if e.name != ns:
                os.symlink(e, mix / e.name)
        hs = self.headers_for(lang, a, dir_a, ns)
        tu = mix / ("tu." + ("c" if lang == "c" else "cpp"))
        tu.write_text("#include <assert.h>\n" + "".join('#include "%s"\n' % h for h in hs) + "int main(void) { return 0; }\n")
        cmd = self.compile_cmd(lang, a, mix, tu, compiler)
        try:
            p = subprocess.run(cmd, capture_output=True, text=True, env=self.env, timeout=300)
        except subprocess.TimeoutExpired:
            raise MachineryFailure("compiler timed out: %s" % " ".join(cmd))
        obs = self.parse(lang, mix, hs, p.returncode, p.stderr, ns)
        obs["defs"] = self.scrape_defs(lang, dir_b)
        obs["asrt"] = self.scrape_asserts(lang, dir_a / hs[0])
        obs["cmd"] = " ".join(cmd[:4])
        shutil.rmtree(mix, ignore_errors=True)
        return obs

    def parse(self, lang, mix, hs, rc, err, ns="vns"):
        fired_headers, fired, known = [], [], True
        first_error = None
        any_named = False
        fatal = False
        lines = err.splitlines()
        for i, ln in enumerate(lines):
            m = _RE_ERR.match(ln)
            if not m:
                continue
            f = pathlib.Path(m.group("file"))
            try:
                rel = str(f.relative_to(mix))
            except ValueError:
                rel = f.name
            role = "type-header" if rel.startswith(ns + "/") else ("support-header" if (mix / rel).exists() and "/" in rel else "other")
            if m.group("kind") == "fatal error":
                fatal = True
            if first_error is None:
                try:
                    where = f.read_text(errors="replace").splitlines()[int(m.group("line")) - 1]
                except (OSError, IndexError):
                    where = m.group("msg").replace("‘", "'").replace("’", "'")
                first_error = (role + ("[%s]" % pathlib.PurePosixPath(rel).stem if role == "type-header" else "") + ":"
                               + re.sub(r"\s+", " ", re.sub(r"\d+", "N", where)).strip()[:70])
            if not _RE_SA.search(m.group("msg")):
                continue
            # the statement that failed, read from the generated file (robust against diagnostic formats)
            stmt = ""
            try:
                src = f.read_text(errors="replace").splitlines()
                n = int(m.group("line")) - 1
                j = n
                while j < min(len(src), n + 8):
                    stmt += src[j] + "\n"
                    if ";" in src[j]:
                        break
                    j += 1
            except OSError:
                pass
            text = m.group("msg") + "\n" + stmt + "\n".join(lines[i + 1:i + 4])
            if not _RE_NAMES.search(text):
                continue  # some other static assertion
            any_named = True
            if role == "type-header" and rel in hs and rel not in fired_headers:
                fired_headers.append(rel)
            km = (_RE_KEY_C if lang == "c" else _RE_KEY_CPP).search(stmt)
            if km:
                k = km.group(1).lower() if lang == "c" else km.group(1)
                if k not in fired:
                    fired.append(k)
            else:
                known = False
        return {"rc": rc, "msg": any_named, "headers": hs, "fired_headers": fired_headers, "fired": sorted(fired), "fired_known": known,
                "first_error": first_error, "fatal": fatal,
                "stderr_head": "\n".join([x for x in lines if _RE_ERR.match(x)][:3])[:900].replace(str(mix), "<tu>")}

    def scrape_defs(self, lang, d):
        res = {}
        txt = ""
        for f in sorted(d.rglob("*")):
            if f.is_file() and f.suffix in (".h", ".hpp") and f.relative_to(d).parts[0] not in ("vns", "shp"):
                try:
                    txt += f.read_text(errors="replace")
                except OSError:
                    pass
        if lang == "c":
            for m in re.finditer(r"^#define NUNAVUT_SUPPORT_LANGUAGE_OPTION_(\w+)\s+(\d+)\s*$", txt, re.M):
                res[m.group(1).lower()] = int(m.group(2))
        else:
            m = re.search(r"namespace options\s*\{(.*?)\}", txt, re.S)
            if m:
                for mm in re.finditer(r"constexpr\s+std::uint32_t\s+(\w+)\s*=\s*(\d+)\s*;", m.group(1)):
                    res[mm.group(1)] = int(mm.group(2))
        return res

    def scrape_asserts(self, lang, header):
        res = {}
        try:
            txt = header.read_text()
        except OSError:
            return res
        pat = r"static_assert\(\s*NUNAVUT_SUPPORT_LANGUAGE_OPTION_(\w+)\s*==\s*(\d+)" if lang == "c" else r"static_assert\(\s*nunavut::support::options::(\w+)\s*==\s*(\d+)"
        for m in re.finditer(pat, txt):
            res[m.group(1).lower() if lang == "c" else m.group(1)] = int(m.group(2))
        return res


# --------------------------------------------------------------------------------------------------------------------------
def limbs(n):
    return [(n >> 16) & 0xFFFF, n & 0xFFFF]


def record(rid, lang, a, b, obs, keys):
    hidx = {h: i + 1 for i, h in enumerate(obs["headers"])}
    ks = set(keys)
    return {"id": rid, "lang": lang, "a": a, "b": b, "rc": int(obs["rc"]), "msg": bool(obs["msg"]),
            "headers": [hidx[h] for h in obs["headers"]], "fired_headers": sorted(hidx[h] for h in obs["fired_headers"]),
            "fired": [k for k in obs["fired"] if k in ks], "fired_known": bool(obs["fired_known"]) and all(k in ks for k in obs["fired"]),
            "defs": {k: limbs(v) for k, v in obs["defs"].items() if k in ks and v < 2 ** 32} or {"-": [0, 0]},
            "asrt": {k: limbs(v) for k, v in obs["asrt"].items() if k in ks and v < 2 ** 32} or {"-": [0, 0]}}


def signature(lang, clause, a, b, obs, model):
    """property | clause | target | structural class: WHICH option's difference goes unnoticed (pairs differing in several options are
    one class: they add nothing over the single-option pairs), WHICH kind of header stays silent, WHERE an identical build breaks"""
    ea, eb = model.expand(lang, a), model.expand(lang, b)
    dk = sorted(k for k in ea if ea[k] != eb.get(k))
    diff = dk[0] if len(dk) == 1 else ("several-options" if dk else "-")
    if clause == "guard.iff.mismatch_accepted":
        return "C17|guard.iff|%s|mismatch-accepted|%s" % (lang, diff)
    if clause == "guard.iff.identical_rejected":
        return "C17|guard.iff|%s|identical-rejected|%s" % (lang, obs.get("first_error") or "?")
    if clause == "guard.message.missing":
        return "C17|guard.message|%s|missing|%s" % (lang, diff)
    if clause == "guard.message.header_silent":
        silent = "+".join(sorted(pathlib.PurePosixPath(h).stem for h in obs["headers"] if h not in obs["fired_headers"]))
        return "C17|guard.message|%s|header-silent|%s" % (lang, silent)
    if clause == "guard.message.spurious":
        return "C17|guard.message|%s|spurious|%s" % (lang, obs["fired"][0] if len(obs["fired"]) == 1 else ("several-options" if obs["fired"] else "?"))
    return "C17|%s|%s|%s" % (clause, lang, diff)


def describe(lang, clause, a, b, obs, model):
    pa, pb = pyvec(a), pyvec(b)
    d = {k: (pa[k], pb[k]) for k in pa if pa[k] != pb.get(k)}
    what = {
        "guard.iff.mismatch_accepted": "type headers and support header generated with DIFFERENT options compile together (rc=0)",
        "guard.iff.identical_rejected": "type headers and support header generated with IDENTICAL options do not compile together",
        "guard.message.missing": "build with different options fails, but no static assertion names the language-option mismatch",
        "guard.message.header_silent": "with different options some type header raises no language-option assertion",
        "guard.message.spurious": "a language-option assertion fails although the option sets are identical",
    }.get(clause, clause)
    return "%s [%s] lang=%s types(a) vs support(b) differ in %r; identical options=%r; rc=%s first error: %s" % (
        what, clause, lang, d, {k: v for k, v in pa.items() if k not in d and v != dec(model.doc[lang][k][0])}, obs["rc"], obs.get("first_error"))


def p_expect_clause(case, obs):
    """spec -> code comparison against the outcome the P-layer fixes for an emitted case (p_ok in yes/no/any, p_msg)"""
    if case["p_ok"] == "no":
        if obs["rc"] == 0:
            return "guard.iff.mismatch_accepted"
        if not obs["msg"]:
            return "guard.message.missing"
        if sorted(obs["fired_headers"]) != sorted(obs["headers"]):
            return "guard.message.header_silent"
        return None
    if obs["msg"] or obs["fired_headers"]:
        return "guard.message.spurious"
    if case["p_ok"] == "yes" and obs["rc"] != 0:
        return "guard.iff.identical_rejected"
    return None


class Campaign:
    def __init__(self, ctx, model, builder):
        self.ctx, self.m, self.b = ctx, model, builder
        self.recs = []
        self.cache = {}  # (dir a, dir b, compiler) -> observation
        self.meta = {}  # id -> (lang, a, b, obs, source, compiler)

    def run_pairs(self, pairs, source, compiler="gcc"):
        """pairs: list of (lang, a, b[, case]) with model vectors; generates, builds in parallel, returns list of (pair, obs|None, why)"""
        self.b.generate([(p[0], p[1]) for p in pairs] + [(p[0], p[2]) for p in pairs])
        todo, res = [], []
        for p in pairs:
            da, ea = self.b.gen[vkey(p[0], p[1])]
            db, eb = self.b.gen[vkey(p[0], p[2])]
            if da is None or db is None:
                res.append((p, None, ea or eb))
            else:
                todo.append((p, da, db))
        fresh = {}
        for p, da, db in todo:
            fresh.setdefault((str(da), str(db), compiler), (p, da, db))
        fresh = {k: v for k, v in fresh.items() if k not in self.cache}
        with concurrent.futures.ThreadPoolExecutor(max_workers=NCPU) as ex:
            for k, o in zip(fresh, ex.map(lambda t: self.b.build(t[0][0], t[0][1], t[1], t[2], compiler), fresh.values())):
                self.cache[k] = o
        obs = [self.cache[(str(da), str(db), compiler)] for p, da, db in todo]
        for (p, da, db), o in zip(todo, obs):
            res.append((p, o, None))
            self.add(p[0], p[1], p[2], o, source, compiler)
        return res

    def run_shapes(self, vecs, compiler="gcc"):
        """identical option sets x type shapes: ONE build per option set of a translation unit that includes every shape header
        generated with it (and its own support header).  vecs: list of (lang, a, case).  Returns [(lang, a, case, obs)]."""
        self.b.generate([(l, a) for l, a, _ in vecs], ns="shp")
        todo = []
        for l, a, c in vecs:
            d, err = self.b.gen_shp[vkey(l, a)]
            if d is None:
                raise MachineryFailure("type shapes could not be generated for %s %r: %s" % (l, self.m.language_options(l, a), err))
            if (str(d), str(d), compiler) not in self.cache:
                todo.append((l, a, d))
        with concurrent.futures.ThreadPoolExecutor(max_workers=NCPU) as ex:
            for (l, a, d), o in zip(todo, ex.map(lambda t: self.b.build(t[0], t[1], t[2], t[2], compiler, ns="shp"), todo)):
                self.cache[(str(d), str(d), compiler)] = o
        out = []
        for l, a, c in vecs:
            d = self.b.gen_shp[vkey(l, a)][0]
            o = self.cache[(str(d), str(d), compiler)]
            self.add(l, a, a, o, "shapes", compiler)
            out.append((l, a, c, o))
        return out

    def add(self, lang, a, b, obs, source, compiler):
        rid = len(self.recs)
        self.recs.append(record(rid, lang, a, b, obs, self.m.keys[lang]))
        self.meta[rid] = (lang, a, b, obs, source, compiler)
        self.ctx.count()
        ea, eb = self.m.expand(lang, a), self.m.expand(lang, b)
        diff = sorted(k for k in ea if ea[k] != eb[k])
        cls = "same" if not diff else ("1:" + diff[0] if len(diff) == 1 else "n:%d" % len(diff))
        self.ctx.distinct("%s|%s|%s|%s|%s|%s" % (lang, compiler, cls, vkey(lang, a)[-8:], vkey(lang, b)[-8:], "shp" if source == "shapes" else "-"),
                          nontrivial=True)
        return rid

    def judge(self, recs=None):
        recs = self.recs if recs is None else recs
        rej = tlc.validate_traces(self.ctx, "OptionGuardTrace", recs, batch=max(50, (len(recs) + NCPU - 1) // NCPU), timeout=1500)
        for rid, clause in sorted(rej.items()):
            lang, a, b, obs, source, compiler = self.meta[rid]
            if clause.startswith("harness"):
                raise MachineryFailure("harness produced an inconsistent record: %r" % (self.recs[rid],))
            if clause.startswith("drift"):
                self.ctx.drift("%s: lang=%s fired=%r defs=%r (I-layer predicts the differing options %r and CRC-32 constants)" % (
                    clause, lang, obs["fired"], obs["defs"], sorted(k for k in a if self.m.expand(lang, a)[k] != self.m.expand(lang, b)[k])))
                continue
            self.ctx.violation(signature(lang, clause, a, b, obs, self.m), describe(lang, clause, a, b, obs, self.m),
                               {"lang": lang, "a": a, "b": b, "compiler": compiler, "source": source, "clause": clause,
                                "a_options": self.m.language_options(lang, a), "b_options": self.m.language_options(lang, b),
                                "observed": {k: obs[k] for k in ("rc", "msg", "fired", "fired_headers", "headers", "first_error", "stderr_head")}})
        return rej


# --------------------------------------------------------------------------------------------------------------------------
def tree_doc_check(ctx, model):
    """the documented defaults / short-hand groups of the tree under test vs. the model's tables (a difference is model drift)"""
    import yaml
    import nunavut.lang

    y = yaml.safe_load((pathlib.Path(nunavut.lang.__file__).parent / "properties.yaml").read_text())
    ok_groups = True
    for lang in ("c", "cpp"):
        sect = y.get("nunavut.lang." + lang, {})
        opts = sect.get("options", {})
        extra = sorted(set(opts) - set(model.keys[lang]))
        missing = sorted(set(model.keys[lang]) - set(opts))
        if extra:
            ctx.not_exercised("%s options of the tree that the model does not know (left at their default on both sides): %s" % (lang, extra))
        if missing:
            ctx.drift("%s options of the model that properties.yaml no longer lists: %s" % (lang, missing))
        for k in model.keys[lang]:
            if k in opts and opts[k] != dec(model.doc[lang][k][0]):
                ctx.drift("%s option %s: built-in default %r differs from the model's %r" % (lang, k, opts[k], dec(model.doc[lang][k][0])))
        if lang == "cpp":
            dfl = sect.get("defaults", {})
            for name, grp in model.groups.items():
                if name not in dfl or {k: v for k, v in dfl[name].items()} != pyvec(grp):
                    ok_groups = False
                    ctx.drift("language-standard short-hand %s: properties.yaml %r differs from the model's group" % (name, dfl.get(name)))
            for name in dfl:
                if name not in model.groups:
                    ctx.not_exercised("language-standard short-hand %s of the tree is not in the model" % name)
    return ok_groups


def collision_report(ctx, model):
    """CRC-32 collisions among the documented values of each option (computed with zlib, independently of the TLA+ CRC)"""
    n, coll = 0, []
    for lang in ("c", "cpp"):
        for k in model.keys[lang]:
            vals = [dec(v) for v in model.doc[lang][k] if v["t"] == "s"]
            hs = {}
            for v in vals:
                n += 1
                h = zlib.crc32(bytearray(v, "utf-8"))
                if h in hs and hs[h] != v:
                    coll.append((lang, k, hs[h], v))
                hs[h] = v
    ctx.cov["crc32_collisions_among_documented_values"] = {"string_values": n, "collisions": coll,
                                                           "note": "the guard compares CRC-32 of string values; two different values with equal CRC-32 "
                                                                   "would be mixed unnoticed - none exists among the documented values "
                                                                   "(zlib here, TLC invariant Injective on the TLA+ CRC in the model)"}
    if coll:
        for lang, k, x, y in coll:
            ctx.violation("C17|guard.iff|%s|crc32-collision|%s" % (lang, k), "documented values %r and %r of option %s have equal CRC-32" % (x, y, k),
                          {"lang": lang, "option": k, "values": [x, y]})


def mk_cfg(ctx, name, **kw):
    c = dict(Langs='{"c", "cpp"}', BaseSet='"families"', MaxMut=1, MinMut=0, MaxBoth=1, Star="TRUE", HashBits=32)
    c.update(kw)
    p = ctx.scratch / (name + ".cfg")
    p.write_text("SPECIFICATION Spec\nCONSTANTS\n" + "".join("  %s = %s\n" % kv for kv in c.items()) + "INVARIANT Emit\nCHECK_DEADLOCK FALSE\n")
    return str(p)


def dedupe(cases):
    seen, out = set(), []
    for c in cases:
        k = (c["lang"], json.dumps(c["a"], sort_keys=True), json.dumps(c["b"], sort_keys=True))
        if k not in seen:
            seen.add(k)
            out.append(c)
    return out


UNDOC = {
    "cast_format": ["(({type}){value})", "(({type}) {value} )", "(({type})  {value})", "((({type}) {value}))"],
    "std_flavor": ["Std", "std ", "étalon", "pmr2", "標準"],
    "allocator_type": ["std::allocator", "my::Alloc"],
    "variable_array_type_constructor_args": ["{MAX_SIZE} ", "{MAX_SIZE},0"],
    "std": ["gnu++17", "c++23"],
}


def random_pairs(ctx, model, n):
    rng = ctx.rng
    fam = []  # coherent cpp bases: expanded family vectors are produced by the emission; rebuild a few here
    d = model.default("cpp")
    pmr = dict(d)
    pmr.update(model.groups["c++17-pmr"])
    cetl = dict(d)
    cetl.update(model.groups["cetl++14-17"])
    fam = [d, pmr, cetl, dict(d, std=enc("c++17")), dict(d, std=enc("c++20")), dict(pmr, std=enc("c++20")), dict(d, std=enc("c++17-pmr")),
           dict(d, std=enc("cetl++14-17")), dict(d, variable_array_type_include=enc('"vector"'))]
    out = []
    for _ in range(n):
        lang = "c" if rng.random() < 0.3 else "cpp"
        keys = model.keys[lang]
        if lang == "c":
            a = {k: copy.deepcopy(rng.choice(model.doc[lang][k])) for k in keys}
        else:
            a = copy.deepcopy(rng.choice(fam))
            for k in keys:
                if k not in model.group_keys and rng.random() < 0.3:
                    a[k] = copy.deepcopy(rng.choice(model.doc[lang][k]))
        if rng.random() < 0.25:
            k = rng.choice([k for k in UNDOC if k in keys])
            a[k] = enc(rng.choice(UNDOC[k]))
        b = copy.deepcopy(a)
        nd = rng.choice([0, 1, 1, 2, 2, 3, 4, 6])
        for _ in range(nd):
            k = rng.choice(keys)
            if k in UNDOC and rng.random() < 0.35:
                b[k] = enc(rng.choice(UNDOC[k]))
            else:
                b[k] = copy.deepcopy(rng.choice(model.doc[lang][k]))
        if rng.random() < 0.5:
            a, b = b, a
        out.append((lang, a, b))
    return out


CLI_SETS = {
    "c": [([], {}), (["--target-endianness", "little"], {"target_endianness": "little"}),
          (["--target-endianness", "big"], {"target_endianness": "big"}),
          (["--omit-float-serialization-support"], {"omit_float_serialization_support": True}),
          (["--enable-serialization-asserts"], {"enable_serialization_asserts": True}),
          (["--enable-override-variable-array-capacity"], {"enable_override_variable_array_capacity": True})],
    "cpp": [([], {}), (["--language-standard", "c++17"], {"std": "c++17"}), (["--language-standard", "c++20"], {"std": "c++20"}),
            (["--language-standard", "c++17-pmr"], {"std": "c++17-pmr"}), (["--language-standard", "cetl++14-17"], {"std": "cetl++14-17"}),
            (["--target-endianness", "little", "--enable-serialization-asserts"], {"target_endianness": "little", "enable_serialization_asserts": True}),
            (["--omit-float-serialization-support"], {"omit_float_serialization_support": True})],
}


def cli_cases(ctx, model, builder, camp):
    """one side generated by the nnvg command line, the other through generate_types"""
    n = 0
    todo = []
    for lang, sets in CLI_SETS.items():
        api = []
        for args, o in sets:
            v = model.default(lang)
            v.update({k: enc(x) for k, x in o.items()})
            api.append(v)
        builder.generate([(lang, v) for v in api])
        dirs = []
        for i, (args, o) in enumerate(sets):
            d, err = builder.generate_cli(lang, args, "%s%d" % (lang, i))
            if d is None:
                raise MachineryFailure("nnvg failed for %s %r: %s" % (lang, args, err))
            dirs.append(d)
        for i, v in enumerate(api):
            dv, e = builder.gen[vkey(lang, v)]
            if dv is None:
                continue
            todo.append((lang, v, v, dirs[i], dv))       # CLI types vs API support, identical options
            todo.append((lang, v, v, dv, dirs[i]))       # API types vs CLI support
            j = (i + 1) % len(api)
            dj, e = builder.gen[vkey(lang, api[j])]
            if dj is not None:
                todo.append((lang, v, api[j], dirs[i], dj))   # CLI types vs API support of the next (different) set
                todo.append((lang, api[j], v, dj, dirs[i]))
    with concurrent.futures.ThreadPoolExecutor(max_workers=NCPU) as ex:
        obs = list(ex.map(lambda t: builder.build(t[0], t[1], t[3], t[4]), todo))
    for t, o in zip(todo, obs):
        camp.add(t[0], t[1], t[2], o, "cli", "gcc")
        n += 1
    return n


def doctored_selftest(ctx, model, builder):
    """end-to-end sensitivity without touching the repository: remove the assertion of one option from ONE generated type header and
    from ALL of them; the observation must change and the T-layer must reject (header_silent / mismatch_accepted)."""
    res = {}
    for lang, key, other in (("c", "enable_serialization_asserts", True), ("cpp", "std_flavor", "pmr")):
        a = model.default(lang)
        b = dict(a)
        b[key] = enc(other)
        builder.generate([(lang, a), (lang, b)])
        da, db = builder.gen[vkey(lang, a)][0], builder.gen[vkey(lang, b)][0]
        if da is None or db is None:
            raise MachineryFailure("self-test vectors could not be generated")
        # the assertion is recognised by the option's identifier as a whole word anywhere inside a static_assert statement (operand order, brackets,
        # namespace qualification and message wording are the templates' business)
        ident = r"\bNUNAVUT_SUPPORT_LANGUAGE_OPTION_" + key.upper() + r"\b" if lang == "c" else r"\boptions::" + key + r"\b"
        base = tlc.validate_traces(ctx, "OptionGuardTrace", [record(0, lang, a, b, builder.build(lang, a, da, db), model.keys[lang])])
        if str(base.get(0, "")).startswith("guard"):
            res[(lang, "one")] = res[(lang, "all")] = None  # the unmodified pair already violates the property: nothing to demonstrate on
            continue
        ctx.cov["traces_validated_against_impl"] -= 1 - len(base)
        for mode in ("one", "all"):
            doc = builder.root / "doctored" / (lang + mode)
            shutil.copytree(da, doc, symlinks=True)
            n = 0
            for h in sorted((doc / "vns").rglob("*_1_0.h*")):
                if mode == "one" and h.name.split("_")[0] != "Un":
                    continue
                txt = h.read_text()
                new = re.sub(r"static_assert\(\s*[^;]*?" + ident + r"[^;]*?\);", "", txt, flags=re.S)
                n += new != txt
                h.write_text(new)
            if n == 0:   # the doctoring does not recognise this tree's assertion text: the end-to-end self-test cannot be set up (the record-level ones remain)
                res[(lang, mode)] = "not-set-up"
                continue
            obs = builder.build(lang, a, doc, db)
            rec = record(0, lang, a, b, obs, model.keys[lang])
            rej = tlc.validate_traces(ctx, "OptionGuardTrace", [rec])
            res[(lang, mode)] = rej.get(0)
    return res


def phase(ctx, name):
    import time

    now = time.time()
    ctx.cov.setdefault("phase_wall_s", []).append([name, round(now - ctx.t0, 1)])


def run(ctx):
    # 1. the bounded design: I-layer refines P for all pairs around all bases; collision check; negative control
    tlc.check_model(ctx, "OptionGuard", "OptionGuard",
                    constants="Langs={c,cpp} bases: all 48 c vectors, 14 documented cpp families; <=1 both-side + <=1 single-side change; CRC-32", timeout=1500)
    if not ctx.quick:
        tlc.check_model(ctx, "OptionGuard", "OptionGuard_commons", constants="cpp bases = 14 families x all 48 vectors of the family-independent options",
                        timeout=3000)
        tlc.check_model(ctx, "OptionGuard", "OptionGuard_mut2", constants="all pairs within two single-side changes of every c vector and of 7 cpp representatives",
                        timeout=3000)
    neg = tlc.run_tlc(tlc.SPECS / "OptionGuard.tla", tlc.SPECS / "OptionGuard_neg.cfg", ctx.scratch, timeout=1500)
    if neg.violated != "Refines":
        raise MachineryFailure("negative control: a 1-bit hash was not refuted by TLC (%s %s)" % (neg.error, neg.violated))
    ctx.cov["model_negative_control"] = "HashBits=1 (colliding hash) refuted by invariant Refines after %d states" % neg.distinct

    phase(ctx, "model checked")
    model = Model(ctx)
    groups_ok = tree_doc_check(ctx, model)
    collision_report(ctx, model)
    builder = Builder(ctx, model)
    camp = Campaign(ctx, model, builder)

    # 2. spec -> code: enumerated pairs (differ in exactly one option, both directions; identical pairs) + simulated multi-option pairs
    emit_cfg = ctx.pick("OptionGuard_emitq", "OptionGuard_emit")
    cases = tlc.emit_cases(ctx, "OptionGuard", emit_cfg, name=emit_cfg + ".cfg",
                           constants="star of single-option changes around every base (all 48 c vectors, %s), both directions, identical pairs"
                                     % ctx.pick("7 cpp representatives", "14 cpp families"), timeout=1500)
    nsim = ctx.pick(100, 1200)
    for lang in ("c", "cpp"):
        cfg = mk_cfg(ctx, "sim_" + lang, Langs='{"%s"}' % lang, MaxMut=6, MinMut=2, MaxBoth=1, Star="FALSE")
        cases += tlc.emit_cases(ctx, "OptionGuard", cfg, name="simulation %s (several options differ)" % lang, constants="MaxMut=6",
                                simulate="num=%d" % (nsim // 4 if lang == "c" else nsim), depth=16, seed=ctx.seed + 17, timeout=1500)
    phase(ctx, "cases emitted")
    cases = dedupe(cases)
    if len(cases) < 700:
        raise MachineryFailure("too few cases emitted: %d" % len(cases))
    if not groups_ok:
        before = len(cases)
        cases = [c for c in cases if dec(c["a"].get("std", enc(""))) not in model.groups and dec(c["b"].get("std", enc(""))) not in model.groups]
        ctx.not_exercised("%d cases using a language-standard short-hand (its group in properties.yaml differs from the model)" % (before - len(cases)))

    compilers = ["gcc"] + (["clang"] if (not ctx.quick and builder.have_clang) else [])
    n_generr = n_invalid_expected = 0
    perturbed_checked = False
    for compiler in compilers:
        # the second compiler sees every second case (its job is to show that the verdict is not a gcc artefact)
        sel = cases if compiler == "gcc" else cases[::2]
        res = camp.run_pairs([(c["lang"], c["a"], c["b"], c) for c in sel], "model", compiler)
        for (lang, a, b, case), obs, why in res:
            if obs is None:
                n_generr += 1
                if case["valid_a"] and case["valid_b"]:
                    ctx.drift("generator refused an option set the model takes for valid: %s %r: %s" % (lang, model.language_options(lang, a if not case["valid_a"] else b), why))
                else:
                    n_invalid_expected += 1
                continue
            if not (case["valid_a"] and case["valid_b"]):
                ctx.drift("generator accepted an option set the model takes for invalid (ctor convention without allocator): %s" % lang)
            clause = p_expect_clause(case, obs)
            if clause:
                ctx.violation(signature(lang, clause, a, b, obs, model), describe(lang, clause, a, b, obs, model),
                              {"lang": lang, "a": a, "b": b, "compiler": compiler, "source": "model", "clause": clause,
                               "a_options": model.language_options(lang, a), "b_options": model.language_options(lang, b),
                               "expected_by_P": {"ok": case["p_ok"], "mismatch_message": case["p_msg"]},
                               "observed": {k: obs[k] for k in ("rc", "msg", "fired", "fired_headers", "headers", "first_error", "stderr_head")}})
            elif not perturbed_checked and case["p_ok"] == "no":
                # binding self-test of this direction: a perturbed expectation must be noticed by the comparison
                bad = dict(case, p_ok="yes", p_msg=False)
                ctx.selftest("spec->code: perturbed expected outcome is reported by the driver", p_expect_clause(bad, obs) is not None)
                perturbed_checked = True
            if case["i_rc"] in (0, 1) and obs["fired_known"] and sorted(obs["fired"]) != sorted(case["i_fired"]) and clause is None:
                ctx.drift("failing assertions %r differ from the I-layer prediction %r (%s)" % (obs["fired"], case["i_fired"], lang))
    ctx.cov["generator_refusals"] = {"total": n_generr, "predicted_by_model(Valid)": n_invalid_expected}
    phase(ctx, "enumerated pairs built")

    # 2b. identical option sets x TYPE SHAPES: every identical pair TLC printed for which P fixes `builds` (all 48 c vectors; the cpp
    # bases and their coherent neighbours) is also built with the shape namespace - one build per option set covers every shape.
    shp = [(c["lang"], c["a"], c) for c in cases if c["p_ok"] == "yes" and c["a"] == c["b"] and c["valid_a"]]
    if len([1 for l, _, _ in shp if l == "c"]) < 48 or len([1 for l, _, _ in shp if l == "cpp"]) < 20:
        raise MachineryFailure("too few identical option sets for the shape builds: %d" % len(shp))
    nshape_hdr = 0
    for compiler in compilers:
        for lang, a, case, obs in camp.run_shapes(shp, compiler):
            nshape_hdr += len(obs["headers"])
            clause = p_expect_clause(case, obs)
            if clause:
                ctx.violation(signature(lang, clause, a, a, obs, model), describe(lang, clause, a, a, obs, model) + " [type shapes]",
                              {"lang": lang, "a": a, "b": a, "compiler": compiler, "source": "shapes", "clause": clause,
                               "a_options": model.language_options(lang, a), "b_options": model.language_options(lang, a),
                               "expected_by_P": {"ok": case["p_ok"], "mismatch_message": case["p_msg"]},
                               "observed": {k: obs[k] for k in ("rc", "msg", "fired", "fired_headers", "first_error", "stderr_head")}})
    ctx.cov["shape_builds"] = {"option_sets": len(shp), "compilers": compilers, "shape_types": len(shape_types()), "type_headers_compiled": nshape_hdr}
    phase(ctx, "shape builds done")
    ex = next(c for c in cases if c["lang"] == "cpp" and c["p_ok"] == "no" and len(c["reqdiff"]) == 1)
    ctx.sample({"direction": "spec->code", "lang": "cpp", "differs_in": ex["reqdiff"], "types_options": model.language_options("cpp", ex["a"]),
                "support_options": model.language_options("cpp", ex["b"]), "expected_by_P": {"ok": ex["p_ok"], "mismatch_message": ex["p_msg"]}})

    # 3. code -> spec: seeded random pairs (incl. undocumented / unicode / near-identical values) and the command-line path
    rp = random_pairs(ctx, model, ctx.pick(100, 1000))
    res = camp.run_pairs(rp, "random")
    nskip = sum(1 for _, o, _ in res if o is None)
    ncli = cli_cases(ctx, model, builder, camp)
    ctx.cov["random_pairs"] = {"built": len(rp) - nskip, "skipped_generator_refused": nskip, "cli_builds": ncli}

    phase(ctx, "random + cli pairs built")
    rej = camp.judge()
    phase(ctx, "traces judged")
    some = next((r for r in camp.recs if r["rc"] != 0 and r["msg"] and r["id"] not in rej), None)
    if some:
        lang, a, b, obs, source, compiler = camp.meta[some["id"]]
        ctx.sample({"direction": "code->spec", "event": "compile", "lang": lang, "a": model.language_options(lang, a), "b": model.language_options(lang, b),
                    "rc": obs["rc"], "has_mismatch_text": obs["msg"], "fired": obs["fired"], "fired_headers": obs["fired_headers"],
                    "defs": obs["defs"], "diagnostic": obs["stderr_head"][:300]})

    # 4. binding self-tests: corrupted records must be rejected with the right clause
    acc = [r for r in camp.recs if not str(rej.get(r["id"], "")).startswith("guard")]     # accepted by the P-layer
    diff = next((r for r in acc if r["rc"] != 0 and r["msg"] and len(r["headers"]) > 1 and len(r["defs"]) > 1), None)
    same = next((r for r in acc if r["rc"] == 0 and r["lang"] == "c"), None)
    if diff is None or same is None:
        if not ctx.violations:
            raise MachineryFailure("no accepted record to run the binding self-test on")
        # a tree on which no pair behaves: fall back to records built from the model's own prediction
        d = model.default("c")
        o = {"rc": 1, "msg": True, "headers": ["x", "y"], "fired_headers": ["x", "y"], "fired": ["target_endianness"], "fired_known": True,
             "defs": {}, "asrt": {}}
        if diff is None:
            diff = record(0, "c", d, dict(d, target_endianness=enc("little")), o, model.keys["c"])
            diff["defs"] = {"target_endianness": [0, 0], "cast_format": [0, 0]}
        same = same or record(0, "c", d, d, dict(o, rc=0, msg=False, fired_headers=[], fired=[]), model.keys["c"])
    tests = [("rc of a mismatching pair set to 0", dict(diff, rc=0), "guard.iff.mismatch_accepted"),
             ("mismatch text of a mismatching pair removed", dict(diff, msg=False), "guard.message.missing"),
             ("one type header made silent", dict(diff, fired_headers=diff["fired_headers"][1:]), "guard.message.header_silent"),
             ("rc of an identical pair set to 1", dict(same, rc=1), "guard.iff.identical_rejected"),
             ("mismatch text on an identical pair", dict(same, msg=True), "guard.message.spurious"),
             ("one rendered constant changed", dict(diff, defs=dict(diff["defs"], **{sorted(diff["defs"])[0]: [1, 2]})), "drift.render")]
    batch = [dict(t[1], id=i) for i, t in enumerate(tests)]
    r2 = tlc.validate_traces(ctx, "OptionGuardTrace", batch)
    ctx.cov["traces_validated_against_impl"] -= len(batch) - len(r2)
    for i, (name, _, want) in enumerate(tests):
        ctx.selftest("T-layer: %s -> %s" % (name, want), r2.get(i) == want)
    dres = doctored_selftest(ctx, model, builder)
    for lang in ("c", "cpp"):
        if dres[(lang, "one")] is None and ctx.violations:
            ctx.not_exercised("end-to-end self-test for %s skipped: the unmodified pair already violates the property" % lang)
            continue
        if "not-set-up" in (dres[(lang, "one")], dres[(lang, "all")]):
            ctx.not_exercised("end-to-end self-test for %s skipped: no static_assert statement naming the option was found in the generated type headers "
                              "(the assertion may be spelled in a way the doctoring does not recognise)" % lang)
            continue
        for name, ok in (("end-to-end: assertion removed from one generated %s type header -> header_silent" % lang,
                          dres[(lang, "one")] == "guard.message.header_silent"),
                         ("end-to-end: assertion removed from every generated %s type header -> mismatch_accepted" % lang,
                          dres[(lang, "all")] == "guard.iff.mismatch_accepted")):
            if not ok and ctx.violations:
                # the doctored headers come from the tree under test: on a tree that violates the property the demonstration is void, not the machinery
                ctx.not_exercised("%s: not demonstrable on this tree (it violates the property itself, see the verdicts)" % name)
            else:
                ctx.selftest(name, ok)

    phase(ctx, "self-tests done")
    ctx.cov["rule"] = ("one evaluation = one build of a translation unit (type headers generated with option set a + support header generated with "
                       "option set b, -fsyntax-only, %s); spec->code: every pair printed by TLC (all ordered pairs differing in exactly one documented "
                       "option value around all 48 c vectors and %s, both directions, all identical pairs of the vectors "
                       "involved, simulated pairs with up to 6 differing options; every identical pair for which P fixes `builds` additionally with a namespace "
                       "of %d type shapes - variable/fixed arrays of bool/uint8/uint16/uint24/int40/float/composite elements with capacity 255/256/65535/65536 "
                       "at aligned and unaligned offsets, integers 8..64 aligned/unaligned, floats, nested sealed/delimited composites, unions, empty "
                       "types, services); code->spec: seeded random pairs incl. undocumented string values and "
                       "nnvg command-line generated sides; distinct = (target, compiler, which option(s) differ, option vector a, option vector b)"
                       % ("+".join(compilers), ctx.pick("7 representatives of the documented cpp families", "the 14 documented cpp families"), len(shape_types())))
    ctx.cov["exhaustive"] = False
    ctx.assumptions += ["TLC and the OptionGuardP/OptionGuard/OptionGuardTrace specifications",
                        "gcc/g++ 12 (thorough: also clang 14) evaluate static assertions under -fsyntax-only as in a full build",
                        "documented values = built-in defaults and language-standard groups of lang/properties.yaml (cross-checked with the tree each run), "
                        "values listed in docs/templates.rst, the CLI choices; cast_format has one documented value per target, a second equivalent "
                        "spelling is used so that it can differ",
                        "CETL is not available offline: the cetl++14-17 option VALUES are used with small stand-in headers written by the check"]
    ctx.not_exercised("identical-options => build succeeds is asserted only for the documented families (plain std::vector, c++17-pmr group, cetl++14-17 "
                      "group against the stand-in headers); for other combinations (uses-leading-allocator with std::vector, allocator group mixed "
                      "by hand) only `no language-option assertion fails` is asserted")
    ctx.not_exercised("real CETL headers (cetl++14-17 builds use stand-ins); unions holding composites are left out of the translation unit when the "
                      "allocator is not default constructible (generated deserializer default-constructs the alternative)")
    if not builder.have_clang:
        ctx.not_exercised("clang (not installed)")


def replay(ctx, case):
    model = Model(ctx)
    builder = Builder(ctx, model)
    camp = Campaign(ctx, model, builder)
    if "option" in case and "a" not in case:
        collision_report(ctx, model)
        return
    if case.get("source") == "shapes":
        camp.run_shapes([(case["lang"], case["a"], None)], case.get("compiler", "gcc"))
        camp.judge()
        return
    res = camp.run_pairs([(case["lang"], case["a"], case["b"])], "replay", case.get("compiler", "gcc"))
    if res[0][1] is None:
        print("replay: the generator refused the option set: %s" % res[0][2])
        return
    camp.judge()
