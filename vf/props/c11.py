"""C11 - types map one-to-one onto files in the output tree; the namespace model handed to templates is a tree.

Model:      specs/NamespaceTree.tla.  Part 1 (P-layer) states the property on a projection of one execution (types given,
            namespace objects reachable from the root, links, type->path map, path lookups, file-system entries created below
            an enclosing sandbox root, include paths found in dependants).  Part 2 (I-layer) is build_namespace_tree step by
            step (VisitType, IndexAncestors with its `break`, AddType, LinkNamespace in arbitrary order with lazily made empty
            namespaces and the set-of-objects-compared-by-stropped-name semantics, ReturnRoot, Generate).  TLC checks I => P
            (invariant Refines) for all type lists over a pool of names incl. a reserved word and its fold partner.
spec->code: every terminal state of the model (type list in caller order + predicted tree / paths / file count) becomes a
            scratch DSDL tree, is read by pydsdl and run through the real build_namespace_tree + generators for the
            languages of the model's stropping mode; the recorded projection is judged by the T-layer (P only) and compared
            with the I-layer's prediction (difference with P satisfied = drift note).
code->spec: seeded random larger type sets (depth <= 6, <= 10 types, services/unions/delimited, several versions, names that
            need stropping in some language, dependencies inside the root and from another root) x c/cpp/py/html x
            extension / namespace-stem overrides x output directory spellings, through the API and the CLI, in worker
            processes with different PYTHONHASHSEED (set iteration orders); judged by specs/NamespaceTreeTrace.tla.
"""
import ast
import contextlib
import io
import itertools
import json
import os
import pathlib
import re
import shutil
import subprocess
import sys
import traceback

from ..core import MachineryFailure, NCPU, sha
from .. import tlc

LANGS = ("c", "cpp", "py", "html")
MODE_LANGS = {"prefix": ("c", "cpp"), "suffix": ("py",), "none": ("html",)}
SPELLINGS = ("rel", "dot", "abs", "slash", "abs_slash", "dotdot", "nested", "dotdot_abs", "symlink", "symlink_abs")
EXTS = {"c": (None, ".hh", ".gen.h"), "cpp": (None, ".h", ".x.hpp"), "py": (None, ".pyi"), "html": (None, ".htm")}
STEMS = (None, "nsinfo", "_")
BODY = {
    "struct": "uint8 a\n@sealed\n",
    "union": "@union\nuint8 a\nuint16 b\n@sealed\n",
    "delimited": "uint8 a\n@extent 64\n",
    "service": "uint8 a\n@sealed\n---\nuint8 b\n@sealed\n",
}
# names legal in DSDL (probed against pydsdl 1.25); several are reserved / patterned in some target language
NAME_POOL = ["a", "b", "x", "if", "_if", "if_", "str", "str_", "for", "class", "None", "_Foo", "_foo", "__a", "_a", "Foo", "x_t", "def",
             "is", "union", "import", "print", "list", "zX0041", "A1", "NULL", "double", "register", "pass", "in", "as", "del", "_",
             "T", "U", "if_1_0", "T_1_0", "tostr", "isx", "EAB", "atomic_x", "memb", "SIGX", "E1", "uint_t"]
VERSIONS = [(1, 0), (1, 1), (0, 1), (2, 3), (1, 10), (10, 12), (255, 255)]


def cps(s):
    return [ord(c) for c in s]


def to_s(cp):
    return "".join(map(chr, cp))


def pcomps(parts):
    return [cps(p) for p in parts]


# =====================================================================================================================
# worker side: drives the real code (runs in a subprocess with its own PYTHONHASHSEED)
# =====================================================================================================================
def type_key(t):
    return (".".join(t["ns"] + [t["short"]]), t["maj"], t["min"])


def dsdl_text(job, t):
    body = BODY[t.get("kind", "struct")]
    lines = []
    for n, d in enumerate(t.get("deps", [])):
        dt = job["types"][d]
        lines.append("%s.%s.%d.%d f%d\n" % (".".join(dt["ns"]), dt["short"], dt["maj"], dt["min"], n))
    return "".join(lines) + body


def write_dsdl(job, jdir):
    root = jdir / "dsdl" / job["root"]
    root.mkdir(parents=True, exist_ok=True)  # the empty type set: a root namespace directory without definitions
    for t in job["types"] + job.get("disk", []):
        d = root.joinpath(*t["ns"][1:])
        d.mkdir(parents=True, exist_ok=True)
        (d / ("%s.%d.%d.dsdl" % (t["short"], t["maj"], t["min"]))).write_text(dsdl_text(job, t))
    return root


def snapshot(top):
    res = set()
    for dp, dns, fns in os.walk(str(top)):
        rel = os.path.relpath(dp, str(top))
        base = () if rel == "." else tuple(rel.split(os.sep))
        for d in dns:
            res.add((base + (d,), True))
        for f in fns:
            res.add((base + (f,), False))
    return res


def spell(sand, how):
    """returns (spelled output directory, true location, directories to pre-create)"""
    out = sand / "out"
    if how == "rel":
        return "out", out, []
    if how == "dot":
        return "./out", out, []
    if how == "abs":
        return str(out), out, []
    if how == "slash":
        return "out/", out, []
    if how == "abs_slash":
        return str(out) + "/", out, []
    if how == "dotdot":
        return "sub/../out", out, [sand / "sub"]
    if how == "dotdot_abs":
        return str(sand) + "/sub/../out", out, [sand / "sub"]
    if how == "nested":
        return "x/y/out", sand / "x" / "y" / "out", []
    if how == "symlink":  # lnk -> real (made by the caller of spell)
        return "lnk/out", sand / "real" / "out", [sand / "real", ("link", sand / "lnk", "real")]
    if how == "symlink_abs":
        return str(sand / "lnk" / "out"), sand / "real" / "out", [sand / "real", ("link", sand / "lnk", "real")]
    raise ValueError(how)


def relcomps(p, cwd, top):
    """components of the location path p denotes (as the tool spelled it: relative ones against cwd, `..` and symbolic links resolved)
    relative to directory `top`"""
    absn = os.path.realpath(os.path.join(str(cwd), str(p)))
    rel = os.path.relpath(absn, os.path.realpath(str(top)))
    return [] if rel == "." else rel.split(os.sep)


LCTX_CACHE = {}


def make_lctx(run, fresh=True):
    """A LanguageContext per run.  Runs whose include paths are read always get a fresh one (Language.get_dependency_builder memoises
    on pydsdl type equality: another property's business); the others share one per configuration."""
    from nunavut.lang import LanguageContextBuilder, Language

    key = (run["lang"], run.get("ext"), run.get("stem"), bool(run.get("nostrop")))
    if not fresh and key in LCTX_CACHE:
        return LCTX_CACHE[key]
    lctx = _make_lctx(run, LanguageContextBuilder, Language)
    if not fresh:
        LCTX_CACHE[key] = lctx
    return lctx


def _make_lctx(run, LanguageContextBuilder, Language):
    b = LanguageContextBuilder(include_experimental_languages=True).set_target_language(run["lang"])
    if run.get("ext") is not None:
        b.set_target_language_extension(run["ext"])
    if run.get("stem") is not None:
        b.set_target_language_configuration_override(Language.WKCV_NAMESPACE_FILE_STEM, run["stem"])
    if run.get("nostrop"):  # `enable_stropping: false`: judged by the spelling-independent clauses only (NamespaceTree!Lax)
        b.set_target_language_configuration_override(Language.WKCV_ENABLE_STROPPING, False)
    return b.create()


def parse_refs_c(text):
    incs = []
    for m in re.finditer(r'^[ \t]*#[ \t]*include[ \t]*[<"]([^>"]+)[>"]', text, re.M):
        incs.append(m.group(1).split("/"))
    return incs


def parse_refs_py(text):
    tree = ast.parse(text)
    pkgs = set()
    for node in ast.walk(tree):
        if isinstance(node, ast.Import):
            for a in node.names:
                if a.asname is None:
                    pkgs.add(tuple(a.name.split(".")))
    refs = []

    def chain(node):
        parts = []
        while isinstance(node, ast.Attribute):
            parts.append(node.attr)
            node = node.value
        if isinstance(node, ast.Name):
            parts.append(node.id)
            return list(reversed(parts))
        return None

    inner = set()
    for node in ast.walk(tree):
        if isinstance(node, ast.Attribute):
            inner.add(id(node.value))
    for node in ast.walk(tree):
        if isinstance(node, ast.Attribute) and id(node) not in inner:
            parts = chain(node)
            if not parts:
                continue
            best = 0
            for k in range(1, len(parts)):
                if tuple(parts[:k]) in pkgs:
                    best = k
            if best:
                ref = parts[:best + 1]
                if ref not in refs:
                    refs.append(ref)
    return refs


def parse_refs(lang, path):
    with open(str(path), "r", encoding="utf-8") as f:
        text = f.read()
    if lang in ("c", "cpp"):
        seen = []
        for i in parse_refs_c(text):
            if i not in seen:
                seen.append(i)
        return seen, "path"
    if lang == "py":
        return parse_refs_py(text), "module"
    return None, None


USER_TPL = None


def user_templates(base):
    global USER_TPL
    if USER_TPL is None:
        USER_TPL = base / "tpl"
        USER_TPL.mkdir(exist_ok=True)
        # a user template that asks the generator, for every type and namespace, where its output is (public filter type_to_include_path)
        (USER_TPL / "Any.j2").write_text("{{ T.full_name }}\nINC:{{ T | type_to_include_path }}\n")
    return USER_TPL


def run_cli(argv):
    """nnvg in-process; returns what it printed on stdout (the --list-outputs listing)"""
    import nunavut.cli
    import logging

    old = sys.argv
    sys.argv = ["nnvg"] + argv
    buf = io.StringIO()
    try:
        with contextlib.redirect_stdout(buf):
            nunavut.cli.main()
    finally:
        sys.argv = old
        logging.getLogger().handlers[:] = []
    return buf.getvalue()


def rawparts(p):
    return list(pathlib.PurePath(str(p)).parts)


def strip_tail(p, k):
    return p[:len(p) - k] if 0 <= k <= len(p) else []


def do_run(base, job, jdir, dsdl_root, by_key, run):
    import nunavut
    import pydsdl
    from nunavut.jinja import DSDLCodeGenerator, SupportGenerator
    from nunavut import YesNoDefault

    lang = run["lang"]
    sand = jdir / ("s%s" % run["rid"])
    sand.mkdir()
    spelled, true_out, pre = spell(sand, run.get("spell", "rel"))
    for d in pre:
        if isinstance(d, tuple):
            os.symlink(d[2], str(d[1]))
        else:
            d.mkdir()
    os.chdir(str(sand))
    before = snapshot(sand)
    types = job["types"]
    nt = len(types)
    keyidx = {type_key(t): i + 1 for i, t in enumerate(types)}
    tobjs = [by_key[type_key(t)] for t in types]
    order = run.get("order") or list(range(nt))
    tlist = [tobjs[i] for i in order]
    err = None
    lctx = make_lctx(run, fresh=(run.get("gen") == "builtin"))
    L = lctx.get_target_language()
    ext = run["ext"] if run.get("ext") is not None else L.extension
    names = []
    for t in types:
        for c in t["ns"] + ["%s_%d_%d" % (t["short"], t["maj"], t["min"])]:
            if c not in names:
                names.append(c)
    strop = []
    for n in names:
        try:
            strop.append({"n": cps(n), "s": cps(L.filter_id(n, "path"))})
        except Exception as e:  # the language refuses the identifier
            strop.append({"n": cps(n), "s": cps(n)})
            err = "filter_id(%r): %r" % (n, e)
    rec = {"id": run["rid"], "types": [{"ns": pcomps(t["ns"]), "short": cps(t["short"]), "maj": t["maj"], "min": t["min"]} for t in types],
           "strop": strop, "ext": cps(ext), "nodes": [], "pobs": True, "root": 0, "walk_types": [], "walk_ns": [], "walk_any": [], "find": [],
           "generated": False, "outdir": pcomps(relcomps(true_out, sand, sand)), "created": [], "other": [], "refs": [],
           "given": pcomps(pathlib.PurePath(spelled).parts), "denote": [], "slisted": []}
    if run.get("nostrop"):
        rec["lax"] = True
    obs = {"root": None, "nodes": [], "tpaths": [[] for _ in types], "nfiles": None, "as_given": None}
    gen_mode = run.get("gen", "none")
    gen_ns_req = run.get("gen_ns")
    tloc = os.path.realpath(str(true_out))

    def add_denote(b):
        e = {"b": pcomps(b), "ok": bool(b) and os.path.realpath(os.path.join(str(sand), *b)) == tloc}
        if e not in rec["denote"]:
            rec["denote"].append(e)

    def add_listed(paths):
        """paths the support generator lists / returns / prints: as spelled, and where they are relative to the output directory"""
        for p in paths:
            rp, rl = rawparts(p), relcomps(p, sand, true_out)
            e = {"raw": pcomps(rp), "rel": pcomps(rl)}
            if e not in rec["slisted"]:
                rec["slisted"].append(e)
                add_denote(strip_tail(rp, len(rl)))
        return [relcomps(p, sand, true_out) for p in paths]

    root_ns = None
    try:
        root_ns = nunavut.build_namespace_tree(tlist, str(dsdl_root), spelled, lctx)
    except Exception as e:
        err = "build_namespace_tree: %r" % (e,)
    nodes = []
    if root_ns is not None:
        try:
            rroot = pathlib.Path(dsdl_root).resolve()
            idx = {}
            queue = [root_ns]
            while queue:
                n = queue.pop(0)
                if id(n) in idx:
                    continue
                idx[id(n)] = len(nodes) + 1
                nodes.append(n)
                queue.extend(list(n.get_nested_namespaces()))
            unknown = len(nodes) + 1

            st = {to_s(e["n"]): to_s(e["s"]) for e in strop}
            by_stropped = {}
            for t in types:
                for k in range(1, len(t["ns"]) + 1):
                    by_stropped.setdefault(".".join(st[c] for c in t["ns"][:k]), set()).add(tuple(t["ns"][:k]))

            def dsdl_of(n):
                if not types:
                    return []  # the empty namespace of the empty model has no DSDL name
                return dsdl_of_(n)

            def dsdl_of_(n):
                """the DSDL identity of a namespace object: its source folder below the root namespace directory (public duck-typed
                property); if that is not available, its (stropped) full name where that is unambiguous"""
                try:
                    rel = pathlib.Path(n.source_file_path).relative_to(rroot)
                    return [job["root"]] + list(rel.parts)
                except AttributeError:
                    cands = by_stropped.get(str(getattr(n, "full_namespace", "")), set())
                    return list(next(iter(cands))) if len(cands) == 1 else ["?"]
                except Exception:
                    return ["?"]

            def tindex(t):
                try:
                    return keyidx.get((t.full_name, t.version.major, t.version.minor), 0)
                except Exception:
                    return 0

            def rc(p):
                return relcomps(p, sand, true_out)

            raw, strip = rawparts, strip_tail
            nsfile = {}
            for x, p in root_ns.get_all_namespaces():
                nsfile.setdefault(id(x), raw(p))
            bases = []
            missing = object()
            for n in nodes:
                par = getattr(n, "_parent", missing)
                if par is missing:
                    rec["pobs"] = False
                    pidx = 0
                else:
                    pidx = 0 if par is None else idx.get(id(par), unknown)
                kids = [idx[id(k)] for k in n.get_nested_namespaces()]
                nt_items = list(n.get_nested_types())
                ntypes = [tindex(t) for t, _ in nt_items]
                npaths = [rc(p) for _, p in nt_items]
                dn_ = dsdl_of(n)
                try:
                    rfind = raw(root_ns.find_output_path_for_type(n))
                except Exception:
                    rfind = []
                rdir, rout, rpaths = raw(n.output_folder), nsfile.get(id(n), []), [raw(p) for _, p in nt_items]
                for b in [strip(rdir, len(dn_)), strip(rout, len(dn_) + 1), strip(rfind, len(dn_) + 1)] + [strip(rp, len(q)) for rp, q in zip(rpaths, npaths)]:
                    if b not in bases:
                        bases.append(b)
                rec["nodes"].append({"dsdl": pcomps(dn_), "parent": pidx, "kids": kids, "types": ntypes, "paths": [pcomps(p) for p in npaths],
                                     "up": idx.get(id(n.get_root_namespace()), unknown),
                                     "rdir": pcomps(rdir), "rout": pcomps(rout), "rfind": pcomps(rfind), "rpaths": [pcomps(p) for p in rpaths]})
                for ti, p in zip(ntypes, npaths):
                    if ti and not obs["tpaths"][ti - 1]:
                        obs["tpaths"][ti - 1] = p
            for b in bases:
                add_denote(b)
            obs["as_given"] = bases == [list(pathlib.PurePath(spelled).parts)]
            rec["root"] = 1
            rec["walk_types"] = [tindex(t) for t, _ in root_ns.get_all_datatypes()]
            rec["walk_ns"] = [idx.get(id(n), unknown) for n, _ in root_ns.get_all_namespaces()]
            for x, _ in root_ns.get_all_types():
                if isinstance(x, nunavut.Namespace):
                    rec["walk_any"].append({"k": "ns", "i": idx.get(id(x), unknown)})
                else:
                    rec["walk_any"].append({"k": "ty", "i": tindex(x)})
            for n in nodes:
                row = []
                for t in tobjs:
                    try:
                        row.append(pcomps(rc(n.find_output_path_for_type(t))))
                    except Exception:
                        row.append([])
                rec["find"].append(row)
            dn = {i + 1: dsdl_of(n) for i, n in enumerate(nodes)}
            obs["root"] = dn[1]
            for k, nd in enumerate(rec["nodes"]):
                obs["nodes"].append([dn[k + 1], dn.get(nd["parent"], []) if nd["parent"] else [], sorted(dn[c] for c in nd["kids"]),
                                     sorted(nd["types"])])
            obs["nodes"].sort()
        except Exception as e:
            err = "projection: %r\n%s" % (e, traceback.format_exc()[-1500:])
            rec["nodes"], rec["find"], rec["root"] = [], [], 0
    # ---- generation
    tfile = {}
    if root_ns is not None and gen_mode == "support" and err is None:
        # a support-only run: `nnvg --generate-support only` (dry-run listing, then the real run) / SupportGenerator over the model
        try:
            if run.get("via") == "cli":
                argv = ["--target-language", lang, "--experimental-languages", "--outdir", spelled]
                if run.get("ext") is not None:
                    argv += ["--output-extension", run["ext"]]
                argv += ["--generate-support", "only"]
                listing = run_cli(argv + ["--list-outputs", str(dsdl_root)])
                other = add_listed([x for x in listing.split(";") if x])
                run_cli(argv + [str(dsdl_root)])
            else:
                sg = SupportGenerator(root_ns)
                other = add_listed(list(sg.generate_all(is_dryrun=True)))
                other += [x for x in add_listed(list(sg.generate_all(False))) if x not in other]
            rec["generated"] = True
            rec["other"] = [pcomps(p) for p in other]
        except Exception as e:
            err = "support generation: %r\n%s" % (e, traceback.format_exc()[-1500:])
            rec["generated"] = True
    elif root_ns is not None and gen_mode != "none" and err is None:
        try:
            kw = {}
            if gen_ns_req is not None:
                kw["generate_namespace_types"] = YesNoDefault.YES if gen_ns_req else YesNoDefault.NO
            if gen_mode == "user":
                kw["templates_dir"] = user_templates(base)
            other = []
            if run.get("via") == "cli":
                argv = ["--target-language", lang, "--experimental-languages", "--outdir", spelled]
                if run.get("ext") is not None:
                    argv += ["--output-extension", run["ext"]]
                if run.get("stem") is not None:
                    argv += ["--namespace-output-stem", run["stem"]]
                if gen_mode == "user":
                    argv += ["--templates", str(user_templates(base))]
                if gen_ns_req:
                    argv += ["--generate-namespace-types"]
                argv += ["--generate-support", "always" if run.get("support") else "never", str(dsdl_root)]
                gen = DSDLCodeGenerator(root_ns, **kw)
                if run.get("support"):
                    other += add_listed(list(SupportGenerator(root_ns).generate_all(is_dryrun=True)))
                run_cli(argv)
            else:
                gen = DSDLCodeGenerator(root_ns, **kw)
                gen.generate_all(False)
                if run.get("support"):
                    other += add_listed(list(SupportGenerator(root_ns).generate_all(False)))
            if gen.generate_namespace_types:
                other += [relcomps(p, sand, true_out) for _, p in root_ns.get_all_namespaces()]
            rec["generated"] = True
            rec["other"] = [pcomps(p) for p in other]
            for t, p in root_ns.get_all_datatypes():
                tfile[(t.full_name, t.version.major, t.version.minor)] = pathlib.Path(os.path.normpath(os.path.join(str(sand), str(p))))
        except Exception as e:
            err = "generate: %r\n%s" % (e, traceback.format_exc()[-1500:])
            rec["generated"] = True  # the run was asked to generate: whatever is missing on disk is missing
    after = snapshot(sand)
    created = sorted(after - before)
    rec["created"] = [{"p": pcomps(p), "d": d} for p, d in created]
    if rec["generated"]:
        oth = {tuple(relcomps(true_out, sand, sand) + to_parts(q)) for q in rec["other"]}
        obs["nfiles"] = len([1 for p, d in created if not d and p not in oth])
    # ---- what dependants include: inside the root ...
    if rec["generated"] and gen_mode == "builtin" and lang != "html" and err is None:
        try:
            for t in types:
                if t.get("deps") and type_key(t) in tfile and tfile[type_key(t)].is_file():
                    incs, how = parse_refs(lang, tfile[type_key(t)])
                    rec["refs"].append({"deps": sorted({d + 1 for d in t["deps"]}), "incs": [pcomps(i) for i in incs], "how": how})
        except Exception as e:
            err = "refs: %r" % (e,)
    # ---- ... what the generator itself answers when a user template asks for a type's include path ...
    if rec["generated"] and gen_mode == "user" and err is None:
        try:
            for i, t in enumerate(types):
                f = tfile.get(type_key(t))
                if f is not None and f.is_file():
                    m = re.search(r"^INC:(.*)$", f.read_text(), re.M)
                    rec["refs"].append({"deps": [i + 1], "incs": [pcomps(m.group(1).split("/"))] if m else [], "how": "path"})
        except Exception as e:
            err = "user template refs: %r" % (e,)
    # ---- ... and from another root namespace that only looks the types up
    if run.get("xref") and root_ns is not None and lang != "html" and err is None:
        try:
            xroot = jdir / "xdsdl" / job["xroot"]
            if not xroot.exists():
                xroot.mkdir(parents=True)
                deps = [i for i, t in enumerate(types) if t.get("kind", "struct") != "service"]
                xt = {"ns": [job["xroot"]], "short": "Y", "maj": 1, "min": 0, "deps": deps}
                (xroot / "Y.1.0.dsdl").write_text(dsdl_text(job, xt))
            deps = [i for i, t in enumerate(types) if t.get("kind", "struct") != "service"]
            if deps:
                xtypes = pydsdl.read_namespace(str(xroot), [str(dsdl_root)])
                xout = jdir / ("xo%s" % run["rid"])
                xns = nunavut.build_namespace_tree(xtypes, str(xroot), str(xout), make_lctx(run))
                DSDLCodeGenerator(xns).generate_all(False)
                yfile = [p for t, p in xns.get_all_datatypes() if t.short_name == "Y"]
                incs, how = parse_refs(lang, yfile[0])
                rec["refs"].append({"deps": [d + 1 for d in deps], "incs": [pcomps(i) for i in incs], "how": how})
                shutil.rmtree(str(xout), True)
        except Exception as e:
            err = "xref: %r\n%s" % (e, traceback.format_exc()[-1500:])
    os.chdir(str(base))
    shutil.rmtree(str(sand), True)
    return {"rid": run["rid"], "rec": rec, "obs": obs, "err": err}


def to_parts(path_cps):
    return [to_s(c) for c in path_cps]


def worker_main(jobfile, outfile):
    import pydsdl

    doc = json.loads(open(jobfile).read())
    base = pathlib.Path(doc["base"])
    base.mkdir(parents=True, exist_ok=True)
    with open(outfile, "w") as out:
        for job in doc["jobs"]:
            jdir = base / ("j%d" % job["jid"])
            jdir.mkdir()
            try:
                dsdl_root = write_dsdl(job, jdir)
                types = pydsdl.read_namespace(str(dsdl_root), [])
                by_key = {(t.full_name, t.version.major, t.version.minor): t for t in types}
                want = {type_key(t) for t in job["types"] + job.get("disk", [])}
                if set(by_key) != want:
                    raise ValueError("front end returned %r, expected %r" % (sorted(by_key), sorted(want)))
            except Exception as e:
                for run in job["runs"]:
                    out.write(json.dumps({"rid": run["rid"], "frontend": repr(e)[:300]}) + "\n")
                shutil.rmtree(str(jdir), True)
                continue
            for run in job["runs"]:
                try:
                    res = do_run(base, job, jdir, dsdl_root, by_key, run)
                except Exception as e:
                    res = {"rid": run["rid"], "crash": "%r\n%s" % (e, traceback.format_exc()[-2000:])}
                    os.chdir(str(base))
                out.write(json.dumps(res, separators=(",", ":")) + "\n")
            shutil.rmtree(str(jdir), True)
    shutil.rmtree(str(base), True)


# =====================================================================================================================
# check side
# =====================================================================================================================
def run_jobs(ctx, jobs, tag, seeds=None):
    """Distributes jobs over worker subprocesses (each with its own PYTHONHASHSEED) and returns {rid: result}."""
    if not jobs:
        return {}
    nw = min(NCPU, max(1, len(jobs)))
    shards = [jobs[i::nw] for i in range(nw)]
    procs = []
    for w, sh in enumerate(shards):
        jf = ctx.scratch / ("%s-jobs-%d.json" % (tag, w))
        of = ctx.scratch / ("%s-out-%d.ndjson" % (tag, w))
        jf.write_text(json.dumps({"base": str(ctx.scratch / ("%s-w%d" % (tag, w))), "jobs": sh}))
        env = dict(os.environ)
        env["PYTHONHASHSEED"] = str(seeds[w] if seeds else (w * 37 + 1))
        p = subprocess.Popen([sys.executable, "-m", "vf.props.c11", "--worker", str(jf), str(of)], env=env, stdout=subprocess.PIPE,
                             stderr=subprocess.STDOUT, text=True, cwd=str(pathlib.Path(__file__).resolve().parent.parent.parent))
        procs.append((p, of, env["PYTHONHASHSEED"], jf))
    res = {}
    for p, of, hs, jf in procs:
        so, _ = p.communicate()
        if p.returncode != 0:
            raise MachineryFailure("worker failed (rc=%s): %s" % (p.returncode, (so or "")[-2000:]))
        for ln in open(of):
            d = json.loads(ln)
            d["hashseed"] = int(hs)
            res[d["rid"]] = d
        of.unlink()
        jf.unlink()
    return res


def structural_class(job):
    types = job["types"]
    if not types:
        return "empty"
    nss = {tuple(t["ns"]) for t in types}
    prefixes = set()
    for ns in nss:
        for k in range(1, len(ns) + 1):
            prefixes.add(ns[:k])
    flags = []
    if prefixes - nss:
        flags.append("gap")
    if any(len(ns) >= 4 for ns in nss):
        flags.append("deep")
    shorts = {}
    for t in types:
        shorts.setdefault((tuple(t["ns"]), t["short"]), []).append((t["maj"], t["min"]))
    if any(len(v) > 1 for v in shorts.values()):
        flags.append("multiver")
    if any(t.get("deps") for t in types):
        flags.append("deps")
    return ",".join(flags) or "plain"


def strop_flag(rec):
    return "strop" if any(e["n"] != e["s"] for e in rec["strop"]) else "nostrop"


def is_folded(rec):
    """coverage statistics only (the verdict is the T-layer's): same definition as NamespaceTree!Folded"""
    st = {to_s(e["n"]): to_s(e["s"]) for e in rec["strop"]}
    seen = {}
    for t in rec["types"]:
        ns = [to_s(c) for c in t["ns"]]
        for k in range(1, len(ns) + 1):
            key = tuple(st[c] for c in ns[:k])
            if seen.setdefault(("n",) + key, tuple(ns[:k])) != tuple(ns[:k]):
                return True
        stem = "%s_%d_%d" % (to_s(t["short"]), t["maj"], t["min"])
        key = ("t",) + tuple(st[c] for c in ns) + (st[stem],)
        ident = (tuple(ns), stem)
        if seen.setdefault(key, ident) != ident:
            return True
    return False


CLAUSES = ["tree.inside_outdir", "tree.type_once", "tree.ancestors", "tree.links", "tree.path_total", "tree.path_shape", "tree.injective",
           "tree.one_file", "tree.ref_eq_gen", "tree.as_given", "tree.support_inside", "tree.empty_model"]


def failed_clauses(verdict):
    """'first-failed-clause mask' as printed by the T-layer -> names of all failed clauses"""
    parts = verdict.split(" ")
    mask = int(parts[1]) if len(parts) > 1 and parts[1].isdigit() else 0
    names = [c for k, c in enumerate(CLAUSES) if mask & (1 << k)]
    return names or [parts[0]]


def signature(clauses, job, run, res):
    first = clauses.split(" ")[0]
    cls = structural_class(job)
    if res.get("err"):
        cls += ",exception"
    extra = ""
    if first in ("tree.inside_outdir", "tree.one_file", "tree.as_given", "tree.support_inside"):
        extra = "|" + run.get("spell", "rel")
    return "C11|%s|%s|%s%s" % (first, run["lang"], cls, extra)


def judge(ctx, jobs, results):
    """T-layer verdict for every recorded projection.  Returns {rid: clauses} of the rejected ones."""
    recs, where = [], {}
    for job in jobs:
        for run in job["runs"]:
            r = results.get(run["rid"])
            if r is None:
                raise MachineryFailure("no result for run %r" % (run["rid"],))
            if "crash" in r:
                raise MachineryFailure("harness crashed in run %r: %s" % (run["rid"], r["crash"]))
            if "frontend" in r:
                continue
            recs.append(r["rec"])
            where[run["rid"]] = (job, run, r)
    rej = tlc.validate_traces(ctx, "NamespaceTreeTrace", recs, batch=ctx.pick(400, 800), constants=TRACE_CONSTANTS)
    for rid, clauses in rej.items():
        job, run, r = where[rid]
        if clauses.startswith("harness"):
            raise MachineryFailure("harness produced an unusable projection for %r: %s" % (run, r.get("err")))
        j1 = dict(job)
        j1["runs"] = [run]
        ctx.violation(signature(clauses, job, run, r),
                      "projection of the real execution rejected by NamespaceTree!Verdict: %s%s" % ("+".join(failed_clauses(clauses)), ("; the code raised: " + r["err"][:300]) if r.get("err") else ""),
                      {"job": j1, "hashseed": r["hashseed"], "clauses": failed_clauses(clauses)})
    return rej


TRACE_CONSTANTS = {"Roots": "{}", "Names": "{}", "Shorts": "{}", "TwoVer": "{}", "MaxDepth": "0", "MaxTypes": "0", "StropMode": '"none"',
                   "GenNsChoices": "{}", "Spellings": "{}", "CanonNs": "FALSE",
                   "SupportFromRootParent": "FALSE"}


EMIT_CFGS = {
    "prefix": (["NamespaceTree_emit_spell", "NamespaceTree_emit_prefix", "NamespaceTree_emit_prefix3"],
               ["NamespaceTree_emit_spell", "NamespaceTree_emit_prefix", "NamespaceTree_emit_prefix_big"]),
    "suffix": (["NamespaceTree_emit_suffix", "NamespaceTree_emit_suffix3"], ["NamespaceTree_emit_suffix", "NamespaceTree_emit_suffix_big"]),
    "none": (["NamespaceTree_emit_none"], ["NamespaceTree_emit_none_big"]),
}


def predicted(case, ext):
    nodes = sorted([[to_parts(n["dsdl"]), to_parts(n["parent"]), sorted(to_parts(k) for k in n["kids"]), sorted(n["types"])] for n in case["nodes"]])
    tp = []
    for d, s in zip(case["tdirs"], case["tstems"]):
        tp.append((to_parts(d) + [to_s(s) + ext]) if d else [])
    return {"root": to_parts(case["root"]), "nodes": nodes, "tpaths": tp, "nfiles": case["nfiles"], "as_given": case["as_given"]}


def differs(pred, obs, generated):
    for k in ("root", "nodes", "tpaths", "as_given"):
        if pred[k] != obs[k]:
            return k
    if generated and obs["nfiles"] is not None and pred["nfiles"] != obs["nfiles"]:
        return "nfiles"
    return None


def case_types(case):
    return [{"ns": to_parts(t["ns"]), "short": to_s(t["short"]), "maj": t["maj"], "min": t["min"], "kind": "struct"} for t in case["types"]]


def rand_job(rng, jid, big):
    """A random set of composite types the DSDL front end accepts: inside one namespace the names of nested namespaces and of
    types are pairwise different ignoring case (several versions of one type excepted)."""
    root = rng.choice(["r", "r", "if", "str", "_Foo", "reg"])
    pool = rng.sample(NAME_POOL, rng.randint(2, 6))
    children = {}  # parent namespace -> {lower-case name: (kind, exact name)}

    def claim(parent, name, kind):
        d = children.setdefault(tuple(parent), {})
        have = d.get(name.lower())
        if have is None:
            d[name.lower()] = (kind, name)
            return True
        return have == (kind, name)

    nss = [[root]]
    for _ in range(rng.randint(1, 5 if big else 3)):
        ns = list(rng.choice(nss))
        for _ in range(rng.randint(1, 3)):
            if len(ns) < (7 if big else 5):
                c = rng.choice(pool)
                if not claim(ns, c, "ns"):
                    break
                ns = ns + [c]
                if ns not in nss:
                    nss.append(ns)
    deepest = [ns for ns in nss if not any(o[:len(ns)] == ns and len(o) > len(ns) for o in nss)]
    types = []
    nty = rng.randint(1, 10 if big else 6)
    for _ in range(nty * 4):
        if len(types) >= nty:
            break
        if types and rng.random() < 0.3:  # another version of an existing type
            o = rng.choice(types)
            ns, short = o["ns"], o["short"]
        else:
            ns = rng.choice(deepest if rng.random() < 0.6 else nss)
            short = rng.choice(pool + ["T", "U"])
        if not claim(ns, short, "type"):
            continue
        ver = rng.choice(VERSIONS)
        same = [t for t in types if t["ns"] == ns and t["short"] == short]
        if any((t["maj"], t["min"]) == ver for t in same):
            continue
        kind = same[0]["kind"] if same else rng.choice(["struct", "struct", "struct", "union", "delimited", "service"])
        t = {"ns": ns, "short": short, "maj": ver[0], "min": ver[1], "kind": kind, "deps": []}
        samemaj = [o for o in same if o["maj"] == ver[0]]
        if samemaj:
            t["deps"] = list(samemaj[0]["deps"])
        elif kind == "struct" and types and rng.random() < 0.4:
            cands = [i for i, o in enumerate(types) if o["kind"] != "service" and not (o["ns"] == ns and o["short"] == short)]
            if cands:
                t["deps"] = sorted(set(rng.sample(cands, min(len(cands), rng.randint(1, 2)))))
        types.append(t)
    # namespaces that hold no type and have no typed descendant do not exist for the front end: nothing to do, the type list defines the input
    return {"jid": jid, "root": root, "xroot": "q", "types": types, "runs": []}


def add_runs(rng, job, rid0, langs, n_full, quick):
    nt = len(job["types"])
    rid = rid0
    for lang in langs:
        for k in range(n_full):
            order = list(range(nt))
            rng.shuffle(order)
            r = rng.random()
            gen = "builtin" if r < 0.2 else ("user" if r < 0.8 else "none")
            via = "cli" if gen != "none" and rng.random() < 0.12 else "api"
            run = {"rid": rid, "order": order, "lang": lang, "ext": rng.choice(EXTS[lang]) if rng.random() < 0.5 else None,
                   "stem": rng.choice(STEMS) if rng.random() < 0.3 else None, "spell": rng.choice(SPELLINGS), "gen": gen,
                   "gen_ns": (rng.choice([None, True, False]) if gen == "user" else (None if rng.random() < 0.7 or lang in ("c", "cpp") else False)),
                   "support": gen == "builtin" and rng.random() < 0.25, "xref": gen == "builtin" and rng.random() < 0.6, "via": via}
            if via == "cli" and run["gen_ns"] is False:
                run["gen_ns"] = None
            job["runs"].append(run)
            rid += 1
    return rid


def _t(ctx, what):
    import time
    ctx.cov.setdefault("phase_wall_s", []).append([what, round(time.time() - ctx.t0, 1)])


def run(ctx):
    # ---- 1. the bounded design: I => P for every type list / every iteration order
    tlc.check_model(ctx, "NamespaceTree", "NamespaceTree",
                    constants="prefix stropping; Names={a,if,_if} Shorts={t}+t.1.1 MaxDepth=2 MaxTypes=3", timeout=3000, xmx="4g")
    tlc.check_model(ctx, "NamespaceTree", "NamespaceTree_suffix",
                    constants="suffix stropping; Roots={r,if} Names={if,if_} Shorts={t,if}+t.1.1 MaxDepth=2 MaxTypes=2 genNs both", timeout=3000, xmx="4g")
    tlc.check_model(ctx, "NamespaceTree", "NamespaceTree_spell",
                    constants="output directory spelled {abs, rel, slash, dot, dotdot, symlink}; Roots={r,if} Names={a,if} MaxDepth=2 MaxTypes=2 genNs both",
                    timeout=3000, xmx="4g")
    if not ctx.quick:
        tlc.check_model(ctx, "NamespaceTree", "NamespaceTree_big", constants="prefix; Names={a,if,_if} Shorts={t,if}+t.1.1 MaxDepth=2 MaxTypes=3", timeout=3000)
        tlc.check_model(ctx, "NamespaceTree", "NamespaceTree_deep", constants="prefix; Names={a,if} Shorts={t}+t.1.1 MaxDepth=3 MaxTypes=3", timeout=3000)
        tlc.check_model(ctx, "NamespaceTree", "NamespaceTree_four", constants="prefix; Names={a,if} Shorts={t}+t.1.1 MaxDepth=2 MaxTypes=4", timeout=3000)
    # negative control of the model: the property WITHOUT its exception for folded names must be refuted by TLC (the I-layer drops the second of
    # two sibling namespaces with one stropped image) - shows that the clauses bite on the model and that folding is really modelled
    neg = tlc.run_tlc(tlc.SPECS / "NamespaceTree.tla", tlc.SPECS / "NamespaceTree_neg.cfg", ctx.scratch, workers=2, xmx="2g")
    if neg.violated != "RefinesNoFold":
        raise MachineryFailure("negative control: folding inputs were not refuted under the unconditional property (%s %s)" % (neg.error, neg.violated))
    ctx.cov["model_negative_control"] = "invariant RefinesNoFold (property without the folding exception) refuted after %d states" % neg.distinct

    # second negative control: a Namespace that canonicalises (resolves) its own paths while type paths keep the caller's spelling must be refuted
    neg2 = tlc.run_tlc(tlc.SPECS / "NamespaceTree.tla", tlc.SPECS / "NamespaceTree_negcanon.cfg", ctx.scratch, workers=2, xmx="2g")
    if neg2.violated != "Refines":
        raise MachineryFailure("negative control: a model that canonicalises namespace paths only was not refuted (%s %s)" % (neg2.error, neg2.violated))
    ctx.cov["model_negative_control_2"] = ("CanonNs=TRUE (namespace paths resolved, type paths as given) refuted by invariant Refines / clause tree.as_given "
                                           "after %d states" % neg2.distinct)

    # third negative control: a support generator that takes `root output_folder.parent` as its target is refuted on the empty type set
    neg3 = tlc.run_tlc(tlc.SPECS / "NamespaceTree.tla", tlc.SPECS / "NamespaceTree_negsupport.cfg", ctx.scratch, workers=2, xmx="2g")
    if neg3.violated != "Refines":
        raise MachineryFailure("negative control: a support generator writing beside the root output folder was not refuted (%s %s)" % (neg3.error, neg3.violated))
    ctx.cov["model_negative_control_3"] = ("SupportFromRootParent=TRUE refuted by invariant Refines (empty type set: support files one level above the "
                                           "output directory) after %d states" % neg3.distinct)

    # ---- 2. spec -> code: every terminal state of the model replayed through the real code
    rng = ctx.rng
    jobs, rid = [], 0
    pred = {}
    ncases = 0
    for mode in ("prefix", "suffix", "none"):
        cases = []
        for cfgname in EMIT_CFGS[mode][0 if ctx.quick else 1]:
            got = tlc.emit_cases(ctx, "NamespaceTree", cfgname, name=cfgname, constants="emission, StropMode=%s" % mode, xmx="3g")
            for c in got:  # only the spelling configuration enumerates spellings; elsewhere the driver rotates them
                c["_spell"] = c["spell"] if cfgname.endswith("_spell") else None
            cases += got
        if len(cases) < 300:
            raise MachineryFailure("too few cases emitted for mode %s: %d" % (mode, len(cases)))
        ncases += len(cases)
        groups = {}
        for c in cases:
            key = json.dumps(sorted(json.dumps(t, sort_keys=True) for t in c["types"]))
            groups.setdefault(key, []).append(c)
        for gi, (key, cs) in enumerate(sorted(groups.items())):
            types0 = sorted(case_types(cs[0]), key=lambda t: (t["ns"], t["short"], t["maj"], t["min"]))
            pos = {type_key(t): i for i, t in enumerate(types0)}
            job = {"jid": len(jobs), "root": types0[0]["ns"][0] if types0 else "r", "xroot": "q", "types": types0, "runs": []}
            langs = MODE_LANGS[mode]
            byorder = {}
            for c in cs:
                order = tuple(pos[type_key(t)] for t in case_types(c))
                # predictions are expressed in the job's type numbering
                ren = {i + 1: order[i] + 1 for i in range(len(order))}
                p = predicted(c, "")
                p["nodes"] = sorted([[n[0], n[1], n[2], sorted(ren[x] for x in n[3])] for n in p["nodes"]])
                tp = [[] for _ in order]
                for i, x in enumerate(p["tpaths"]):
                    tp[order[i]] = x
                p["tpaths"] = tp
                byorder.setdefault((order, c["gen_ns"], c["_spell"] or ""), []).append(p)
            for k, ((order, gen_ns, mspell), ps) in enumerate(sorted(byorder.items())):
                lang = langs[(gi + k) % len(langs)]
                sel = (gi * 3 + k) % 8
                gen = "builtin" if sel == 4 else ("user" if sel in (0, 2) else "none")
                if not types0:  # the empty type set: a support-only run, through the API and through `nnvg --generate-support only`
                    gen = "support"
                if mspell and types0:  # the spelling cases: every other one generates with the user template that calls type_to_include_path
                    gen = "user" if sel % 2 == 0 else "none"
                if lang in ("c", "cpp") and gen_ns and gen == "builtin":
                    gen = "user"  # c / c++ have no built-in namespace template
                run = {"rid": rid, "order": list(order), "lang": lang, "ext": EXTS[lang][1] if sel == 2 else None, "stem": None,
                       "spell": mspell or SPELLINGS[(gi + k) % len(SPELLINGS)], "gen": gen, "gen_ns": gen_ns, "support": False,
                       "xref": gen == "builtin", "via": "cli" if gen == "support" and k % 2 else "api"}
                job["runs"].append(run)
                pred[rid] = ps
                rid += 1
            jobs.append(job)
    _t(ctx, "models+emission")
    res = run_jobs(ctx, jobs, "m")
    _t(ctx, "spec->code runs")
    rej = judge(ctx, jobs, res)
    _t(ctx, "spec->code judged")
    ndrift = 0
    for job in jobs:
        for r in job["runs"]:
            out = res[r["rid"]]
            if "frontend" in out:
                raise MachineryFailure("pydsdl refused an input the model considers valid: %r %s" % (job["types"], out["frontend"]))
            ctx.count()
            ext = to_s(out["rec"]["ext"])
            ps = []
            for p in pred[r["rid"]]:
                q = dict(p)
                q["tpaths"] = [(x[:-1] + [x[-1] + ext]) if x else [] for x in p["tpaths"]]
                ps.append(q)
            why = [differs(p, out["obs"], out["rec"]["generated"]) for p in ps]
            if all(why) and r["rid"] not in rej:
                ndrift += 1
                ctx.drift("real tree differs from the I-layer prediction in %s for types %s (%s); the property holds" %
                          (why[0], [type_key(t) for t in job["types"]], r["lang"]))
            ctx.distinct("m|%s|%s|%s|%s" % (r["lang"], structural_class(job), strop_flag(out["rec"]), sha(json.dumps(job["types"]) + str(r["order"]))[:10]))
    ctx.cov["spec_to_code"] = {"model_terminal_states": ncases, "type_sets": len(jobs), "replayed_runs": rid, "drift": ndrift,
                               "folded_inputs_excluded": sum(1 for j in jobs for r in j["runs"] if is_folded(res[r["rid"]]["rec"]))}
    lost = [(j, r) for j in jobs for r in j["runs"] if res[r["rid"]]["rec"]["generated"] and is_folded(res[r["rid"]]["rec"])
            and res[r["rid"]]["obs"]["nfiles"] is not None and res[r["rid"]]["obs"]["nfiles"] < len(j["types"])]
    if lost:
        j, r = lost[0]
        ctx.cov["spec_to_code"]["folded_inputs_with_fewer_files_than_types"] = len(lost)
        ctx.ambiguous("inputs whose names fold under stropping are excluded by the property and are not judged; observed there: %d of the generated "
                      "folded inputs yield fewer type files than types without any error (e.g. %s for %s: %d files)"
                      % (len(lost), [type_key(t) for t in j["types"]], r["lang"], res[r["rid"]]["obs"]["nfiles"]))
    mid = jobs[len(jobs) // 2]
    ctx.sample({"direction": "spec->code", "types": [type_key(t) for t in mid["types"]], "run": mid["runs"][0],
                "observed": res[mid["runs"][0]["rid"]]["obs"], "predicted": pred[mid["runs"][0]["rid"]][0]})
    # self-test of the comparison with the prediction: perturb one expected outcome
    r0 = jobs[0]["runs"][0]
    same = json.loads(json.dumps(pred[r0["rid"]][0]))
    bad = json.loads(json.dumps(same))
    bad["nodes"][0][3] = bad["nodes"][0][3] + [99]
    ctx.selftest("a perturbed predicted tree is reported as different by the comparison with the I-layer prediction",
                 differs(bad, same, False) == "nodes" and differs(same, same, True) is None)

    # ---- 3. code -> spec: larger random inputs, all languages, overrides, spellings, API and CLI, several hash seeds
    njobs = ctx.pick(600, 6000)
    rjobs = []
    rid0 = rid
    for k in range(njobs):
        job = rand_job(rng, len(rjobs), big=(k % 3 == 0))
        if not job["types"]:
            continue
        rid = add_runs(rng, job, rid, LANGS, 1 if k % 4 else 2, ctx.quick)
        if any(t["deps"] for t in job["types"]) or k % 4 == 0:  # stropping switched off: generated path = referenced path must still hold
            job["runs"].append({"rid": rid, "order": list(range(len(job["types"]))), "lang": ("c", "cpp")[k % 2], "ext": None, "stem": None,
                                "spell": SPELLINGS[0], "gen": "builtin", "gen_ns": None, "support": False, "xref": True, "via": "api", "nostrop": True})
            rid += 1
        rjobs.append(job)
    # directed: the empty type set (support-only) for every language x every spelling x API / CLI, over a root namespace directory that is
    # empty and over one that holds definitions which are not passed on
    for li, lang in enumerate(LANGS):
        job = {"jid": len(rjobs), "root": ["r", "if", "reg", "str"][li], "xroot": "q", "types": [], "runs": [],
               "disk": [] if li % 2 else [{"ns": [["r", "if", "reg", "str"][li], "a"], "short": "T", "maj": 1, "min": 0, "kind": "struct", "deps": []}]}
        for si, sp in enumerate(SPELLINGS):
            for via in ("api", "cli"):
                job["runs"].append({"rid": rid, "order": [], "lang": lang, "ext": EXTS[lang][1] if (si + li) % 4 == 0 else None, "stem": None, "spell": sp,
                                    "gen": "support", "gen_ns": None, "support": True, "xref": False, "via": via})
                rid += 1
        rjobs.append(job)
    seeds = [rng.randint(0, 4000000000) for _ in range(64)]
    rres = run_jobs(ctx, rjobs, "r", seeds=seeds)
    _t(ctx, "code->spec runs")
    nfront = sum(1 for v in rres.values() if "frontend" in v)
    if nfront > len(rres) // 3:
        raise MachineryFailure("the DSDL front end refused %d of %d random inputs" % (nfront, len(rres)))
    rrej = judge(ctx, rjobs, rres)
    _t(ctx, "code->spec judged")
    nfold = nerr = 0
    for job in rjobs:
        for r in job["runs"]:
            out = rres[r["rid"]]
            if "frontend" in out:
                continue
            ctx.count()
            f = is_folded(out["rec"])
            nfold += f
            if out.get("err") and r["rid"] not in rrej and not f:
                raise MachineryFailure("harness error was not visible to the trace spec: %s" % out["err"])
            nerr += bool(out.get("err"))
            ctx.distinct("r|%s|%s|%s|%s|%s|%s|%s" % (r["lang"], structural_class(job), strop_flag(out["rec"]), r["spell"], r["ext"], r["gen"],
                                                  sha(json.dumps(job["types"]))[:10]), nontrivial=len(job["types"]) > 1)
    ctx.cov["code_to_spec"] = {"random_type_sets": len(rjobs), "runs": rid - rid0, "refused_by_front_end": nfront, "folded_inputs_excluded": nfold,
                               "runs_where_the_code_raised": nerr,
                               "dependants_checked": sum(len(v["rec"]["refs"]) for v in rres.values() if "rec" in v),
                               "cli_runs": sum(1 for j in rjobs for r in j["runs"] if r["via"] == "cli" and r["gen"] != "none")}
    for job in rjobs:
        if len(job["types"]) > 3 and job["runs"][0]["gen"] == "builtin" and "rec" in rres[job["runs"][0]["rid"]]:
            o = rres[job["runs"][0]["rid"]]
            ctx.sample({"direction": "code->spec", "types": [type_key(t) for t in job["types"]], "run": job["runs"][0],
                        "type_paths": ["/".join(p) for p in o["obs"]["tpaths"]], "refs": [{"deps": x["deps"], "incs": ["/".join(to_parts(i)) for i in x["incs"]]} for x in o["rec"]["refs"]]})
            break
    # ambiguity: the file stem is the stropped image of <Short>_<major>_<minor> as a whole
    for v in rres.values():
        if "rec" in v:
            st = {to_s(e["n"]): to_s(e["s"]) for e in v["rec"]["strop"]}
            alt = [s for s in st if re.search(r"_\d+_\d+$", s) and st[s] != s]
            if alt:
                ctx.ambiguous("file stem of a type whose <Short>_<major>_<minor> is itself reserved is stropped as a whole (e.g. %s -> %s); the statement "
                              "names the unstropped stem: both spellings are accepted" % (alt[0], st[alt[0]]))
                break

    # ---- 4. binding self-tests: corrupt one recorded field, the T-layer must reject that record
    good = None
    for job in rjobs:
        for r in job["runs"]:
            o = rres[r["rid"]]
            if "rec" in o and o["rec"]["generated"] and len(o["rec"]["nodes"]) >= 3 and r["rid"] not in rrej and not is_folded(o["rec"]) and o["rec"]["refs"] \
                    and any(x["incs"] for x in o["rec"]["refs"]):
                good = o["rec"]
                break
        if good:
            break
    if good is None:
        if not ctx.violations:
            raise MachineryFailure("no record suitable for the binding self-test")
        # everything that could serve was rejected (the verdict is VIOLATION anyway): corrupt the I-layer's own projection instead
        ctx.not_exercised("binding self-test on a recorded projection: no accepted record with dependants was available in this run")
        finish_cov(ctx)
        return
    muts = []
    m = json.loads(json.dumps(good)); m["id"] = 1
    n = [x for x in m["nodes"] if x["types"]][0]; n["paths"][0][-1] = n["paths"][0][-1] + [120]
    muts.append(("type path with a foreign file name", m, "tree.path_shape"))
    m = json.loads(json.dumps(good)); m["id"] = 2
    n = [x for x in m["nodes"] if x["kids"]][0]; n["kids"] = n["kids"][1:]
    muts.append(("a nested namespace missing from its parent's children", m, "tree.links"))
    m = json.loads(json.dumps(good)); m["id"] = 3
    m["created"].append({"p": pcomps(["stray.txt"]), "d": False})
    muts.append(("a file created beside the output directory", m, "tree.inside_outdir"))
    m = json.loads(json.dumps(good)); m["id"] = 4
    for x in m["refs"]:
        for inc in x["incs"]:
            inc[0] = inc[0] + [95]
    muts.append(("an include path that differs from the generated path", m, "tree.ref_eq_gen"))
    m = json.loads(json.dumps(good)); m["id"] = 5
    m["walk_types"] = m["walk_types"] + m["walk_types"][:1]
    muts.append(("a type listed twice by the tree walk", m, "tree.type_once"))
    m = json.loads(json.dumps(good)); m["id"] = 6
    m["find"][len(m["find"]) - 1][0] = []
    muts.append(("a failed path lookup", m, "tree.path_total"))
    m = json.loads(json.dumps(good)); m["id"] = 9
    for x in m["nodes"]:  # namespaces spelled differently from the types (an absolute spelling that denotes the same directory)
        canon = pcomps(["/", "elsewhere"])
        k = len(x["dsdl"])
        x["rdir"] = canon + x["rdir"][len(x["rdir"]) - k:]
        x["rout"] = canon + x["rout"][len(x["rout"]) - k - 1:]
        x["rfind"] = list(x["rout"])
    m["denote"].append({"b": pcomps(["/", "elsewhere"]), "ok": True})
    muts.append(("namespace paths canonicalised while type paths keep the caller's spelling", m, "tree.as_given"))
    m = json.loads(json.dumps(good)); m["id"] = 10
    m["slisted"].append({"raw": m["given"][:-1] + pcomps(["nunavut", "s.h"]), "rel": pcomps(["..", "nunavut", "s.h"])})
    m["denote"].append({"b": m["given"][:-1], "ok": False})
    muts.append(("a support file listed one level above the output directory", m, "tree.support_inside"))
    m8 = json.loads(json.dumps(good)); m8["id"] = 8
    m8["nodes"] = m8["nodes"][:1]; m8["nodes"][0]["kids"] = []; m8["find"] = m8["find"][:1]; m8["walk_ns"] = [1]; m8["walk_types"] = []; m8["walk_any"] = []
    m8["created"].append({"p": pcomps(["stray.txt"]), "d": False})
    before = ctx.cov["traces_validated_against_impl"]
    got = tlc.validate_traces(ctx, "NamespaceTreeTrace", [x[1] for x in muts] + [dict(good, id=7), m8], constants=TRACE_CONSTANTS)
    ctx.cov["traces_validated_against_impl"] = before
    for name, m, clause in muts:
        ctx.selftest("corrupted record (%s) is rejected by NamespaceTreeTrace with %s" % (name, clause), m["id"] in got and clause in failed_clauses(got[m["id"]]))
    ctx.selftest("the uncorrupted record is accepted", 7 not in got)
    ctx.selftest("a record with many failed clauses is still reported (printed verdicts stay on one line)", 8 in got and len(failed_clauses(got[8])) >= 5)

    finish_cov(ctx)


def finish_cov(ctx):
    ctx.cov["rule"] = ("spec->code: every terminal state of NamespaceTree.tla in the three stropping modes (type lists <= %d types over {a, if, fold partner}, "
                       "depth <= 3, two versions, every caller order) replayed on the languages of that mode; code->spec: seeded random type sets (<= 10 types, "
                       "depth <= 7, names reserved in some target, several versions, services/unions/delimited, dependencies) x c/cpp/py/html x extension / stem "
                       "overrides x 8 output-directory spellings x API/CLI x built-in/user templates, 16 hash seeds; distinct = (language, structural class "
                       "{gap, deep, multiver, deps}, stropping occurred, spelling, extension, generator, type-set hash); non-trivial = more than one type"
                       % ctx.pick(3, 3))
    ctx.cov["exhaustive"] = False
    ctx.assumptions += [
        "TLC and the NamespaceTree specification; pydsdl as the DSDL front end",
        "the language's public Language.filter_id(name, 'path') is taken as 'the documented one-way stropping' (its own correctness is C09)",
        "a namespace object's DSDL identity is read from its public source_file_path; parent links from the _parent attribute (fallback: only children / get_root_namespace)",
        "include paths are read from the generated text: #include lines with a directory part outside nunavut/support (c, cpp); attribute chains on imported packages (py, via ast)",
        "file-system observation is a recursive listing of a sandbox directory that encloses the output directory, before and after the run",
    ]
    ctx.not_exercised("html has no include/import concept: the referenced-vs-generated clause is exercised for c, cpp and py only (links are C20)")
    ctx.not_exercised("enable_stropping=false for py (the built-in Python templates raise TypeError \"object of type 'Field' has no len()\" with stropping "
                      "off on the unchanged tree: nothing is generated, nothing to judge) and for html; for c and cpp such runs are judged by the "
                      "spelling-independent clauses only (NamespaceTree!Lax: not tree.path_shape, not tree.as_given)")
    ctx.not_exercised("the spelling of namespace folders with enable_stropping=false; the empty extension override (a type file could collide with a namespace directory of "
                      "the same name); extension overrides without a leading dot given directly to the API (the CLI normalises them)")


def replay(ctx, case):
    job = case["job"]
    res = run_jobs(ctx, [job], "replay", seeds=[case.get("hashseed", 1)])
    judge(ctx, [job], res)


if __name__ == "__main__":
    if len(sys.argv) == 4 and sys.argv[1] == "--worker":
        worker_main(sys.argv[2], sys.argv[3])
        sys.exit(0)
    sys.exit(2)


# ---- system-level run spec (specs/NnvgRun*.tla): the recorded runs of the repository's own test suite and of a driver, judged for this property's clauses
from .. import suite as g1  # noqa: E402

_run_own, _replay_own = run, replay


def run(ctx):  # noqa: F811
    _run_own(ctx)
    g1.run_suite_traces(ctx, g1.clauses_of("C11"), models=False)


def replay(ctx, case):  # noqa: F811
    if g1.is_case(case):
        return g1.replay(ctx, case, g1.clauses_of("C11"))
    return _replay_own(ctx, case)
