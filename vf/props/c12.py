"""C12 - regeneration over existing output is safe for every history of runs.

Model:      specs/GenHistory.tla.  P-layer: the relation FailedClauses(before, options, fresh, status, after) between the output
            directory before and after one nnvg run (clauses run.fresh_content, run.mode, run.no_overwrite_untouched,
            run.no_overwrite_error, run.completes).  I-layer: a run is HandleOverwrite / OpenTruncate / Write / (CopyMode) / SetMode
            per file, support generator first (templated and copied support file), then the type files; environment actions
            Foreign, Chmod, Remove between runs.  TLC checks I => P at every end of a run over ALL histories (no run counter), plus
            design invariants (no torn file, no u+w left behind, EACCES impossible behind the gate).  Negative controls: no chmod
            gate, no truncation, copy path without the gate (all refuted); root caller without the gate (passes: why the
            driver must not be root).
spec->code: TLC emits histories with the expected directory after every step (bounded-exhaustive pure run histories over an option
            subset, `-simulate` behaviours over all options + environment actions); each is replayed through the real CLI
            (nunavut.cli.main() in a forked, UNPRIVILEGED process; a share through `python -m nunavut` subprocesses) into one
            directory, snapshot (sha256, st_mode) after every step.
code->spec: scripted + seeded random histories that are larger than the model (more types, nested namespaces, more modes, more
            post-processors incl. --pp-run-program, py target); all observations of both directions are judged by
            specs/GenHistoryTrace.tla: P decides (REJECT), the I-layer only annotates (drift.*).
"""
import collections
import hashlib
import json
import os
import pathlib
import shutil
import stat
import subprocess
import sys
import time

from ..core import MachineryFailure, NCPU, REPO, sha
from .. import tlc

NOBODY = 65534
P_TMPL, P_COPY, P_T1, P_T2, P_X = 1, 2, 3, 4, 5
EXTRA_STEM = "c12extra"
CONSTS = {"GenFiles": "{1, 2, 3, 4}", "OtherFiles": "{5}", "Modes": "{292, 420, 384}", "Variants": "{0, 1, 2, 3, 4, 7, 8}", "ChmodGate": "TRUE",
          "CopyGate": "TRUE", "Truncates": "TRUE", "PPOrder": '"program_first"', "Privileged": "FALSE", "OptsSel": '"all"', "EnvOn": "TRUE", "Record": "FALSE",
          "MaxSteps": "0"}
FOREIGN = {
    "long": b"/* a foreign file: nnvg did not write this */\n" * 2400,      # longer than anything generated here
    "short": b"x\n",
    "mid": b"// foreign, between a POD header and a full header in size\n" * 120,
    "empty": b"",
}
FOREIGN_SHA = {hashlib.sha256(v).hexdigest(): k for k, v in FOREIGN.items()}
GS_FLAG = {"never": "never", "asneeded": "as-needed", "only": "only", "always": "always"}
# content variants: 0..3 are the model's; the others exist only in the random direction
VARIANT_ARGS = {
    0: [],
    1: ["--enable-serialization-asserts"],
    2: ["--pp-max-emptylines", "0"],
    3: ["--pp-trim-trailing-whitespace"],
    4: ("RUNPROGRAM", "inplace"),     # --pp-run-program: an editor that appends in place
    7: ("RUNPROGRAM", "replace"),     # ... an editor that saves atomically: temp file + rename (new inode, mode 0o666 & ~umask)
    8: ("RUNPROGRAM", "noop"),        # ... a program that leaves the file alone
    5: ["--enable-serialization-asserts", "--pp-trim-trailing-whitespace", "--pp-max-emptylines", "1"],
    6: ["--enable-override-variable-array-capacity"],
}
LPP_VARIANTS = {2, 3, 5}
RP_VARIANTS = {4, 7, 8}
RP_SCRIPTS = {
    "inplace": "#!/bin/sh\nprintf '// C12 harness: pp-run-program was here\\n' >> \"$1\"\n",
    "replace": "#!/bin/sh\nt=\"$1.c12tmp\"\ncat \"$1\" > \"$t\" && printf '// C12 harness: saved atomically\\n' >> \"$t\" && mv -f \"$t\" \"$1\"\n",
    "noop": "#!/bin/sh\nexit 0\n",
}

DSDL = {
    "small": ("ns", {
        "ns/T.1.0.dsdl": "uint8 a\nfloat32[<=3] b\n@sealed\n",
        "ns/U.1.0.dsdl": "ns.T.1.0 t\nuint16 c\nbool[<=9] flags\n@extent 64 * 8\n",
    }),
    "big": ("vnd", {
        "vnd/A.1.0.dsdl": "uint8 a\nint33 s\n@sealed\n",
        "vnd/B.1.1.dsdl": "vnd.A.1.0[<=2] xs\nfloat64 f\n@extent 128 * 8\n",
        "vnd/sub/C.1.0.dsdl": "@union\nvnd.A.1.0 a\nuint16 b\nfloat16[4] q\n@sealed\n",
        "vnd/sub/deep/D.2.3.dsdl": "vnd.sub.C.1.0 c\nuint8[<=300] blob\n@extent 1024 * 8\n",
        "vnd/Srv.1.0.dsdl": "uint8 q\n@sealed\n---\nvnd.B.1.1 r\n@extent 256 * 8\n",
    }),
}
EXTRA_TEXT = ("/* copied support resource of the C12 harness */   \n#ifndef C12EXTRA_H\n#define C12EXTRA_H\n\n\n\n\n"
              "static inline int c12extra(void) { return 12; }\t \n\n\n#endif\n")


# ------------------------------------------------------------------------------------------------------------------------------
# the part that runs in the (unprivileged) worker processes
# ------------------------------------------------------------------------------------------------------------------------------
def _sha_file(p, st):
    try:
        with open(p, "rb") as f:
            data = f.read()
    except PermissionError:
        os.chmod(p, (st.st_mode & 0o7777) | 0o400)
        try:
            with open(p, "rb") as f:
                data = f.read()
        finally:
            os.chmod(p, st.st_mode & 0o7777)
    return hashlib.sha256(data).hexdigest(), len(data)


def snapshot(root):
    """{relative path: [sha256, permission bits, size]} of every file below root"""
    res = {}
    if not os.path.isdir(root):
        return res
    for dp, _dn, fns in os.walk(root):
        for fn in fns:
            p = os.path.join(dp, fn)
            st = os.lstat(p)
            rel = os.path.relpath(p, root)
            if stat.S_ISREG(st.st_mode):
                h, n = _sha_file(p, st)
                res[rel] = [h, st.st_mode & 0o7777, n]
            else:
                res[rel] = ["special-%o" % stat.S_IFMT(st.st_mode), st.st_mode & 0o7777, 0]
    return res


def _force_rmtree(root):
    if not os.path.lexists(root):
        return
    for dp, dn, _fns in os.walk(root):
        try:
            os.chmod(dp, 0o755)
        except OSError:
            pass
    shutil.rmtree(root, ignore_errors=True)


def _patch_support(lang, extra):
    """test double for a packaged plain (non-template) support resource: SupportGenerator._copy_header is otherwise unreachable
    because every built-in support file is a template"""
    import importlib

    from nunavut._utilities import ResourceType

    mod = importlib.import_module("nunavut.lang.%s.support" % lang)
    orig = mod.list_support_files

    def patched(resource_type=ResourceType.ANY):
        for r in orig(resource_type):
            yield r
        if resource_type in (ResourceType.ANY, ResourceType.SERIALIZATION_SUPPORT):
            yield pathlib.Path(extra)

    mod.list_support_files = patched


def _cli_in_this_process(argv, root, lang, extra):
    """nunavut.cli.main() with argv; audit events on files below root.  Runs in a throw-away forked process."""
    import nunavut.cli

    dn = os.open(os.devnull, os.O_WRONLY)
    os.dup2(dn, 1)
    os.dup2(dn, 2)
    if extra:
        _patch_support(lang, extra)
    prefix = str(root) + os.sep
    events = []
    live = [True]
    wr = os.O_WRONLY | os.O_RDWR

    def hook(ev, args):
        if not live[0]:
            return
        try:
            if ev == "open":
                p, _mode, flags = args
                if isinstance(p, (str, os.PathLike)) and isinstance(flags, int) and flags & wr:
                    p = os.fspath(p)
                    if p.startswith(prefix):
                        events.append(["open", p[len(prefix):], 1 if flags & os.O_TRUNC else 0])
            elif ev == "os.chmod":
                p, mode = args[0], args[1]
                if isinstance(p, (str, os.PathLike)):
                    p = os.fspath(p)
                    if p.startswith(prefix):
                        events.append(["chmod", p[len(prefix):], mode & 0o7777])
            elif ev == "subprocess.Popen":
                a = args[1]
                if isinstance(a, (list, tuple)) and a and isinstance(a[-1], (str, os.PathLike)):
                    p = os.fspath(a[-1])
                    if p.startswith(prefix):
                        events.append(["exec", p[len(prefix):], 0])
            elif ev in ("os.remove", "os.rename", "os.truncate", "os.link", "os.symlink", "os.chown", "os.rmdir", "shutil.copyfile"):
                p = args[1] if ev in ("shutil.copyfile", "os.link", "os.symlink") else args[0]
                if isinstance(p, (str, os.PathLike)):
                    p = os.fspath(p)
                    if p.startswith(prefix):
                        events.append([ev.split(".")[-1], p[len(prefix):], 0])
        except Exception:  # an observer must never change the run
            pass

    sys.addaudithook(hook)
    sys.argv = ["nnvg"] + list(argv)
    exc = None
    try:
        rc = nunavut.cli.main()
        st = "ok" if rc in (0, None) else "error"
    except SystemExit as e:
        st = "ok" if e.code in (0, None) else "error"
        exc = "SystemExit(%r)" % (e.code,)
    except BaseException as e:  # the CLI reports errors by letting the exception end the process
        st = "error"
        exc = "%s: %s" % (type(e).__name__, str(e)[:160])
    live[0] = False
    return {"st": st, "exc": exc, "ev": events}


def run_cli(argv, root, lang, extra, via):
    if via == "subproc":
        p = subprocess.run([sys.executable, "-m", "nunavut"] + list(argv), stdout=subprocess.DEVNULL, stderr=subprocess.PIPE, text=True)
        last = (p.stderr or "").strip().splitlines()[-1:] or [""]
        return {"st": "ok" if p.returncode == 0 else "error", "exc": None if p.returncode == 0 else last[0][:160], "ev": None}
    r, w = os.pipe()
    pid = os.fork()
    if pid == 0:
        code = 0
        try:
            os.close(r)
            res = _cli_in_this_process(argv, root, lang, extra)
            os.write(w, json.dumps(res).encode())
        except BaseException:
            code = 3
        finally:
            os._exit(code)
    os.close(w)
    data = b""
    while True:
        b = os.read(r, 1 << 16)
        if not b:
            break
        data += b
    os.close(r)
    _, status = os.waitpid(pid, 0)
    if status != 0 or not data:
        return {"st": "crash", "exc": "runner process ended with status %r" % status, "ev": None}
    return json.loads(data)


def run_history(job, wdir):
    """job: {hid, lang, via, extra, steps:[{a:run, argv} | {a:foreign, rel, k, m} | {a:chmod, rel, m} | {a:remove, rel}]}"""
    root = os.path.join(wdir, "out-%s" % job["hid"])
    obs = []
    for s in job["steps"]:
        a = s["a"]
        o = {"a": a}
        if a == "run":
            r = run_cli(["--outdir", root] + s["argv"], root, job["lang"], job.get("extra"), job["via"])
            o.update(r)
        else:
            p = os.path.join(root, s["rel"])
            if a == "foreign":
                os.makedirs(os.path.dirname(p), mode=0o755, exist_ok=True)
                if os.path.lexists(p):
                    os.unlink(p)
                with open(p, "wb") as f:
                    f.write(FOREIGN[s["k"]])
                os.chmod(p, s["m"])
            elif a == "chmod":
                if os.path.lexists(p):
                    os.chmod(p, s["m"])
            elif a == "remove":
                if os.path.lexists(p):
                    os.unlink(p)
        o["snap"] = snapshot(root)
        o["ino"] = {r: os.lstat(os.path.join(root, r)).st_ino for r in o["snap"]}
        obs.append(o)
    _force_rmtree(root)
    return {"hid": job["hid"], "obs": obs}


def _worker(jobs, wdir, resfile, drop):
    try:
        if drop:
            os.setgroups([])
            os.setgid(NOBODY)
            os.setuid(NOBODY)
        os.umask(0o022)
        os.makedirs(wdir, exist_ok=True)
        out = [run_history(j, wdir) for j in jobs]
        with open(resfile, "w") as f:
            json.dump(out, f)
        code = 0
    except BaseException as e:
        try:
            with open(resfile + ".err", "w") as f:
                f.write("%s: %s" % (type(e).__name__, e))
        except Exception:
            pass
        code = 4
    os._exit(code)


# ------------------------------------------------------------------------------------------------------------------------------
# sandbox: inputs, privilege drop, parallel execution
# ------------------------------------------------------------------------------------------------------------------------------
class Sandbox:
    def __init__(self, ctx):
        self.ctx = ctx
        self.base = ctx.scratch / "c12"
        os.chmod(ctx.scratch, 0o755)
        for d in ("dsdl", "res", "work", "results"):
            (self.base / d).mkdir(parents=True, exist_ok=True)
        for ns, (_root, files) in DSDL.items():
            for rel, text in files.items():
                p = self.base / "dsdl" / ns / rel
                p.parent.mkdir(parents=True, exist_ok=True)
                p.write_text(text)
        self.extra = self.base / "res" / (EXTRA_STEM + ".h")
        self.extra.write_text(EXTRA_TEXT)
        os.chmod(self.extra, 0o644)
        self.rp = {}
        for k, text in RP_SCRIPTS.items():
            self.rp[k] = self.base / "res" / ("rp_%s.sh" % k)
            self.rp[k].write_text(text)
            os.chmod(self.rp[k], 0o755)
        self.nbatch = 0
        self.is_root = os.geteuid() == 0
        self.warm_up()
        self.drop = False
        if self.is_root:
            for p in [self.base] + list(self.base.rglob("*")):
                os.chown(p, NOBODY, NOBODY)
            self.drop = self.probe_drop()
            if not self.drop:
                for p in [self.base] + list(self.base.rglob("*")):
                    os.chown(p, 0, 0)
        # does the permission system refuse a write to a read-only file for the uid the runs use?
        self.unpriv = self.drop or not self.is_root
        self.layouts = {}

    def ns_root(self, ns):
        return str(self.base / "dsdl" / ns / DSDL[ns][0])

    def warm_up(self):
        """all lazy imports happen here, as the invoking user: the unprivileged uid cannot read the interpreter's tree"""
        import nunavut.cli  # noqa: F401

        wdir = self.base / "work" / "warm"
        self.py_ok = True
        jobs = []
        for lang in ("c", "cpp", "py"):
            for v in (0, 5, 4, 7):
                for extra in (None, str(self.extra)):
                    if extra and lang == "py":
                        continue
                    o = {"fm": 0o644, "no": False, "omit": False, "gs": "asneeded", "v": v}
                    jobs.append({"hid": "w%d" % len(jobs), "lang": lang, "via": "inproc", "extra": extra,
                                 "steps": [{"a": "run", "argv": self.argv(o, lang, "small", 0)}] * 2})
        saved = sys.argv
        for j in jobs:
            # in THIS process (not forked), so that the imports stay: call the CLI through the same code path
            root = str(wdir / j["hid"])
            r = self._inline(j, root)
            if r["st"] != "ok":
                if j["lang"] == "py":
                    self.py_ok = False
                    continue
                raise MachineryFailure("warm-up generation failed (%s %s): %s" % (j["lang"], j["steps"][0]["argv"], r["exc"]))
        sys.argv = saved
        import logging

        for h in list(logging.getLogger().handlers):   # main() configured logging onto a stream of the warm-up
            logging.getLogger().removeHandler(h)
        _force_rmtree(str(wdir))

    def _inline(self, job, root):
        import nunavut.cli

        argv = ["--outdir", root] + job["steps"][0]["argv"]
        undo = None
        if job.get("extra"):
            import importlib

            mod = importlib.import_module("nunavut.lang.%s.support" % job["lang"])
            undo = (mod, mod.list_support_files)
            _patch_support(job["lang"], job["extra"])
        sys.argv = ["nnvg"] + argv
        so, se = sys.stdout, sys.stderr
        try:
            with open(os.devnull, "w") as dn:
                sys.stdout = sys.stderr = dn
                try:
                    rc = nunavut.cli.main()
                    return {"st": "ok" if rc in (0, None) else "error", "exc": None}
                except SystemExit as e:
                    return {"st": "ok" if e.code in (0, None) else "error", "exc": "SystemExit(%r)" % (e.code,)}
                except BaseException as e:
                    return {"st": "error", "exc": "%s: %s" % (type(e).__name__, str(e)[:300])}
        finally:
            sys.stdout, sys.stderr = so, se
            if undo:
                undo[0].list_support_files = undo[1]

    def probe_drop(self):
        """can a forked child give up root, be refused by a read-only file, and still generate?"""
        wdir = str(self.base / "work" / "probe")
        pid = os.fork()
        if pid == 0:
            code = 1
            try:
                os.setgroups([])
                os.setgid(NOBODY)
                os.setuid(NOBODY)
                os.umask(0o022)
                os.makedirs(wdir)
                f = os.path.join(wdir, "ro")
                with open(f, "w") as fh:
                    fh.write("x")
                os.chmod(f, 0o444)
                refused = False
                try:
                    open(f, "w").close()
                except PermissionError:
                    refused = True
                o = {"fm": 0o444, "no": False, "omit": False, "gs": "asneeded", "v": 0}
                r = run_cli(["--outdir", os.path.join(wdir, "o")] + self.argv(o, "c", "small", 0), os.path.join(wdir, "o"), "c",
                            str(self.extra), "inproc")
                code = 0 if refused and r["st"] == "ok" else 2
            except BaseException:
                code = 3
            os._exit(code)
        _, status = os.waitpid(pid, 0)
        _force_rmtree(wdir)
        return status == 0

    def argv(self, o, lang, ns, style):
        a = ["--target-language", lang]
        if lang == "cpp":
            a.append("--experimental-languages")
        if o["fm"] != 0o444 or style & 1:
            a += ["--file-mode", oct(o["fm"])]
        if o["no"]:
            a.append("--no-overwrite")
        if o["omit"]:
            a.append("--omit-serialization-support")
        if o["gs"] != "asneeded" or style & 2:
            a += ["--generate-support", GS_FLAG[o["gs"]]]
        va = VARIANT_ARGS[o["v"]]
        if isinstance(va, tuple):
            va = ["--pp-run-program", "/bin/sh", "--pp-run-program-arg=" + str(self.rp[va[1]])]
        a += va
        a.append(self.ns_root(ns))
        return a

    def execute(self, jobs, drop=None):
        """run the histories on up to NCPU worker processes; returns {hid: obs}"""
        if not jobs:
            return {}
        drop = self.drop if drop is None else drop
        self.nbatch += 1
        n = min(NCPU, len(jobs))
        # longest first, round robin
        order = sorted(range(len(jobs)), key=lambda i: -sum(1 for s in jobs[i]["steps"] if s["a"] == "run"))
        slices = [[jobs[i] for i in order[k::n]] for k in range(n)]
        pids = []
        for k, sl in enumerate(slices):
            wdir = str(self.base / "work" / ("b%d-%d" % (self.nbatch, k)))
            resfile = str(self.base / "results" / ("b%d-%d.json" % (self.nbatch, k)))
            pid = os.fork()
            if pid == 0:
                _worker(sl, wdir, resfile, drop and any(j["via"] == "inproc" for j in sl))
            pids.append((pid, resfile, wdir))
        out = {}
        for pid, resfile, wdir in pids:
            _, status = os.waitpid(pid, 0)
            if status != 0 or not os.path.exists(resfile):
                err = ""
                if os.path.exists(resfile + ".err"):
                    err = open(resfile + ".err").read()
                raise MachineryFailure("history worker failed (status %r) %s" % (status, err))
            for h in json.load(open(resfile)):
                out[h["hid"]] = h["obs"]
            os.unlink(resfile)
            _force_rmtree(wdir)
        return out


    def execute_all(self, jobs):
        """in-process runs as the unprivileged uid, subprocess runs as the invoking user (it must be able to exec the interpreter)"""
        res = self.execute([j for j in jobs if j["via"] == "inproc"])
        res.update(self.execute([j for j in jobs if j["via"] != "inproc"], drop=False))
        return res


# ------------------------------------------------------------------------------------------------------------------------------
# stimuli -> jobs -> observations -> T-layer records
# ------------------------------------------------------------------------------------------------------------------------------
def okey(o):
    return (o["fm"], o["no"], o["omit"], o["gs"], o["v"])


def oj(o):
    return {"fm": o["fm"], "no": bool(o["no"]), "omit": bool(o["omit"]), "gs": o["gs"], "v": o["v"]}


class Campaign:
    """A stimulus (history): {lang, ns, copy, via, steps:[{a:run,o,style}|{a:foreign,p,k,m}|{a:chmod,p,m}|{a:remove,p}], exp?}
    with p a path id (1 templated support, 2 copied support, 3 4.. type files in generation order, 5 a file no run generates)."""

    def __init__(self, ctx, sb):
        self.ctx = ctx
        self.sb = sb
        self.fresh = {}       # (lang, ns, copy, via, okey) -> {ok, files:{rel: [sha, mode, size]}, order:[rel], lpp}
        self.cid = {}
        self.classes = collections.Counter()
        self.nrun = 0
        self.stamp = tree_stamp()

    # ---- layout: path ids of a (lang, ns, copy) combination, discovered from a default fresh run
    def layout(self, lang, ns, copy):
        k = (lang, ns, copy)
        if k not in self.sb.layouts:
            o = {"fm": 0o444, "no": False, "omit": False, "gs": "asneeded", "v": 0}
            fr = self.fresh[(lang, ns, copy, "inproc", okey(o))]
            rootname = DSDL[ns][0]
            ids, nsup, ntyp = {}, 0, 0
            for rel in fr["order"]:
                stem = os.path.basename(rel).split(".")[0]
                if stem == EXTRA_STEM:
                    ids[rel] = P_COPY
                elif rel.split(os.sep)[0] == rootname and not (lang == "py" and os.path.basename(rel) == "__init__.py"):
                    ids[rel] = (P_T1 + ntyp) if ns == "small" else 20 + ntyp
                    ntyp += 1
                else:
                    ids[rel] = P_TMPL if nsup == 0 else 10 + nsup
                    nsup += 1
            if lang != "py" and ns == "small" and sorted(ids.values()) != ([1, 2, 3, 4] if copy else [1, 3, 4]):
                raise MachineryFailure("unexpected output layout for %s: %r" % (k, ids))
            ids[os.path.join(rootname, "zz_foreign_notes.txt")] = P_X
            self.sb.layouts[k] = ids
        return self.sb.layouts[k]

    def pid(self, lay, rel):
        if rel not in lay:
            lay[rel] = 100 + len(lay)
        return lay[rel]

    def rel(self, lay, p):
        for r, i in lay.items():
            if i == p:
                return r
        return None

    def intern(self, h):
        if h not in self.cid:
            self.cid[h] = len(self.cid) + 1
        return self.cid[h]

    # ---- fresh references
    def satisfiable(self, k):
        """the options can be satisfied at all: the run into an empty directory succeeds - for the requested --file-mode or,
        failing that, for another one (the requested permission bits must not decide whether a run completes)"""
        if self.fresh[k]["ok"]:
            return True
        return any(fr["ok"] for k2, fr in self.fresh.items() if k2[:4] == k[:4] and k2[4][1:] == k[4][1:])

    def need_fresh(self, stims, siblings=True):
        need = {}
        base = {"fm": 0o444, "no": False, "omit": False, "gs": "asneeded", "v": 0}
        for s in stims:
            keys = [(s["lang"], s["ns"], s["copy"], s["via"]), (s["lang"], s["ns"], s["copy"], "inproc")]
            for kk in keys:
                need.setdefault(kk + (okey(base),), base)
                for st in s["steps"]:
                    if st["a"] == "run":
                        need.setdefault(kk + (okey(st["o"]),), st["o"])
        need = {k: o for k, o in need.items() if k not in self.fresh}
        if not need:
            return
        batches, meta = ([], []), {}
        for i, (k, o) in enumerate(sorted(need.items(), key=lambda x: repr(x[0]))):
            lang, ns, copy, via, _ = k
            for rep in (0, 1):
                hid = "f%d-%d" % (i, rep)
                batches[rep].append({"hid": hid, "lang": lang, "via": via, "extra": str(self.sb.extra) if copy else None,
                                     "steps": [{"a": "run", "argv": self.sb.argv(o, lang, ns, 0)}]})
                meta[hid] = (k, rep)
        # the two reference runs of an option set are more than a second apart, so that a time stamp in the output shows
        res = self.sb.execute_all(batches[0])
        time.sleep(1.2)
        res.update(self.sb.execute_all(batches[1]))
        two = collections.defaultdict(dict)
        for hid, obs in res.items():
            k, rep = meta[hid]
            two[k][rep] = obs[0]
        for k, reps in two.items():
            a, b = reps[0], reps[1]
            if a["st"] == "crash" or b["st"] == "crash":
                raise MachineryFailure("runner crashed in a fresh run %r: %s" % (k, a["exc"] or b["exc"]))
            files = {r: v for r, v in a["snap"].items()}
            unstable = [r for r in files if b["snap"].get(r, [None])[0] != files[r][0]] + [r for r in b["snap"] if r not in files]
            order = []
            for e in a["ev"] or []:
                if e[0] == "open" and e[1] not in order and e[1] in files:
                    order.append(e[1])
            order += [r for r in sorted(files) if r not in order]
            lpp = not any(e[0] == "copyfile" for e in (a["ev"] or []))
            self.fresh[k] = {"ok": a["st"] == "ok" and b["st"] == "ok", "files": files, "order": order, "lpp": lpp,
                             "unstable": sorted(set(unstable)), "exc": a["exc"], "obs": a}
            self.ctx.count(2)
        if not siblings:
            return
        # a reference run that fails: does the same invocation succeed with another --file-mode?
        sib = []
        for k in two:
            if not self.fresh[k]["ok"]:
                lang, ns, copy, via, ok_ = k
                o = {"fm": 0o644 if ok_[0] != 0o644 else 0o600, "no": ok_[1], "omit": ok_[2], "gs": ok_[3], "v": ok_[4]}
                sib.append({"lang": lang, "ns": ns, "copy": copy, "via": via, "steps": [{"a": "run", "o": o, "style": 0}]})
        if sib:
            self.need_fresh(sib, siblings=False)
        # the reference runs are histories of length one (empty directory): judged like every other run
        keys = sorted(set(two) | {k for k in self.fresh if "judged" not in self.fresh[k]}, key=repr)
        fstims, fobs = [], []
        for k in keys:
            self.fresh[k]["judged"] = True
            lang, ns, copy, via, ok_ = k
            o = {"fm": ok_[0], "no": ok_[1], "omit": ok_[2], "gs": ok_[3], "v": ok_[4]}
            fstims.append({"lang": lang, "ns": ns, "copy": copy, "via": via, "steps": [{"a": "run", "o": o, "style": 0}], "src": "reference"})
            fobs.append([self.fresh[k]["obs"]])
        if tree_stamp() != self.stamp:
            raise MachineryFailure("the tree under test (%s) changed while the check was running; run it again" % REPO)
        self.judge(fstims, fobs, "empty-directory")

    # ---- jobs
    def job(self, hid, s):
        lay = self.layout(s["lang"], s["ns"], s["copy"])
        steps = []
        for st in s["steps"]:
            if st["a"] == "run":
                steps.append({"a": "run", "argv": self.sb.argv(st["o"], s["lang"], s["ns"], st.get("style", 0))})
            else:
                rel = self.rel(lay, st["p"])
                if rel is None:
                    raise MachineryFailure("stimulus names path id %r unknown in layout %r" % (st["p"], lay))
                d = {"a": st["a"], "rel": rel}
                if "k" in st:
                    d["k"] = st["k"]
                if "m" in st:
                    d["m"] = st["m"]
                steps.append(d)
        return {"hid": hid, "lang": s["lang"], "via": s["via"], "extra": str(self.sb.extra) if s["copy"] else None, "steps": steps}

    def run(self, stims, label):
        """execute and judge; returns list of (stim, step index, clause) for everything the T-layer said"""
        self.need_fresh(stims)
        jobs = [self.job("h%d" % i, s) for i, s in enumerate(stims)]
        res = self.sb.execute_all(jobs)
        allobs = [res["h%d" % i] for i in range(len(stims))]
        found = self.judge(stims, allobs, label, report=False)
        sus = sorted({si for si, _m, cl in found if cl == "run.fresh_content"})
        if sus:
            # a content verdict needs a stable reference: run the references again, now; if one moved, that file is exempt
            keys = {(stims[si]["lang"], stims[si]["ns"], stims[si]["copy"], stims[si]["via"], okey(st["o"]))
                    for si in sus for st in stims[si]["steps"] if st["a"] == "run"}
            if self.recheck_fresh(keys):
                keep = self.ctx.cov["traces_validated_against_impl"]
                sub = self.judge([stims[si] for si in sus], [allobs[si] for si in sus], label, report=False, count=False)
                self.ctx.cov["traces_validated_against_impl"] = keep
                found = [f for f in found if f[0] not in sus] + [(sus[j], m, cl) for j, m, cl in sub]
        if found and tree_stamp() != self.stamp:
            raise MachineryFailure("the tree under test (%s) changed while the check was running; run it again" % REPO)
        for si, (i, pre, snap), cl in found:
            self.report(stims[si], allobs[si], i, pre, snap, cl, label)
        return found

    def recheck_fresh(self, keys):
        jobs, meta = [], {}
        for i, k in enumerate(sorted(keys, key=repr)):
            lang, ns, copy, via, ok_ = k
            o = {"fm": ok_[0], "no": ok_[1], "omit": ok_[2], "gs": ok_[3], "v": ok_[4]}
            jobs.append({"hid": "c%d" % i, "lang": lang, "via": via, "extra": str(self.sb.extra) if copy else None,
                         "steps": [{"a": "run", "argv": self.sb.argv(o, lang, ns, 0)}]})
            meta["c%d" % i] = k
        res = self.sb.execute_all(jobs)
        moved = False
        for hid, obs in res.items():
            fr = self.fresh[meta[hid]]
            snap = obs[0]["snap"]
            for r, v in fr["files"].items():
                if r not in fr["unstable"] and snap.get(r, [None])[0] != v[0]:
                    fr["unstable"] = sorted(set(fr["unstable"]) | {r})
                    moved = True
        return moved

    # ---- records
    def records(self, s, obs, rid0, count=True):
        lay = self.layout(s["lang"], s["ns"], s["copy"])
        priv = not self.sb.unpriv or s["via"] != "inproc"
        recs = [{"id": rid0, "k": "begin", "post": []}]
        meta = [None]
        pre = {}
        self._pre_ino = {}
        for i, (st, ob) in enumerate(zip(s["steps"], obs)):
            rid = rid0 + 1 + i
            snap = ob["snap"]
            post = [{"p": self.pid(lay, r), "c": self.intern(v[0]), "m": v[1]} for r, v in sorted(snap.items())]
            if st["a"] == "run":
                if ob["st"] == "crash":
                    raise MachineryFailure("runner crashed: %s" % ob["exc"])
                fr = self.fresh[(s["lang"], s["ns"], s["copy"], s["via"], okey(st["o"]))]
                fri = self.fresh[(s["lang"], s["ns"], s["copy"], "inproc", okey(st["o"]))]
                stable = list(fr["files"])
                rec = {"id": rid, "k": "run", "o": oj(st["o"]), "st": ob["st"], "post": post,
                       "fresh": [{"p": self.pid(lay, r), "c": self.intern(fr["files"][r][0]), "u": r in fr["unstable"]} for r in sorted(stable)],
                       "fok": self.satisfiable((s["lang"], s["ns"], s["copy"], s["via"], okey(st["o"]))), "rp": st["o"]["v"] in RP_VARIANTS, "ord": [self.pid(lay, r) for r in fri["order"] if r in stable], "lpp": fri["lpp"], "priv": priv,
                       "hasev": ob.get("ev") is not None,
                       "ev": [{"e": e[0], "p": self.pid(lay, e[1]), "a": e[2]} for e in (ob.get("ev") or []) if e[0] != "copyfile"],
                       "hasexp": False, "exp": [], "expst": "ok"}
                if s.get("exp") and s["exp"][i] is not None:
                    rec["hasexp"], rec["exp"], rec["expst"] = True, s["exp"][i]["fs"], s["exp"][i]["st"]
                if count:
                    self.classify(s, st["o"], pre, fr, ob)
                    self.nrun += 1
            else:
                rec = {"id": rid, "k": st["a"], "p": st["p"], "m": st.get("m", 0), "post": post,
                       "c": self.intern(hashlib.sha256(FOREIGN[st["k"]]).hexdigest()) if st["a"] == "foreign" else 0}
            recs.append(rec)
            meta.append((i, pre, snap))
            pre = snap
            self._pre_ino = ob.get("ino") or {}
        return recs, meta

    def classify(self, s, o, pre, fr, ob):
        c = self.classes
        gen = fr["files"]
        present = [r for r in gen if r in pre]
        if o["no"]:
            c["no_overwrite:" + ("no-conflict" if not present else "all-present" if len(present) == len(gen) else "partially-populated")] += 1
        c["generate_support=" + o["gs"] + (",omit" if o["omit"] else "")] += 1
        c["status=" + ob["st"]] += 1
        if o["v"] in RP_VARIANTS and not o["no"]:
            prog = VARIANT_ARGS[o["v"]][1]
            state = "empty-directory" if not present else "over-read-only-leftover" if any(not pre[r][1] & 0o200 for r in present) else "over-writable-leftover"
            c["pp-run-program:%s,%s,file-mode=%o" % (prog, state, o["fm"])] += 1
            ino = ob.get("ino") or {}
            pino = self._pre_ino or {}
            if any(r in pino and r in ino and pino[r] != ino[r] for r in gen):
                c["pp-run-program:%s,inode-replaced" % prog] += 1
            elif present:
                c["pp-run-program:%s,inode-kept" % prog] += 1
        if o["no"]:
            return
        for r in gen:
            if r not in pre:
                c["over:absent"] += 1
                continue
            h, m, n = pre[r]
            origin = "foreign" if h in FOREIGN_SHA else "leftover"
            ro = "read-only" if not m & 0o200 else "writable"
            if h == gen[r][0]:
                size = "identical-content" + (",mode-differs" if m != o["fm"] else ",same-mode")
            else:
                size = "longer-than-new" if n > gen[r][2] else "shorter-than-new" if n < gen[r][2] else "same-size-other-content"
            c["over:%s,%s,%s" % (origin, ro, size)] += 1
            kind = "copied-support" if os.path.basename(r).startswith(EXTRA_STEM) else "support" if r.startswith("nunavut") else "type"
            c["kind:%s,%s,%s" % (kind, ro, size.split(",")[0])] += 1

    def judge(self, stims, allobs, label, report=True, count=True):
        N = self.ctx.pick(1200, 3000)
        groups, cur, owner = [], [], {}
        rid = 0
        for si, (s, obs) in enumerate(zip(stims, allobs)):
            recs, meta = self.records(s, obs, rid, count)
            for r, m in zip(recs, meta):
                owner[r["id"]] = (si, m)
            rid += len(recs)
            if len(cur) + len(recs) > N and cur:
                groups.append(cur)
                cur = []
            cur = cur + recs
        if cur:
            groups.append(cur)
        if not groups:
            return []
        size = max(len(g) for g in groups)
        flat, pad = [], 0
        for g in groups:
            flat += g
            for _ in range(size - len(g)):
                rid += 1
                pad += 1
                flat.append({"id": rid, "k": "begin", "post": []})
        nonrun = sum(1 for r in flat if r["k"] != "run")
        rej = tlc.validate_traces(self.ctx, "GenHistoryTrace", flat, batch=size, constants=CONSTS)
        self.ctx.cov["traces_validated_against_impl"] -= nonrun
        found = []
        for r_id, clause in rej.items():
            cl = clause.split(" ")[0]
            si, m = owner.get(r_id, (None, None))
            if cl.startswith("harness") or si is None or m is None:
                raise MachineryFailure("harness record rejected (%s) in %s: %r" % (clause, label, stims[si] if si is not None else r_id))
            found.append((si, m, cl))
        if report:
            for si, (i, pre, snap), cl in found:
                self.report(stims[si], allobs[si], i, pre, snap, cl, label)
        return found

    # ---- verdicts
    def report(self, s, obs, i, pre, snap, cl, label):
        st = s["steps"][i]
        ob = obs[i]
        if cl.startswith("drift."):
            self.ctx.drift("%s: %s at step %d of %s history (lang=%s via=%s): options %r status %s events %r"
                           % (cl, "I-layer prediction differs" if cl.startswith("drift.i_") else "model behaviour's expected state differs",
                              i, label, s["lang"], s["via"], st.get("o"), ob["st"], (ob.get("ev") or [])[:8]))
            return
        fr = self.fresh[(s["lang"], s["ns"], s["copy"], s["via"], okey(st["o"]))]
        cls, detail = diagnose(cl, st["o"], pre, snap, fr, ob)
        case = {"stim": {k: v for k, v in s.items() if k != "exp"}, "step": i, "clause": cl, "observed": {"status": ob["st"], "exc": ob.get("exc"), "before": pre, "after": snap},
                "expected_by_P": detail, "argv": self.sb.argv(st["o"], s["lang"], s["ns"], st.get("style", 0)), "unprivileged": self.sb.unpriv and s["via"] == "inproc"}
        self.ctx.violation("C12|%s|%s" % (cl, cls), "%s history, step %d (nnvg %s): %s" % (label, i, " ".join(case["argv"][:-1]), detail), case)


def diagnose(cl, o, pre, post, fr, ob):
    """names the file and the structural class for the signature (P has already decided)"""
    gen = fr["files"]

    def kind(r):
        return "copied-support-file" if os.path.basename(r).startswith(EXTRA_STEM) else "support-file" if r.startswith("nunavut") else "type-file"

    def was(r):
        if r not in pre:
            return "absent"
        h, m, n = pre[r]
        return "%s-%s-%s" % ("foreign" if h in FOREIGN_SHA else "leftover", "readonly" if not m & 0o200 else "writable",
                             "identical" if h == gen.get(r, [None])[0] else "longer" if r in gen and n > gen[r][2] else "shorter" if r in gen and n < gen[r][2] else "other")

    if cl == "run.no_overwrite_untouched":
        for r in sorted(pre):
            if r not in post:
                return "%s|removed" % (kind(r) if r in gen else "other-file"), "%s existed before the --no-overwrite run and is gone" % r
            if post[r][0] != pre[r][0]:
                return "%s|content" % (kind(r) if r in gen else "other-file"), "%s existed before the --no-overwrite run and its content changed" % r
            if post[r][1] != pre[r][1]:
                return "%s|mode" % (kind(r) if r in gen else "other-file"), "%s existed before the --no-overwrite run and its mode changed %o -> %o" % (r, pre[r][1], post[r][1])
    if cl == "run.no_overwrite_error":
        r = sorted(x for x in gen if x in pre)
        return "%s|no-error" % kind(r[0]), "--no-overwrite run over existing %s reported success" % r
    if cl == "run.fresh_content":
        for r in sorted(gen):
            if r in fr["unstable"]:
                continue
            if r not in post:
                return "%s|missing|over-%s" % (kind(r), was(r)), "successful run did not leave %s" % r
            if post[r][0] != gen[r][0]:
                return "%s|differs|over-%s" % (kind(r), was(r)), "%s (%d bytes) differs from the run into an empty directory (%d bytes); before: %s" % (r, post[r][2], gen[r][2], was(r))
    if cl == "run.mode":
        for r in sorted(gen):
            if r in post and post[r][1] != o["fm"]:
                return "%s|over-%s" % (kind(r), was(r)), "%s has mode %o, requested %o; before: %s" % (r, post[r][1], o["fm"], was(r))
    if cl == "run.completes":
        ro = sorted(r for r in gen if r in pre and not pre[r][1] & 0o200)
        return ("over-readonly" if ro else "over-writable" if any(r in pre for r in gen) else "empty-directory"), \
            "run that may overwrite failed (%s); read-only files present: %r" % (ob.get("exc"), ro)
    return "unclassified", "clause %s" % cl


# ------------------------------------------------------------------------------------------------------------------------------
# stimulus sources
# ------------------------------------------------------------------------------------------------------------------------------
def R(**kw):
    o = {"fm": 0o444, "no": False, "omit": False, "gs": "asneeded", "v": 0}
    style = kw.pop("style", 0)
    o.update(kw)
    return {"a": "run", "o": o, "style": style}


def F(p, k="long", m=0o444):
    return {"a": "foreign", "p": p, "k": k, "m": m}


def scripted():
    S, C, T, U, X = P_TMPL, P_COPY, P_T1, P_T2, P_X
    hs = [
        [R(), R(v=1), R(), R(v=2), R(v=1, fm=0o600), R(v=2, fm=0o600)],                 # longer, then shorter, over read-only leftovers
        [R(fm=0o644), R(omit=True), R(fm=0o600), R(omit=True, fm=0o444), R()],          # full then POD then full; identical content, other mode
        [F(T, "long", 0o444), F(S, "long", 0o444), F(C, "long", 0o444), F(U, "short", 0o444), R()],   # read-only foreign files, longer and shorter
        [R(), R(fm=0o644), R(fm=0o644), R(fm=0o444), R(fm=0o600), R(style=3)],         # identical content, different requested mode
        [R(gs="only"), R(no=True), R(no=True, gs="never"), R(no=True, gs="only"), R()],  # --no-overwrite over a partially populated directory
        [R(gs="never"), R(no=True), R(no=True, gs="only"), R(gs="always", v=1), R(gs="only", omit=True)],
        [F(U, "short", 0o600), R(no=True), R(no=True), R(), R(no=True, omit=True)],
        [R(no=True), R(no=True), {"a": "chmod", "p": T, "m": 0o644}, R(no=True, fm=0o600), R(no=True, gs="only", fm=0o600)],
        [R(), {"a": "remove", "p": T}, R(no=True), R(no=True, gs="never"), R(gs="never", fm=0o644)],
        [F(X, "mid", 0o444), R(), R(no=True), {"a": "chmod", "p": X, "m": 0o600}, R(v=1), R(no=True, omit=True)],
        [R(gs="only", omit=True), R(gs="always"), R(gs="never", omit=True), R(gs="only", v=2), R(gs="only", v=0)],
        [R(v=3), {"a": "chmod", "p": S, "m": 0o444}, {"a": "chmod", "p": T, "m": 0o444}, R(v=0, fm=0o644), F(T, "empty", 0o444), R(v=3, fm=0o644)],
        [R(v=4), R(v=0), R(v=4, fm=0o644), R(v=4, no=True), R(v=6), R(v=5), R()],
        [F(C, "short", 0o444), R(no=True), R(no=True, gs="never"), R(), R(v=2), R(v=0, no=True)],
    ]
    # the file post-processor chain: --pp-run-program {in place, replace by rename, no-op} x --file-mode x {empty directory,
    # regeneration over read-only / writable earlier output, --no-overwrite}
    for prog in (4, 7, 8):
        hs.append([R(v=prog), R(v=prog), R(v=prog, fm=0o644), R(v=prog, fm=0o600), R(v=prog), R(v=0), R(v=prog, style=1),
                   R(v=prog, no=True), R(v=prog, fm=0o644, gs="only"), R(v=prog, gs="never")])
    out = []
    for lang in ("c", "cpp"):
        for i, h in enumerate(hs):
            out.append({"lang": lang, "ns": "small", "copy": True, "via": "inproc", "steps": h, "src": "scripted-%d" % i})
    out.append({"lang": "c", "ns": "small", "copy": False, "via": "subproc", "steps": hs[-2][:5], "src": "scripted-replace-subproc"})
    for i in (0, 1, 4, 6):
        steps = [s for s in hs[i] if s.get("p") != C]
        out.append({"lang": "c", "ns": "small", "copy": False, "via": "subproc", "steps": steps, "src": "scripted-%d" % i})
    return out


MODEL_TAGS = {9001: "long", 9002: "short"}


def stim_from_model(camp, h, lang, copy, via):
    """TLC history -> stimulus + expected directory after every step (contents mapped to digests of fresh references)"""
    steps = []
    for st in h:
        if st["a"] == "run":
            o = dict(st["o"])
            steps.append({"a": "run", "o": o, "style": (o["fm"] // 4 + len(steps)) % 4})
        elif st["a"] == "foreign":
            steps.append({"a": "foreign", "p": st["p"], "k": st["k"], "m": st["m"]})
        elif st["a"] == "chmod":
            steps.append({"a": "chmod", "p": st["p"], "m": st["m"]})
        else:
            steps.append({"a": "remove", "p": st["p"]})
    return {"lang": lang, "ns": "small", "copy": copy, "via": via, "steps": steps, "model": h, "src": "model"}


def attach_expectation(camp, s):
    """needs the fresh references, so it runs after need_fresh"""
    lay = camp.layout(s["lang"], s["ns"], s["copy"])
    exp = []
    for st in s["model"]:
        if st["a"] != "run":
            exp.append(None)
            continue
        fs = []
        ok = True
        for e in st["fs"]:
            tag = e["c"][0] if e["c"] else None
            if tag is None or any(x != tag for x in e["c"]):
                raise MachineryFailure("model emitted a torn file: %r" % (e,))
            if tag in MODEL_TAGS:
                h = hashlib.sha256(FOREIGN[MODEL_TAGS[tag]]).hexdigest()
            else:
                f, om, v = tag // 1000, (tag // 100) % 10 == 1, tag % 100
                o = {"fm": 0o444, "no": False, "omit": om, "gs": "never" if f in (P_T1, P_T2) else "only", "v": v}
                fr = camp.fresh.get((s["lang"], s["ns"], s["copy"], "inproc", okey(o)))
                rel = camp.rel(lay, f)
                if fr is None or rel not in fr["files"] or rel in fr["unstable"]:
                    ok = False
                    break
                h = fr["files"][rel][0]
            fs.append({"p": e["p"], "c": camp.intern(h), "m": e["m"]})
        exp.append({"fs": fs, "st": st["st"]} if ok else None)
    s["exp"] = exp


def random_histories(ctx, sb, n):
    rng = ctx.rng
    modes = [0o444, 0o644, 0o600, 0o400, 0o440, 0o640, 0o664, 0o666, 0o200, 0o000, 0o755, 0o404]
    out = []
    for i in range(n):
        lang = rng.choice(["c", "cpp", "c", "cpp", "py"] if sb.py_ok else ["c", "cpp"])
        ns = rng.choice(["small", "big", "big"])
        copy = lang != "py" and rng.random() < 0.6
        via = "inproc" if rng.random() < 0.9 else "subproc"
        if via == "subproc":
            copy = False
        paths = [1, 5] + ([2] if copy else []) + ([3, 4] if ns == "small" else [20, 21, 22, 23, 24])
        if lang == "py":
            paths = [1, 5]
        steps = []
        palette = rng.sample(modes, 3) if rng.random() < 0.5 else modes[:3]
        for _ in range(rng.randint(3, 9)):
            x = rng.random()
            if x < 0.62 or not steps:
                omit = rng.random() < 0.3
                gs = rng.choice(["asneeded", "asneeded", "never", "only"] if omit else ["asneeded", "asneeded", "never", "only", "always"])
                vs = [0, 0, 1, 2, 3, 4, 5, 6, 7, 8]
                steps.append(R(fm=rng.choice(palette), no=rng.random() < 0.3, omit=omit, gs=gs,
                               v=rng.choice(vs), style=rng.randint(0, 3)))
            elif x < 0.8:
                steps.append(F(rng.choice(paths), rng.choice(["long", "short", "mid", "empty"]), rng.choice(modes)))
            elif x < 0.93:
                steps.append({"a": "chmod", "p": rng.choice(paths), "m": rng.choice(modes)})
            else:
                steps.append({"a": "remove", "p": rng.choice(paths)})
        if any(st["a"] == "run" and st["o"]["v"] == 7 for st in steps):
            # an editor that saves atomically has to READ the file: keep every mode of this history owner-readable
            for st in steps:
                if st["a"] == "run" and not st["o"]["fm"] & 0o400:
                    st["o"]["fm"] |= 0o400
                elif "m" in st and not st["m"] & 0o400:
                    st["m"] |= 0o400
        out.append({"lang": lang, "ns": ns, "copy": copy, "via": via, "steps": steps, "src": "random-%d" % i})
    return out


def prune_unknown_paths(camp, stims):
    """random stimuli name path ids; drop environment steps whose id does not exist in the layout (e.g. fewer type files)"""
    for s in stims:
        lay = camp.layout(s["lang"], s["ns"], s["copy"])
        known = set(lay.values())
        s["steps"] = [st for st in s["steps"] if st["a"] == "run" or st["p"] in known]


def tree_stamp():
    """digest of (path, size, mtime) of the package under test: in-process runs use the code imported at start while templates
    and subprocess runs are read from disk, so the tree has to stand still while the check runs"""
    h = hashlib.sha256()
    root = os.path.join(str(REPO), "src", "nunavut")
    for dp, dn, fns in os.walk(root):
        dn[:] = sorted(d for d in dn if d != "__pycache__")
        for fn in sorted(fns):
            if fn.endswith(".pyc"):
                continue
            st = os.stat(os.path.join(dp, fn))
            h.update(("%s|%d|%d\n" % (os.path.join(dp, fn), st.st_size, st.st_mtime_ns)).encode())
    return h.hexdigest()


# ------------------------------------------------------------------------------------------------------------------------------
def model_checks(ctx):
    for cfg, desc in ctx.pick(
            [("GenHistory", "files {support,type,type} modes {444,644} variants {plain,short} all options+environment, unbounded histories"),
             ("GenHistory_copy", "files {support,copied support,type} modes {444,644} variants {plain,short}"),
             ("GenHistory_pp", "files {support,type} modes {444,644} variants {plain, --pp-run-program in place / replace by rename / no-op}")],
            [("GenHistory_t3", "files {support,type,type} modes {444,644,600} variants {plain,short}"),
             ("GenHistory_t4", "files {support,copied support,type,type} modes {444,644} variants {plain,short}"),
             ("GenHistory_tv", "files {support,copied support,type} modes {444,644,600} variants {plain,long,short,trim}"),
             ("GenHistory_tx", "files {support,type,unrelated} modes {444,644,600} variants {plain,short}"),
             ("GenHistory_pp", "files {support,type} modes {444,644} variants {plain, --pp-run-program in place / replace by rename / no-op}")]):
        tlc.check_model(ctx, "GenHistory", cfg, constants=desc, timeout=3000)
    neg = []
    for cfg, what, inv in (("GenHistory_neg_chmod", "no chmod u+w gate", "RunEndOK"), ("GenHistory_neg_trunc", "open without truncation", "RunEndOK"),
                           ("GenHistory_neg_copygate", "copied support file bypasses the overwrite gate", "RunEndOK"),
                           ("GenHistory_neg_ppchain", "SetFileMode placed before the external program (unprivileged: in-place editor is refused)", "RunEndOK"),
                           ("GenHistory_neg_ppchain_root", "SetFileMode placed before the external program (root: atomic save leaves the temp file's mode)",
                            "RequestedMode")):
        r = tlc.run_tlc(tlc.SPECS / "GenHistory.tla", tlc.SPECS / (cfg + ".cfg"), ctx.scratch, timeout=600)
        if r.violated != inv:
            raise MachineryFailure("negative control '%s' was not refuted: %s %s" % (what, r.error, r.violated))
        neg.append("%s: refuted by %s after %d states" % (what, inv, r.distinct))
    r = tlc.check_model(ctx, "GenHistory", "GenHistory_root", constants="Privileged=TRUE ChmodGate=FALSE (root caller: the gate is unobservable)")
    neg.append("root caller without the gate: passes (%d states) - hence the privilege drop" % r.distinct)
    ctx.cov["model_negative_controls"] = neg


def run(ctx):
    phases = ctx.cov["phases_wall_s"] = {}
    stamp = tree_stamp()
    t = time.time()
    model_checks(ctx)
    phases["model checking"] = round(time.time() - t, 1)
    t = time.time()
    sb = Sandbox(ctx)
    phases["sandbox, warm-up, privilege probe"] = round(time.time() - t, 1)
    camp = Campaign(ctx, sb)
    if not sb.unpriv:
        ctx.not_exercised("read-only clauses (chmod u+w gate before open): privileges could not be dropped, every run was made as root")

    # ---- spec -> code: model histories
    scale = float(os.environ.get("VERIF_C12_SCALE", "1"))     # development aid only
    ex_cfg, ex_desc = ctx.pick(("GenHistory_ex2q", "all 2-run histories over 16 options"), ("GenHistory_ex2t", "all 2-run histories over 56 options"))
    hist = [("ex", h) for h in tlc.emit_cases(ctx, "GenHistory", ex_cfg, name=ex_cfg + " (emission)", constants=ex_desc, timeout=1500)]
    if not ctx.quick:
        hist += [("ex3", h) for h in tlc.emit_cases(ctx, "GenHistory", "GenHistory_ex3", name="GenHistory_ex3 (emission)",
                                                   constants="all 3-run histories over 16 options", timeout=1500)]
    nex = len(hist)
    if nex != ctx.pick(256, 3136 + 4096):
        raise MachineryFailure("bounded-exhaustive emission produced %d histories" % nex)
    if scale < 1:
        hist = hist[::int(1 / scale)]
    sim_cfg = ctx.pick("GenHistory_sim", "GenHistory_sim6")
    nsim = int(ctx.pick(300, 2000) * scale)
    # TLC counts only behaviours that reach -depth; ours end (deadlock) after MaxSteps steps, ~40 of them per counted one
    sims = tlc.emit_cases(ctx, "GenHistory", sim_cfg, name=sim_cfg + " (-simulate)", constants="all options, environment actions, 5 paths",
                          simulate="num=%d" % max(2, nsim // 20), depth=400, seed=ctx.seed + 1, timeout=1500)
    if len(sims) < nsim:
        raise MachineryFailure("too few simulated histories: %d < %d" % (len(sims), nsim))
    hist += [("sim", h) for h in sims[:nsim]]
    stims = []
    for i, (src, h) in enumerate(hist):
        lang = "c" if i % 2 == 0 else "cpp"
        uses_copy = src == "sim"
        via = "subproc" if (src != "sim" and i % ctx.pick(12, 9) == 5) else "inproc"
        stims.append(stim_from_model(camp, h, lang, uses_copy, via))
    # fresh references: for the runs themselves and for translating the model's contents
    helper = []
    for lang in ("c", "cpp"):
        for copy in (False, True):
            steps = []
            for v in (0, 1, 2, 3, 4, 7, 8):
                for om in (False, True):
                    steps += [R(omit=om, gs="never", v=v)]
                steps += [R(gs="only", v=v)]
            helper.append({"lang": lang, "ns": "small", "copy": copy, "via": "inproc", "steps": steps})
    t = time.time()
    camp.need_fresh(helper + stims)
    phases["fresh references (model histories)"] = round(time.time() - t, 1)
    for s in stims:
        attach_expectation(camp, s)
    t0 = time.time()
    found = camp.run(stims, "model")
    ctx.cov["model_histories_replayed"] = {"histories": len(stims), "runs": camp.nrun, "wall_s": round(time.time() - t0, 1),
                                           "with_expected_state": sum(1 for s in stims if any(e for e in s["exp"]))}
    for s in stims:
        ctx.count(len(s["steps"]))
        ctx.distinct("m|" + sha(json.dumps(s["steps"], sort_keys=True))[:12] + s["lang"])
    ex = stims[len(stims) // 2]
    ctx.sample({"direction": "spec->code", "lang": ex["lang"], "steps": ex["steps"], "expected_after_each_run": ex["exp"]})

    # ---- code -> spec: scripted + random histories
    more = scripted() + random_histories(ctx, sb, int(ctx.pick(100, 1000) * scale))
    camp.need_fresh([{"lang": l, "ns": n, "copy": c, "via": "inproc", "steps": []} for l in ("c", "cpp", "py") for n in ("small", "big")
                     for c in (False, True) if not (l == "py" and (c or not sb.py_ok))])
    prune_unknown_paths(camp, more)
    n0 = camp.nrun
    t = time.time()
    camp.run(more, "scripted/random")
    phases["scripted/random histories incl. references"] = round(time.time() - t, 1)
    for s in more:
        ctx.count(len(s["steps"]))
        ctx.distinct("r|" + sha(json.dumps(s["steps"], sort_keys=True))[:12] + s["lang"] + s["ns"])
    ctx.cov["random_histories"] = {"histories": len(more), "runs": camp.nrun - n0}
    ctx.sample({"direction": "code->spec", "lang": more[0]["lang"], "steps": more[0]["steps"]})

    # ---- coverage that the property text demands
    cl = camp.classes
    ctx.cov["classes"] = dict(sorted(cl.items()))
    want = {
        "a run that writes SHORTER content than the file present": [k for k in cl if k.startswith("over:") and "longer-than-new" in k],
        "a longer foreign file at a generated path": [k for k in cl if k.startswith("over:foreign") and "longer-than-new" in k],
        "identical content, different requested mode": [k for k in cl if "identical-content,mode-differs" in k],
        "--no-overwrite over a partially populated directory": [k for k in cl if k == "no_overwrite:partially-populated"],
        "--generate-support only": [k for k in cl if k.startswith("generate_support=only")],
        "--generate-support never": [k for k in cl if k.startswith("generate_support=never")],
        "copied support file over an existing file": [k for k in cl if k.startswith("kind:copied-support")],
    }
    for prog in ("inplace", "replace", "noop"):
        for state in ("empty-directory", "over-read-only-leftover", "over-writable-leftover"):
            want["--pp-run-program (%s), %s" % (prog, state)] = [k for k in cl if k.startswith("pp-run-program:%s,%s" % (prog, state))]
        want["--pp-run-program (%s) with --file-mode 0o444, 0o644 and 0o600" % prog] = \
            [1] if all(any(k.startswith("pp-run-program:%s," % prog) and k.endswith("file-mode=%o" % m) for k in cl) for m in (0o444, 0o644, 0o600)) else []
    want["atomic-save program really replaces the inode"] = [k for k in cl if k == "pp-run-program:replace,inode-replaced"]
    if sb.unpriv:
        want["read-only leftover overwritten by an unprivileged run"] = [k for k in cl if k.startswith("over:leftover,read-only")]
        want["read-only foreign file overwritten by an unprivileged run"] = [k for k in cl if k.startswith("over:foreign,read-only")]
    for what, ks in want.items():
        if not ks:
            raise MachineryFailure("history class never attempted: %s" % what)
    unstable = sorted({"%s:%s" % (k[0], r) for k, fr in camp.fresh.items() for r in fr["unstable"]})
    if unstable:
        ctx.not_exercised("content clause (only that one) for files whose fresh content is not reproducible between two runs into empty "
                          "directories: %s" % ", ".join(unstable[:6]))
    bad_fresh = sorted({"%s %r" % (k[0], k[4]) for k, fr in camp.fresh.items() if not camp.satisfiable(k)})
    if bad_fresh:
        ctx.not_exercised("options whose run into an empty directory fails for every --file-mode tried (no successful run exists): %s"
                          % "; ".join(bad_fresh[:4]))
    if not sb.py_ok:
        ctx.not_exercised("py target (generation failed in warm-up)")

    if tree_stamp() != stamp:
        raise MachineryFailure("the tree under test (%s) changed while the check was running; run it again" % REPO)
    t = time.time()
    selftests(ctx, camp)
    phases["binding self-tests"] = round(time.time() - t, 1)
    phases["fresh reference runs"] = 2 * len(camp.fresh)

    ctx.cov["rule"] = ("one evaluation = one step (nnvg run or environment action) of a history in one output directory, snapshot after each; "
                       "spec->code: all 2-run%s histories over an option subset (16; thorough 56 resp. 16 options) + %d simulated %d-step behaviours of GenHistory.tla (all options, "
                       "Foreign/Chmod/Remove, 5 paths) replayed through nunavut.cli.main() as uid %s (1/%d of the pure-run histories through "
                       "`python -m nunavut` subprocesses as root); code->spec: 39 scripted (incl. --pp-run-program {in-place editor, atomic-save editor, no-op} x "
                       "--file-mode {444,644,600} x {empty directory, over read-only / writable earlier output, --no-overwrite}) + seeded random "
                       "histories (3-9 steps, c/cpp/py, 2 or 5 types, 12 modes, 10 content variants); every reference run (same options, empty "
                       "directory) is itself judged as a history of length one; distinct = (steps, language, namespace) digest; "
                       "non-trivial = every history (all have at least one run over a non-empty directory or an environment action)"
                       % (ctx.pick("", " and 3-run"), nsim, ctx.pick(5, 6), "65534 (unprivileged)" if sb.unpriv else "0 (root!)", ctx.pick(12, 9)))
    ctx.cov["exhaustive"] = False
    ctx.cov["unprivileged_runs"] = bool(sb.unpriv)
    ctx.assumptions += [
        "TLC and the GenHistory specification",
        "reference content = what the same invocation writes into an empty directory (computed twice per option set; a file that differs between the two is exempt from the content clause only)",
        "runs start from a process that has already imported nunavut (warm-up generation as the invoking user, then fork + setuid 65534); "
        "a share of the histories uses real `python -m nunavut` subprocesses (as root, read-only clauses not observable there)",
        "the copied (non-template) support file is a harness resource injected through the language support module's list_support_files "
        "(no built-in support file is a plain copy); everything else is the unmodified CLI",
        "files belong to the invoking uid, directories are writable, umask 022; no concurrent writers; the tree under test does not "
        "change while the check runs (in-process runs use the code imported at start, subprocess runs read it from disk)",
    ]


def selftests(ctx, camp):
    """binding: corrupt one recorded field / one expected outcome; the T-layer must reject exactly that record"""
    base = [R(), R(fm=0o644), R(no=True, fm=0o600)]
    s0 = {"lang": "c", "ns": "small", "copy": True, "via": "inproc", "steps": base, "src": "selftest"}
    camp.need_fresh([s0])
    obs = camp.sb.execute([camp.job("h0", s0)])["h0"]
    saved = (ctx.cov["traces_validated_against_impl"], camp.classes.copy(), camp.nrun)
    # what a tree that satisfies the property leaves behind; used instead of the recording when the tree under test does not
    files = camp.fresh[("c", "small", True, "inproc", okey(base[0]["o"]))]["files"]
    ideal = [{"a": "run", "st": "ok", "exc": None, "ev": None, "snap": {r: [v[0], 0o444, v[2]] for r, v in files.items()}},
             {"a": "run", "st": "ok", "exc": None, "ev": None, "snap": {r: [v[0], 0o644, v[2]] for r, v in files.items()}},
             {"a": "run", "st": "error", "exc": "PermissionError", "ev": None, "snap": {r: [v[0], 0o644, v[2]] for r, v in files.items()}}]
    same = [(o["st"], o["snap"]) for o in obs] == [(o["st"], o["snap"]) for o in ideal]
    ctx.cov["binding_selftest_source"] = "recorded from the tree under test" if same else "synthetic (the tree under test does not behave as P demands)"
    if not same:
        obs = ideal

    def variant(mut, exp=None):
        o2 = json.loads(json.dumps(obs))
        mut(o2)
        s = dict(s0)
        if exp:
            s["exp"] = exp
        sink = _Sink(ctx)
        c2 = Campaign(sink, camp.sb)
        c2.fresh, c2.cid = camp.fresh, camp.cid
        return [cl for _si, _m, cl in c2.judge([s], [o2], "selftest")], sink

    t_rel = camp.rel(camp.layout("c", "small", True), P_T1)
    s_rel = camp.rel(camp.layout("c", "small", True), P_TMPL)

    def m_mode(o):
        o[1]["snap"][t_rel][1] = 0o444

    def m_content(o):
        o[1]["snap"][s_rel][0] = "0" * 64

    def m_noerr(o):
        o[2]["st"] = "ok"

    def m_touch(o):
        o[2]["snap"][t_rel][1] = 0o600

    def m_fail(o):
        o[1]["st"] = "error"

    ok0, _ = variant(lambda o: None)
    ctx.selftest("uncorrupted self-test history is accepted", [c for c in ok0 if not c.startswith("drift.")] == [])
    for name, mut, clause in (("mode bit of one file corrupted", m_mode, "run.mode"), ("digest of one file corrupted", m_content, "run.fresh_content"),
                              ("error of a --no-overwrite run erased", m_noerr, "run.no_overwrite_error"),
                              ("mode of a pre-existing file changed under --no-overwrite", m_touch, "run.no_overwrite_untouched"),
                              ("status of an overwriting run turned into error", m_fail, "run.completes")):
        got, sink = variant(mut)
        ctx.selftest("%s -> %s" % (name, clause), clause in got and len(sink.v) >= 1)
    # spec -> code: a perturbed expected outcome must be reported as a mismatch with the model behaviour
    lay = camp.layout("c", "small", True)
    good = [{"fs": [{"p": camp.pid(lay, r), "c": camp.intern(v[0]), "m": v[1]} for r, v in sorted(ob["snap"].items())], "st": ob["st"]} for ob in obs]
    got, sink = variant(lambda o: None, exp=good)
    ctx.selftest("expected states taken from the observation are accepted", [c for c in got if not c.startswith("drift.i_")] == [])
    bad = json.loads(json.dumps(good))
    bad[1]["fs"][0]["m"] = 0o600
    got, sink = variant(lambda o: None, exp=bad)
    ctx.selftest("perturbed expected outcome of a model behaviour is reported", got.count("drift.model_expected") == 1 and len(sink.d) >= 1)
    ctx.cov["traces_validated_against_impl"], camp.classes, camp.nrun = saved[0], saved[1], saved[2]


class _Sink:
    """stands in for ctx while the self-tests judge corrupted records: verdicts are collected, not reported"""

    def __init__(self, ctx):
        self._ctx = ctx
        self.v, self.d = [], []
        self.cov = ctx.cov
        self.scratch = ctx.scratch

    def pick(self, a, b):
        return self._ctx.pick(a, b)

    def violation(self, sig, what, case):
        self.v.append(sig)

    def drift(self, what):
        self.d.append(what)

    def validated(self, n):
        pass

    def count(self, n=1):
        pass


def replay(ctx, case):
    sb = Sandbox(ctx)
    camp = Campaign(ctx, sb)
    s = case["stim"]
    s.pop("exp", None)
    if not sb.unpriv and case.get("unprivileged"):
        print("NOTE: the case was recorded with an unprivileged runner; this replay runs as root (read-only clauses unobservable)")
    camp.need_fresh([{"lang": s["lang"], "ns": s["ns"], "copy": s["copy"], "via": "inproc", "steps": []}])
    camp.run([s], "replayed")


# ---- system-level run spec (specs/NnvgRun*.tla): the recorded runs of the repository's own test suite and of a driver, judged for this property's clauses
from .. import suite as g1  # noqa: E402

_run_own, _replay_own = run, replay


def run(ctx):  # noqa: F811
    _run_own(ctx)
    g1.run_suite_traces(ctx, g1.clauses_of("C12"), models=False)


def replay(ctx, case):  # noqa: F811
    if g1.is_case(case):
        return g1.replay(ctx, case, g1.clauses_of("C12"))
    return _replay_own(ctx, case)
