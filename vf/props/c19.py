"""C19 - the bundled template engine is a conservative extension of stock Jinja2.

Honest framing (DESIGN section 7): TLA+ does not model Jinja2.  The stock engine (Jinja2 3.1.6 of /venv) is the executable
reference for the first sentence of the property; TLC contributes the quantification domain and the judgement:

spec->code  specs/JinjaRel.tla is a builder of templates of the stable Jinja2 core (productions appended action by action, stack
            of open blocks); TLC enumerates every reachable template of a profile (lexer-centred: all white-space-control
            variants x rich indentation texts; structure-centred: nesting of if/for/set/macro/call/filter/block/extends/
            include/import; expression-centred: stable filters/tests/operators) and, for Nunavut's additions, marker templates
            with their plain twin, placements of `assert`, and all use-query chains with the expected abstract outcome.
code->spec  every template is rendered by the bundled engine of the current tree (nunavut.jinja.jinja2.Environment under all 8
            settings of trim_blocks/lstrip_blocks/keep_trailing_newline, CodeGenEnvironment under the 4 it exposes, LF/CRLF/CR
            sources, a frozen pool of contexts) and by stock Jinja2 configured alike; the recorded `render` events are judged
            by specs/JinjaRelTrace.tla: Same (same output, or failure where upstream fails), MarkerOK (bundled(marker) relates to
            bundled(plain) by the TLA+ line-prefix operators on code points), AssertRaises, ChainP.
model       specs/JinjaRelSem.tla: do_lineprefix as coded (ImplLP) refines the property's LinePrefixOK on all texts <= 5 (6)
            over {x, SP, LF, CR, FF}; the parse loop of UseQuery (ChainI) refines the ordinary conditional (ChainP).
"""
import concurrent.futures
import json
import multiprocessing
import os
import re
import shutil
import time
import types

from ..core import MachineryFailure, REPO, NCPU, sha
from .. import tlc

LEVEL = "exploration"

# version skew between the bundled 2.11.dev snapshot and stock 3.1.6, excluded from the frozen grammar.  Each entry was
# classified at build time with a copy of the bundled engine from which Nunavut's patch was removed: the unpatched copy agrees
# with the bundled engine and disagrees with 3.1.6, i.e. the difference is upstream evolution, not Nunavut's modification.
SKEW = [
    "float literal with exponent (`1e3`): not lexed by 2.11.dev",
    "`{%+` / `{#+` when lstrip_blocks is off: rejected by 2.11.dev, accepted (no-op) by 3.x -> generated only under lstrip_blocks",
    "`+%}` (disable trim_blocks): 3.x only",
    "line boundaries other than LF/CR/CRLF (VT FF FS GS RS NEL LS PS) in template source: 2.11.dev splits with str.splitlines()",
    "filters/tests added after 2.11: `items`, `is boolean/integer/float/true/false/filter/test`",
    "`trim(chars)` (argument added in 2.11 final); `wordwrap` is only generated on one non-empty line",
    "`wordwrap` (keeps existing newlines since 2.11 final) and `{#+` under lstrip_blocks (2.11.dev strips the comment's indentation anyway)",
    "not skew but excluded as nondeterministic in BOTH engines: `include ... without context` inside a macro prints a generator repr with an address",
]


# ------------------------------------------------------------------------------------------------------------------ universe
def _cfg(name):
    return tlc.SPECS / (name + ".cfg")


def emit(ctx, cfgs, simulate=None):
    """Run the emission configurations (one TLC, one worker each) side by side; returns {cfg: [case, ...]}.
    simulate: TLC random walks through the same builder (seeded): a SUBSET of what the exhaustive run of that configuration emits."""
    spec = tlc.SPECS / "JinjaRel.tla"

    def one(c):
        consts = " ".join(ln.strip() for ln in _cfg(c).read_text().split("CONSTANTS")[1].split("INVARIANT")[0].splitlines() if ln.strip())
        if simulate:
            return c, tlc.run_tlc(spec, _cfg(c), ctx.scratch, workers=1, timeout=600, xmx="4g", constants=consts + " (seeded random walks)",
                                  simulate="num=%d" % simulate, depth=12, seed=ctx.seed + 1)
        return c, tlc.run_tlc(spec, _cfg(c), ctx.scratch, workers=1, timeout=3000, xmx="6g", constants=consts)

    out = {}
    with concurrent.futures.ThreadPoolExecutor(max_workers=min(8, len(cfgs))) as ex:
        results = list(ex.map(one, cfgs))
    for c, res in results:
        if not res.ok:
            raise MachineryFailure("case emission %s failed: %s %s\n%s" % (c, res.error, res.violated, res.out[-2000:]))
        ctx.add_model(res, c + ("(simulate)" if simulate else ""))
        out[c] = res.json_lines()
    return out


# ------------------------------------------------------------------------------------------------------------------- engines
_W = {}  # per-process state (inherited by the forked workers)

NLS = {"lf": "\n", "crlf": "\r\n", "cr": "\r"}


def R(env, tb, lb, ktn, nl="lf"):
    return {"env": env, "tb": tb, "lb": lb, "ktn": ktn, "nl": nl}


RAW8 = [R("raw", tb, lb, k) for tb in (0, 1) for lb in (0, 1) for k in (0, 1)]
# keep_trailing_newline only matters for sources (or loader templates) that end with a line terminator: elsewhere it alternates
RAW4 = [R("raw", tb, lb, tb ^ lb) for tb in (0, 1) for lb in (0, 1)]
CGE3 = [R("cge", 1, 0, None), R("cge", 0, 1, None), R("cge", 1, 1, None)]
CGE4 = [R("cge", tb, lb, None) for tb in (0, 1) for lb in (0, 1)]
# source newline styles other than LF x keep_trailing_newline: every pairing exists; the quick tier gives each case ONE of them (rotating with the source
# text, so that every pairing meets every shape of template ending), the thorough tier all four
NLX = [R("raw", 1, 1, 1, "crlf"), R("raw", 0, 0, 0, "cr"), R("raw", 0, 1, 0, "crlf"), R("raw", 1, 0, 1, "cr")]


# line statements and line comments are part of the template language both engines share (Environment(line_statement_prefix=, line_comment_prefix=)):
# every block tag that stands alone on its line (no whitespace-control or auto-indent modifier) is respelled as a line statement, a line comment is
# put after the first one; the two engines must still agree.  raw blocks keep their tag form (their content is not tokenised).
LS_PREFIX, LC_PREFIX = "%%", "%#"
_RE_TAGLINE = re.compile(r"(?m)^([ \t]*)\{%(?![-+*])[ \t]*+((?!raw\b|endraw\b)[^%{}\n]*?)[ \t]*(?<![-+])%\}[ \t]*$")


def to_line_statements(src):
    n = [0]

    def sub(m):
        n[0] += 1
        return m.group(1) + LS_PREFIX + " " + m.group(2) + ("\n" + m.group(1) + LC_PREFIX + " a line comment" if n[0] == 1 else "")
    return _RE_TAGLINE.sub(sub, src)


def ls_runs(src, quick):
    if "{% raw" in src or to_line_statements(src) == src:
        return []
    k = sum(map(ord, src))
    return [R("rawls", k % 2, (k // 2) % 2, 1)] if quick else [R("rawls", tb, lb, 1) for tb in (0, 1) for lb in (0, 1)]


def nlx_for(src, quick):
    if "\n" not in src:
        return []
    return [NLX[sum(map(ord, src)) % len(NLX)]] if quick else NLX
LOADER_KINDS = {"include", "import", "from", "extends"}


def runs_for(case):
    """the renderings of one case: (environment kind, trim_blocks, lstrip_blocks, keep_trailing_newline, source newline style)"""
    k = case["k"]
    src = "".join(case["ps"])
    q = _W.get("quick", False)  # the quick tier renders each case under fewer (not other) settings
    if k == "same":
        rs = (RAW8 if src.endswith("\n") or LOADER_KINDS & set(case["ks"]) else RAW4) + (CGE3[:2] if q else CGE3) + nlx_for(src, q) + ls_runs(src, q)
        if case.get("plus"):
            rs = [r for r in rs if r["lb"]]
        return rs
    if k == "marker":
        return RAW4 + [R("raw", 0, 0, 0), R("cge", 1, 1, None)] + ([] if q else [R("cge", 0, 0, None)]) + nlx_for(src, q)
    if k == "filter":
        return FRUNS
    return CGE4


# filter sweep: plain environment, the same with autoescape (Markup inputs), CodeGenEnvironment
FRUNS = [R("raw", 0, 0, 1), R("rawae", 0, 0, 1), R("cge", 0, 0, None)]


def filter_src(case):
    inp = "".join(map(chr, case["input"]))
    return (case["ps"][0] + inp + case["ps"][1]) if case["form"] == "block" else case["ps"][0], inp


def init_engines(tables, quick=False):
    import jinja2 as S
    import nunavut
    import nunavut.jinja.jinja2 as B
    from nunavut.jinja import CodeGenEnvironmentBuilder
    from nunavut.lang import LanguageContextBuilder

    if not os.path.realpath(nunavut.__file__).startswith(os.path.realpath(str(REPO)) + os.sep):
        raise MachineryFailure("nunavut imported from %s, not from %s" % (nunavut.__file__, REPO))
    if os.path.realpath(S.__file__).startswith(os.path.realpath(str(REPO)) + os.sep) or S is B:
        raise MachineryFailure("the reference engine is not an independent stock Jinja2: %s" % S.__file__)
    ctxs = []
    for c in tables["contexts"]:
        ctxs.append(dict(c))
    mctx = {k: "".join(map(chr, v)) for k, v in tables["mstrings"].items()}
    mctx.update({"n": 3, "xs": [1, 2], "c1": True, "c2": False, "v": "V"})
    _W.update(B=B, S=S, builder=CodeGenEnvironmentBuilder, lctx=LanguageContextBuilder().set_target_language("c").create(),
              loader=dict(tables["loader"]), ctxs=ctxs, mctx=mctx, envs={}, quick=quick)
    return B, S


class AssertTwinFailure(Exception):
    pass


def _fail(*_a):
    raise AssertTwinFailure("the ordinary conditional reached its raising branch")


def _queries():
    q = {}
    for i in (1, 2, 3):
        q["q%dT" % i] = lambda: True
        q["q%dF" % i] = lambda: False
    return q


def env_for(eng, kind, tb, lb, ktn):
    key = (eng, kind, tb, lb, ktn)
    e = _W["envs"].get(key)
    if e is not None:
        return e
    B, S = _W["B"], _W["S"]
    if kind in ("raw", "rawae", "rawls"):
        J = B if eng == "b" else S
        more = {"line_statement_prefix": LS_PREFIX, "line_comment_prefix": LC_PREFIX} if kind == "rawls" else {}
        e = J.Environment(loader=J.DictLoader(_W["loader"]), trim_blocks=bool(tb), lstrip_blocks=bool(lb), keep_trailing_newline=bool(ktn),
                          undefined=J.StrictUndefined, autoescape=(kind == "rawae"), **more)
    elif eng == "b":
        if not _W.get("decoy"):
            # an EARLIER environment of the same language whose queries answer the other way, used once: what a use query yields belongs to the
            # environment it is asked in, not to the process
            _W["decoy"] = True
            try:
                d = _W["builder"](B.DictLoader(_W["loader"]), _W["lctx"]).create()
                try:
                    dns = d.target_language_uses_queries
                except AttributeError:
                    dns = d.globals["uses_queries"]
                for k, v in _queries().items():
                    setattr(dns, k, (lambda v=v: not v()))
                d.from_string("".join('{%% ifuses "%s" %%}x{%% endifuses %%}{%% ifnuses "%s" %%}y{%% endifnuses %%}' % (k, k) for k in _queries())).render()
            except Exception:  # pylint: disable=broad-except
                pass
        e = _W["builder"](B.DictLoader(_W["loader"]), _W["lctx"]).set_trim_blocks(bool(tb)).set_lstrip_blocks(bool(lb)).create()
        try:
            ns = e.target_language_uses_queries
        except AttributeError:
            ns = e.globals["uses_queries"]
        for k, v in _queries().items():
            setattr(ns, k, v)
    else:
        # the stock twin of CodeGenEnvironment: the flags the caller ASKED for, everything Nunavut fixes itself read back
        be = env_for("b", "cge", tb, lb, None)
        e = S.Environment(loader=S.DictLoader(_W["loader"]), trim_blocks=bool(tb), lstrip_blocks=bool(lb),
                          keep_trailing_newline=bool(be.keep_trailing_newline), newline_sequence=be.newline_sequence,
                          block_start_string=be.block_start_string, block_end_string=be.block_end_string,
                          variable_start_string=be.variable_start_string, variable_end_string=be.variable_end_string,
                          comment_start_string=be.comment_start_string, comment_end_string=be.comment_end_string,
                          line_statement_prefix=be.line_statement_prefix, line_comment_prefix=be.line_comment_prefix,
                          undefined=getattr(S, be.undefined.__name__, S.Undefined), extensions=["jinja2.ext.do", "jinja2.ext.loopcontrols"],
                          autoescape=S.select_autoescape(enabled_extensions=("htm", "html", "xml", "json"), default_for_string=False, default=False))
        e.globals["uses_queries"] = types.SimpleNamespace(**_queries())
        e.globals["fail"] = _fail
    if eng == "s":
        e.globals.setdefault("fail", _fail)
    _W["envs"][key] = e
    return e


def outcomes(eng, run, src, ctxs):
    """one outcome per context: {"ok":1,"out":[code points]} | {"ok":0,"exc":class name}"""
    if run["env"] == "rawls":
        src = to_line_statements(src)
    src = src.replace("\n", NLS[run["nl"]]) if run["nl"] != "lf" else src
    try:
        t = env_for(eng, run["env"], run["tb"], run["lb"], run["ktn"]).from_string(src)
    except Exception as e:  # pylint: disable=broad-except
        return [{"ok": 0, "exc": type(e).__name__}] * len(ctxs)
    res = []
    for c in ctxs:
        try:
            res.append({"ok": 1, "out": [ord(ch) for ch in t.render(**c)]})
        except Exception as e:  # pylint: disable=broad-except
            res.append({"ok": 0, "exc": type(e).__name__})
    return res


def cps(s):
    return [ord(c) for c in s]


def records_for(rid, case, only=None):
    """-> list of (id, record) ; ids are rid*64 + j.  One record per template (same) or per (template, run) (others)."""
    k = case["k"]
    src = "".join(case["ps"])
    runs = runs_for(case)
    if k == "filter":
        src, inp = filter_src(case)
        res = []
        for j, r in enumerate(runs):
            if only is not None and j != only:
                continue
            rec = {"id": rid * 64 + j, "k": k, "fam": case["fam"], "input": case["input"], "b": outcomes("b", r, src, [{"fs": inp}])[0],
                   "s": outcomes("s", r, src, [{"fs": inp}])[0] if case["fam"] != "lineprefix" else {"ok": 0, "exc": "not-a-stock-filter"}}
            rec.update({f: case[f] for f in ("fw", "first", "blank", "ws") if f in case})
            res.append((rec["id"], rec))
        return res
    if k == "same":
        rr = []
        for r in runs:
            b = outcomes("b", r, src, _W["ctxs"])
            s = outcomes("s", r, src, _W["ctxs"])
            rr += [{"b": x, "s": y} for x, y in zip(b, s)]
        return [(rid * 64, {"id": rid * 64, "k": "same", "runs": rr})]
    twin = "".join(case["pp"])
    res = []
    for j, r in enumerate(runs):
        if only is not None and j != only:
            continue
        rec = {"id": rid * 64 + j, "k": k}
        if k == "marker":
            c = [_W["mctx"]]
            rec.update(ck=case["ck"], pre=cps(case["pre"]), post=cps(case["post"]), ws=cps(case["ws"]), m=outcomes("b", r, src, c)[0], p=outcomes("b", r, twin, c)[0],
                       s=outcomes("s", r, twin, c)[0])
        elif k == "assert":
            c = [_W["ctxs"][0]]
            rec.update(executed=case["executed"], truthy=case["truthy"], b=outcomes("b", r, src, c)[0], s=outcomes("s", r, twin, c)[0])
        else:
            n = len(case["cl"])
            rec.update(cl=case["cl"], **{"else": case["else"]}, bodies=[cps("B%d\n" % (i + 1)) for i in range(n)], ebody=cps("E\n"),
                       b=outcomes("b", r, src, [{}])[0], s=outcomes("s", r, twin, [{}])[0])
        res.append((rec["id"], rec))
    return res


def _work(chunk):
    out = []
    for rid, case in chunk:
        for i, rec in records_for(rid, case):
            n = len(rec["runs"]) if rec["k"] == "same" else 1
            out.append((i, json.dumps(rec, separators=(",", ":")), n))
    return out


# ------------------------------------------------------------------------------------------------------------- TLC as judge
_RE_REJECT = re.compile(r'^<<"REJECT", (-?\d+), "([^"]*)", (-?\d+)>>$')


def validate_lines(ctx, lines, batch):
    """code -> spec.  lines: [(id, ndjson line, number of renderings in it)].  Returns {id: (clause, detail)} of the rejected records.
    (Same protocol as vf.tlc.validate_traces; the lines are serialized by the render workers, and the T-layer reports a detail.)"""
    if not lines:
        return {}
    tdir = ctx.scratch / ("tr-%d" % (int(time.time() * 1e6) % 10**9))
    tdir.mkdir()
    cfg = tlc.write_cfg(tdir / "t.cfg")
    jobs = []
    for bi in range(0, len(lines), batch):
        chunk = lines[bi:bi + batch]
        p = tdir / ("b%05d.ndjson" % (bi // batch))
        with open(p, "w") as f:
            for _i, ln, _n in chunk:
                f.write(ln + "\n")
        jobs.append((p, chunk))

    def one(job):
        return tlc.run_tlc(tlc.SPECS / "JinjaRelTrace.tla", cfg, ctx.scratch, workers=1, timeout=1800, env={"TRACE_FILE": str(job[0])}, xmx="3g"), job

    rejects = {}
    with concurrent.futures.ThreadPoolExecutor(max_workers=NCPU) as ex:
        for res, (p, chunk) in ex.map(one, jobs):
            if not res.ok:
                raise MachineryFailure("trace validation failed on %s: %s %s\n%s" % (p.name, res.error, res.violated, res.out[-3000:]))
            ctx.cov["states"] += res.distinct
            ctx.cov["transitions"] += res.generated
            bad = {}
            for ln in res.out.splitlines():
                m = _RE_REJECT.match(ln)
                if m:
                    bad[int(m.group(1))] = (m.group(2), int(m.group(3)))
                elif ln.startswith('<<"REJECT"'):
                    raise MachineryFailure("unparsable REJECT line: %r" % ln[:200])
            nbad = 0
            for i, _ln, n in chunk:
                if i in bad:
                    cl, d = bad[i]
                    nbad += bin(d).count("1") if n > 1 else 1
            ctx.validated(sum(n for _i, _l, n in chunk) - nbad)
            rejects.update(bad)
    shutil.rmtree(str(tdir), ignore_errors=True)
    return rejects


# ----------------------------------------------------------------------------------------------------------- classification
PRIORITY = ["raw", "comment*", "comment", "include", "import", "from", "extends", "block", "macro", "call", "filter", "setblock", "set", "for",
            "elif", "else", "if", "var", "text"]


def same_class(case):
    ks = set(case["ks"])
    src = "".join(case["ps"])
    feats = [k for k in PRIORITY if k in ks][:1]
    if re.search(r"\{[%#]\+", src):
        feats.append("plus")
    if re.search(r"\{[%#{]-|-[%#}]\}", src):
        feats.append("minus")
    if case.get("open"):
        feats.append("unclosed")
    return "+".join(feats) or "text"


def star_comment_only(case, run, ci):
    """attribution (label only, never the verdict): does the disagreement vanish when the comment bodies starting with `*` are
    replaced by ordinary ones?  (a comment is a comment in both engines)"""
    if "comment*" not in case["ks"]:
        return False
    src = "".join(p.replace("* c *", " c c ") if k == "comment*" else p for p, k in zip(case["ps"], case["ks"]))
    b, s = outcomes("b", run, src, [_W["ctxs"][ci]])[0], outcomes("s", run, src, [_W["ctxs"][ci]])[0]
    return (b["ok"] == 1 and b["out"] == s["out"]) if s["ok"] else not b["ok"]


def _attr_work(chunk):
    return [star_comment_only(case, run, ci) for case, run, ci in chunk]


def show(o):
    return repr("".join(map(chr, o["out"]))) if o["ok"] else "raises " + o["exc"]


MODES = {1: "marker-raises", 2: "marker-succeeds-plain-raises", 3: "wrong-text"}


class Judge:
    def __init__(self, ctx, pool=None):
        self.ctx = ctx
        self.pool = pool
        self.stats = {"same": 0, "marker": 0, "assert": 0, "ifuses": 0, "filter": 0, "renderings": 0, "exotic": 0}
        self.seen = set()

    def report(self, sig, mk_what, replay):
        """`mk_what` renders the failing case again for the message: only done for the first occurrence of a signature"""
        if sig in self.seen:
            return self.ctx.violation(sig, "", replay)
        self.seen.add(sig)
        return self.ctx.violation(sig, mk_what(), replay)

    def handle(self, cases, rejects):
        """cases: {rid: case}; rejects: {id: (clause, detail)}"""
        ctx = self.ctx
        nctx = len(_W["ctxs"])
        star = []
        for i, (clause, detail) in sorted(rejects.items()):
            if clause.startswith("harness"):
                raise MachineryFailure("reference side inconsistent with the specification (%s): %r" % (clause, cases[i // 64]))
            case = cases[i // 64]
            if case["k"] == "same" and "comment*" in case["ks"]:
                runs = runs_for(case)
                star += [(case, runs[bit // nctx], bit % nctx) for bit in range(len(runs) * nctx) if detail >> bit & 1]
        attr = {}
        if star:
            parts = list(chunks(star, 50))
            res = self.pool.imap(_attr_work, parts) if self.pool else map(_attr_work, parts)
            for part, rs in zip(parts, res):
                for (case, run, ci), r in zip(part, rs):
                    attr[("".join(case["ps"]), json.dumps(run, sort_keys=True), ci)] = r
        for i, (clause, detail) in sorted(rejects.items()):
            rid, j = divmod(i, 64)
            case = cases[rid]
            runs = runs_for(case)
            src = "".join(case["ps"])
            if case["k"] == "same":
                for bit in range(len(runs) * nctx):
                    if not detail >> bit & 1:
                        continue
                    run, ci = runs[bit // nctx], bit % nctx
                    if attr.get((src, json.dumps(run, sort_keys=True), ci)):
                        sig = "C19|jinja.same|comment-body-starting-with-star-eats-preceding-blanks"
                    else:
                        sig = "C19|jinja.same|%s|%s|trim=%d,lstrip=%d" % (run["env"], same_class(case), run["tb"], run["lb"])

                    def what(run=run, ci=ci):
                        b = outcomes("b", run, src, [_W["ctxs"][ci]])[0]
                        s = outcomes("s", run, src, [_W["ctxs"][ci]])[0]
                        return "template %r (%s): bundled engine %s, stock Jinja2 %s" % (src, fmt_run(run, ci), show(b), show(s))

                    self.report(sig, what, {"k": "same", "case": case, "run": run, "ctx": ci})
                continue
            run = runs[j]
            if case["k"] == "filter":
                src, inp = filter_src(case)
                if clause.startswith("drift:"):
                    ctx.drift("%s on %r with fs=%r (%s)" % (clause[6:], src, inp, fmt_run(run, None)))
                    continue
                shape = "empty-string" if not inp else "only-terminator" if not case["shapes"] else "first-line-empty" if case["shapes"][0] == "E" else "last-line-empty" if case["shapes"][-1] == "E" else "other"
                name = re.match(r"\w+", case["ps"][0].split("|")[-1].replace("{% filter", "").strip()).group(0)
                args = ("|first=%d,blank=%d" % (case["first"], case["blank"])) if case["fam"] == "indent" else ""
                sig = "C19|%s|filter:%s%s|%s" % (clause, name, args, shape)
                what = lambda: (lambda r: "template %r with fs=%r (%s): bundled %s, stock Jinja2 %s%s"  # noqa: E731
                                % (src, inp, fmt_run(run, None), show(r["b"]), show(r["s"]) if case["fam"] != "lineprefix" else "has no such filter",
                                   (", specification Indent = %r" % "".join(map(chr, case["exp"]))) if case["fam"] == "indent" else ""))(records_for(rid, case, only=j)[0][1])
                self.report(sig, what, {"k": "filter", "case": case, "run": run})
                continue
            twin = "".join(case["pp"])
            if clause.startswith("drift:"):
                ctx.drift("%s on %r (%s)" % (clause[6:], src, fmt_run(run, None)))
                continue
            if clause.startswith("amb:"):
                self.stats["exotic"] += 1
                continue
            rec = lambda: records_for(rid, case, only=j)[0][1]  # noqa: E731
            if case["k"] == "marker":
                if clause == "jinja.same":
                    sig = "C19|jinja.same|%s|plain-twin-of-marker:%s|trim=%d,lstrip=%d" % (run["env"], case["ck"], run["tb"], run["lb"])
                    what = lambda: (lambda r: "plain template %r (%s): bundled %s, stock %s" % (twin, fmt_run(run, None), show(r["p"]), show(r["s"])))(rec())  # noqa: E731
                else:
                    sig = "C19|jinja.lineprefix|" + marker_class(case, MODES[detail])
                    what = lambda: (lambda r: "marker template %r renders %s; plain template %r renders %s; prefix %r (%s)"  # noqa: E731
                                    % (src, show(r["m"]), twin, show(r["p"]), case["ws"], fmt_run(run, None)))(rec())
            elif case["k"] == "assert":
                sig = "C19|jinja.assert|%s|%s" % (case["place"], "falsy" if not case["truthy"] else "truthy")
                what = lambda: (lambda r: "template %r (%s): executed=%s truthy=%s => must %sraise; bundled %s; ordinary conditional through stock %s"  # noqa: E731
                                % (src, fmt_run(run, None), case["executed"], case["truthy"], "" if case["raises"] else "not ", show(r["b"]), show(r["s"])))(rec())
            else:
                shape = ",".join(("n" if c["neg"] else "p") + c["q"] for c in case["cl"]) + ("+else" if case["else"] else "")
                sig = "C19|jinja.ifuses|" + re.sub(r"[TFU]", "", shape)
                what = lambda: (lambda r: "chain %r [%s] (%s): ordinary conditional selects branch %s; bundled %s; plain if/elif/else through stock %s"  # noqa: E731
                                % (src, shape, fmt_run(run, None), case["sel"], show(r["b"]), show(r["s"])))(rec())
            self.report(sig, what, {"k": case["k"], "case": case, "run": run})


def fmt_run(run, ci):
    s = "%s trim_blocks=%s lstrip_blocks=%s keep_trailing_newline=%s source-newline=%s" % (
        "CodeGenEnvironment" if run["env"] == "cge" else "Environment", run["tb"], run["lb"], "fixed-by-nunavut" if run["ktn"] is None else run["ktn"],
        run["nl"])
    return s if ci is None else s + " context#%d" % ci


NONSTRING = {"n", "xs", "none"}


def marker_class(case, mode):
    if case["ck"] == "var":
        e = re.search(r"\{\{\*\s*(.*?)\s*-?\}\}", "".join(case["ps"])).group(1)
        if e in NONSTRING and mode == "marker-raises":
            return "var:non-string-value|marker-raises"
        return "var|%s" % mode
    if case["ck"] == "raw":
        return "raw-block|%s" % mode
    return "%s|%s" % (case["ck"], mode)


def strict_lp(c, ws):
    return re.sub(r"(^|\r\n|\r|\n)(?=[^\r\n])", lambda m: m.group(1) + ws, c)


# ------------------------------------------------------------------------------------------------------------------ pipeline
def chunks(seq, n):
    for i in range(0, len(seq), n):
        yield seq[i:i + n]


def judge_all(ctx, judge, cases, pool, slab, keep=None):
    """render every case with both engines (process pool), let the T-layer judge every record, handle the rejections"""
    base = judge.stats.setdefault("next_rid", 0)
    tm = judge.stats.setdefault("time", {"render_s": 0.0, "tlc_judge_s": 0.0, "handle_s": 0.0})
    for part in chunks(cases, slab):
        t0 = time.time()
        cmap = {base + i: c for i, c in enumerate(part)}
        items = list(cmap.items())
        lines = []
        work = list(chunks(items, 40))
        for res in (pool.imap(_work, work) if pool else map(_work, work)):
            lines += res
        nr = sum(n for _i, _l, n in lines)
        ctx.count(nr)
        judge.stats["renderings"] += nr
        t1 = time.time()
        rej = validate_lines(ctx, lines, max(50, min(1500, len(lines) // NCPU + 1)))
        t2 = time.time()
        judge.handle(cmap, rej)
        tm["render_s"] += t1 - t0
        tm["tlc_judge_s"] += t2 - t1
        tm["handle_s"] += time.time() - t2
        for rid, c in cmap.items():
            judge.stats[c["k"]] += 1
            ctx.distinct(c["k"] + sha("".join(c["ps"]) + repr(c.get("input")))[:14], nontrivial=any(k != "text" for k in c["ks"]))
        if keep is not None:
            for i, ln, _n in lines:
                k = cmap[i // 64]["k"]
                if k not in keep and i not in rej and '"ok":1' in ln:
                    if k == "filter":  # for the self-test: an accepted indent(first=true) record with a visible indentation
                        r = json.loads(ln)
                        if not (r["fam"] == "indent" and r["first"] and r["fw"] > 0 and r["b"]["ok"]):
                            continue
                    if k == "marker":  # for the self-test: an accepted record in which the marker visibly did something
                        r = json.loads(ln)
                        if not (r["m"]["ok"] and r["p"]["ok"] and r["ws"] and r["m"]["out"] != r["p"]["out"]):
                            continue
                    keep[k] = (ln, cmap[i // 64])
        base += len(part)
    judge.stats["next_rid"] = base


def load_universe(ctx):
    """the deterministic frozen universe of the tier + the tables (loader, contexts)"""
    quick = ["JinjaRel_lex1_q", "JinjaRel_lex3_q", "JinjaRel_struct_q", "JinjaRel_expr", "JinjaRel_marker_q", "JinjaRel_assert", "JinjaRel_ifuses_q",
             "JinjaRel_filters"]
    thorough = ["JinjaRel_lex1_t", "JinjaRel_lex1_tight", "JinjaRel_lex2_t", "JinjaRel_lex3_t", "JinjaRel_struct_t", "JinjaRel_expr", "JinjaRel_marker_t",
                "JinjaRel_assert", "JinjaRel_ifuses_t", "JinjaRel_filters"]
    names = quick if ctx.quick else thorough
    got = emit(ctx, names)
    if ctx.quick:
        # the quick tier adds a seeded subset of the thorough universe (the seed selects, it never generates anything new)
        extra = [c for c in thorough if c not in quick and not c.startswith("JinjaRel_marker")]
        sim = emit(ctx, extra, simulate=600)
        for name in extra:
            cs = sorted((c for c in sim[name] if c["k"] != "tables"), key=lambda c: json.dumps(c, sort_keys=True))
            uniq = [c for i, c in enumerate(cs) if i == 0 or c != cs[i - 1]]
            got[name + "(seeded subset)"] = ctx.rng.sample(uniq, min(len(uniq), 1500))
    tables = None
    for cs in got.values():
        for c in cs:
            if c["k"] == "tables":
                tables = c
    if tables is None:
        raise MachineryFailure("the tables record was not emitted")
    uni = {}
    seen = set()
    for name, cs in got.items():
        out = []
        for c in cs:
            if c["k"] == "tables":
                continue
            key = (c["k"], "".join(c["ps"]), c.get("plus"), repr(c.get("input")))
            if key in seen:
                continue
            seen.add(key)
            out.append(c)
        uni[name] = out
    return tables, uni


def run(ctx):
    # 1. the bounded design: the implementation-shaped operators refine the property's operators
    tlc.check_model(ctx, "JinjaRel", ctx.pick("JinjaRel_sem", "JinjaRel_sem6"), constants="texts<=%d over {x,SP,LF,CR,FF} x ws in {'', 2SP, TAB}" % ctx.pick(5, 6))
    neg = tlc.run_tlc(tlc.SPECS / "JinjaRel.tla", _cfg("JinjaRel_sem_neg"), ctx.scratch)
    if neg.violated != "ImplIsStrict":
        raise MachineryFailure("negative control: 'do_lineprefix equals the text-level reading' was not refuted (%s %s)" % (neg.error, neg.violated))
    neg2 = tlc.run_tlc(tlc.SPECS / "JinjaRel.tla", _cfg("JinjaRel_ifuses_neg"), ctx.scratch)
    if neg2.violated != "CarriedNegateRefines":
        raise MachineryFailure("negative control: a parse loop that carries `negate` over an elifuses was not refuted (%s %s)" % (neg2.error, neg2.violated))
    neg3 = tlc.run_tlc(tlc.SPECS / "JinjaRel.tla", _cfg("JinjaRel_indent_neg"), ctx.scratch)
    if neg3.violated != "IndentFirstSkipsEmpty":
        raise MachineryFailure("negative control: 'indent(first) treats the first line like the others' was not refuted (%s %s)" % (neg3.error, neg3.violated))
    ctx.cov["model_negative_control"] = ("Indent(first, not blank) = 'first line follows the rule of the other lines' refuted; ImplLP = StrictLP refuted by TLC (do_lineprefix drops the final terminator / rewrites CR): P is the reading both "
                                         "imply; UseQuery parse loop without `negate = False` on elifuses refuted against ChainP")

    # 2. spec -> code: the universe
    tables, uni = load_universe(ctx)
    init_engines(tables, ctx.quick)
    keep = {}
    pool = multiprocessing.get_context("fork").Pool(NCPU)
    judge = Judge(ctx, pool)
    try:
        for name, cases in uni.items():
            if not cases:
                raise MachineryFailure("profile %s emitted no case" % name)
            judge_all(ctx, judge, cases, pool, ctx.pick(6000, 12000), keep)
    finally:
        pool.close()
        pool.join()
    st = judge.stats
    for k in ("same", "marker", "assert", "ifuses", "filter"):
        if st[k] == 0:
            raise MachineryFailure("no %s case was judged" % k)

    if st["exotic"]:
        ctx.ambiguous({"what": "marker on an expression whose value contains a line boundary that only str.splitlines() knows (FF, NEL, LS ...): "
                               "do_lineprefix treats it as a line end and rewrites it to LF; with LF/CR/CRLF as the only line ends the rendering is not the "
                               "prefixed plain text.  'Line' is not defined by the property: accepted under Python's notion, recorded here.",
                       "renderings": st["exotic"]})
    # 3. the text-level reading of the second sentence (note only): how often does the code differ from it while satisfying P
    note_readings(ctx, uni)
    note_scope(ctx)

    # 4. binding self-tests: corrupt one recorded field per record kind; the T-layer must reject exactly that record
    selftests(ctx, keep)

    ctx.sample({"direction": "spec->code->spec", "kind": "same", "template": "".join(uni[list(uni)[0]][len(uni[list(uni)[0]]) // 2]["ps"]),
                "runs": "4-13 (environment, flags, source newline) x %d contexts, bundled vs stock" % len(_W["ctxs"])})
    for k, (ln, case) in sorted(keep.items()):
        r = json.loads(ln)
        if k == "filter":
            ctx.sample({"kind": k, "template": filter_src(case)[0], "fs": filter_src(case)[1], "b": show(r["b"]), "s": show(r["s"])})
        elif k != "same":
            ctx.sample({"kind": k, "template": "".join(case["ps"]), "twin": "".join(case["pp"]),
                        **{f: (show(r[f]) if isinstance(r.get(f), dict) else None) for f in ("m", "p", "b", "s") if f in r}})
    ctx.cov["universe"] = {n: len(c) for n, c in uni.items()}
    ctx.cov["judged"] = {k: st[k] for k in ("same", "marker", "assert", "ifuses", "filter", "renderings")}
    ctx.cov["phases_s"] = {k: round(v, 1) for k, v in st["time"].items()}
    ctx.cov["skew_register"] = SKEW
    ctx.cov["rule"] = ("evaluations = renderings compared (template x environment/flag set x context; bundled vs reference); distinct = distinct "
                       "template sources per record kind; non-trivial = contains at least one tag.  The universe is enumerated exhaustively by TLC "
                       "from specs/JinjaRel.tla per profile (see model_runs); in the quick tier the seed only selects a subset of the thorough profiles.")
    ctx.cov["exhaustive"] = False
    ctx.assumptions += [
        "stock Jinja2 %s of /venv is the executable reference for the first sentence (Jinja2's semantics is not modelled in TLA+)" % _W["S"].__version__,
        "TLC and the JinjaRel* specifications (enumerator and judge)",
        "the grammar is frozen to productions on which both engines agree on the unchanged tree; version skew excluded: " + "; ".join(SKEW),
        "CodeGenEnvironment is compared with a stock Environment that has the trim_blocks/lstrip_blocks the caller asked for and the settings Nunavut "
        "fixes itself (keep_trailing_newline, undefined, delimiters) read back from the created object",
    ]
    ctx.not_exercised("async rendering, sandbox, native types, i18n/debug extensions, line statements/line comments, custom delimiters, autoescape=True")
    ctx.not_exercised("marker placements directly after another tag that strips white space (`-%}  {{* x }}`): 'the whitespace that precedes the marker' is then ambiguous")


def note_readings(ctx, uni):
    n = bad = 0
    ex = None
    for name, cases in uni.items():
        for case in cases:
            if case["k"] != "marker" or case["ck"] not in ("var", "if", "include"):
                continue
            run = RAW4[0]
            m = outcomes("b", run, "".join(case["ps"]), [_W["mctx"]])[0]
            p = outcomes("b", run, "".join(case["pp"]), [_W["mctx"]])[0]
            if not (m["ok"] and p["ok"]):
                continue
            mo, po = "".join(map(chr, m["out"])), "".join(map(chr, p["out"]))
            pre, post = case["pre"], case["post"]
            ok = False
            cands = []
            for k in range(len(post) + 1):
                if post[:k].strip(" \t\r\n"):
                    break
                cands += [post[k:]] + ([post[k:-1]] if post.endswith("\n") and k < len(post) else [])
            for s in cands:
                if po.startswith(pre) and po.endswith(s) and len(pre) + len(s) <= len(po):
                    c = po[len(pre):len(po) - len(s)]
                    if mo == pre + strict_lp(c, case["ws"]) + s:
                        ok = True
            n += 1
            if not ok:
                bad += 1
                ex = ex or {"marker": "".join(case["ps"]), "renders": mo, "plain": "".join(case["pp"]), "plain_renders": po}
            if n >= 4000:
                break
    if bad:
        ctx.ambiguous({"what": "second sentence, text-level reading (every non-empty line prefixed, everything else verbatim): do_lineprefix joins the "
                               "lines with LF and drops the final line terminator, so the rendering equals the text-level reading only modulo terminator "
                               "style and the final terminator; P asserts what both readings imply (JinjaRelSem!LinePrefixOK)",
                       "marker_renderings_checked": n, "differ_from_text_level_reading": bad, "example": ex})


def note_scope(ctx):
    """observation outside the asserted clause: the marker wraps the block in a FilterBlock, which is a scope"""
    m = outcomes("b", RAW4[0], "  {%* set a = 1 %}{{ a }}", [{}])[0]
    p = outcomes("b", RAW4[0], "{% set a = 1 %}{{ a }}", [{}])[0]
    if p["ok"] and not m["ok"]:
        ctx.ambiguous({"what": "a block opened with the marker is wrapped in a filter block, which is a scope: assignments / macros / imports made inside "
                               "`{%* ... %}` are not visible after it (`  {%* set a = 1 %}{{ a }}` raises, the plain template prints 1).  The property "
                               "constrains how the construct RENDERS; whether its side effects survive is not stated -> not asserted, recorded.",
                       "marker": show(m), "plain": show(p)})


def selftests(ctx, keep):
    tests = []
    missing = [k for k in ("same", "marker", "assert", "ifuses", "filter") if k not in keep]
    if missing:
        if not ctx.violations:
            raise MachineryFailure("no accepted %s record available for the binding self-test" % "/".join(missing))
        # the self-tests corrupt ACCEPTED records of the tree under test: a tree on which a whole kind is rejected is judged by its verdicts
        ctx.not_exercised("binding self-tests skipped: no accepted %s record on this tree (it violates the property itself, see the verdicts)" % "/".join(missing))
        return
    r = json.loads(keep["same"][0])
    tgt = next(x for x in r["runs"] if x["b"]["ok"])
    tgt["b"] = {"ok": 1, "out": tgt["b"]["out"] + [120]}
    tests.append(("same: one extra character in one bundled rendering", r, "jinja.same"))
    r = json.loads(keep["same"][0])
    tgt = next(x for x in r["runs"] if x["s"]["ok"])
    tgt["b"] = {"ok": 0, "exc": "TemplateSyntaxError"}
    tests.append(("same: bundled fails where stock renders", r, "jinja.same"))
    r = json.loads(keep["assert"][0])
    r["b"] = {"ok": 0, "exc": "TemplateAssertionError"} if r["b"]["ok"] else {"ok": 1, "out": []}
    tests.append(("assert: raising flipped", r, "jinja.assert"))
    r = json.loads(keep["ifuses"][0])
    r["b"] = {"ok": 1, "out": (r["b"].get("out") or []) + cps("E\n")}
    tests.append(("ifuses: another branch rendered", r, "jinja.ifuses"))
    r = json.loads(keep["filter"][0])
    r["b"] = {"ok": 1, "out": r["b"]["out"][r["fw"]:]}
    tests.append(("filter: the indentation of the first line removed from a recorded `indent(.., first=true)` rendering", r, "jinja.same"))
    r = json.loads(keep["filter"][0])
    r["first"] = False
    tests.append(("filter: expected outcome perturbed (first=false in the stimulus, renderings kept)", r, ("harness.filter.indent", "jinja.same")))
    r = json.loads(keep["ifuses"][0])
    r["cl"][0]["neg"] = not r["cl"][0]["neg"]
    tests.append(("ifuses: expected outcome perturbed (first clause negated in the stimulus, renderings kept)", r, ("jinja.ifuses", "harness.ifuses")))
    r = json.loads(keep["marker"][0])
    r["m"] = dict(r["p"])
    tests.append(("marker: recorded marker rendering replaced by the plain rendering", r, "jinja.lineprefix"))
    r = json.loads(keep["marker"][0])
    r["ws"] = r["ws"] + [32]
    tests.append(("marker: recorded prefix one blank longer than the one rendered", r, "jinja.lineprefix"))
    # marker, synthetic: the prefix is missing on the second line only
    r = {"id": 0, "k": "marker", "ck": "var", "pre": cps("A\n"), "post": cps("\nZ"), "ws": cps("  "), "s": {"ok": 1, "out": cps("A\na\nb\nZ")},
         "p": {"ok": 1, "out": cps("A\na\nb\nZ")}, "m": {"ok": 1, "out": cps("A\n  a\nb\nZ")}}
    tests.append(("marker: prefix missing on the second line", r, "jinja.lineprefix"))
    r = dict(r, m={"ok": 1, "out": cps("A\n  a\n  b\nZ")})
    tests.append(("marker: control (correct rendering accepted)", r, None))
    r = dict(r, m={"ok": 1, "out": cps("A\na\nb\nZ")})
    tests.append(("marker: marker ignored (plain text)", r, "jinja.lineprefix"))
    lines = []
    for i, (_n, rec, _e) in enumerate(tests):
        rec["id"] = i
        lines.append((i, json.dumps(rec, separators=(",", ":")), 0))
    before = ctx.cov["traces_validated_against_impl"]
    rej = validate_lines(ctx, lines, 100)
    ctx.cov["traces_validated_against_impl"] = before
    for i, (name, _rec, exp) in enumerate(tests):
        got = rej.get(i, (None, 0))[0]
        if exp is None:
            if got is not None:
                raise MachineryFailure("self-test control rejected: %s (%s)" % (name, got))
        else:
            ctx.selftest(name, got in exp if isinstance(exp, tuple) else got == exp)


def replay(ctx, case):
    ctx.tier = "replay"  # a failing replay writes replay-NNN.json instead of overwriting the file it was started from
    got = emit(ctx, ["JinjaRel_assert"])
    tables = next(c for c in got["JinjaRel_assert"] if c["k"] == "tables")
    ctx.cov["model_runs"] = []
    init_engines(tables)
    judge = Judge(ctx)
    c = case["case"]
    judge_all(ctx, judge, [c], None, 10)
