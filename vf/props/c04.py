"""C04 - generated C/C++ codecs are memory-safe, total and free of prior-state influence.

Model:   CodecTrace.tla: every call must return (a `call` without a `ret` - sanitizer abort, crash, assert - is not a behaviour), with an error kind
         from the documented set; records of one case differ only in the PRIOR STATE of the destination object (fresh / poisoned / left by an
         earlier decode) and must agree with the first (history variable `prev`): the outcome is a function of the input bytes only.
         WireMachineDes.tla (I-layer, vf/desmachine.py): the C decoder's cursor machine; TLC checks that it refines Des, that the templates'
         alignment assertions hold, that direct byte reads stay inside and that every pointer handed to a nested routine lies inside the
         caller's buffer (PointerInside; the unclamped call site of the pinned tree is a refuted negative control).  A spy compiled around the
         generated routines records every nested call (pointer offset, size in, result, size out); TLC replays each decode through the machine
         (WireMachineDesTrace): des.ptr_inside decides here, differences in calls / returns / result are model drift.
What TLA+ does not decide: out-of-bounds access, UB and leaks are OBSERVED by ASan/UBSan/LSan under which the traces are recorded (clang,
         exact-size heap buffers); the spec only says such a trace is not a behaviour.
"""
import concurrent.futures

from .. import codec, desmachine, lemmas

PROP = "C04"
OWN = {"cross.rc": PROP, "cross.value": PROP, "cross.consumed": PROP}


def specs_for(ctx):
    f = ctx.pick(0.5, 1.0)
    # c/little sees every type: the little-endian option switches on the bulk-copy fast paths, the delicate part for memory safety
    # two of the option sets also turn the generated assertions on (NUNAVUT_ASSERT = assert): an assertion that fires is a call that does not return
    return [codec.spec("c", "c/any", {}, True), codec.spec("c", "c/little+asserts", {"target_endianness": "little", "enable_serialization_asserts": True}, True),
            codec.spec("cpp", "cpp/c++14", {}, True, std="c++14"), codec.spec("cpp", "cpp/c++17+asserts", {"enable_serialization_asserts": True}, True, std="c++17", frac=f),
            codec.spec("cpp", "cpp/c++17-pmr", {}, True, std="c++17-pmr", frac=f)]


def run(ctx):
    # the memory argument of the cursor machines for buffers of ANY size (Apalache inductive invariants, specs/CursorInd*.tla), in the background
    lemma_job = concurrent.futures.ThreadPoolExecutor(max_workers=1).submit(lemmas.run_cursor, ctx)
    types = codec.universe(ctx, ctx.pick(40, 400), ctx.pick(1, 2))
    if ctx.quick:
        types = types[::2] + [t for t in types[1::2] if any(x in codec.dsdl.features(t) for x in ("varr", "farr", "farr-of-bool", "varr-of-bool")) and len(t["fields"]) <= 3][:40]
    codec.mark_services(types)
    camp = codec.Campaign(ctx, types, specs_for(ctx), with_py=False, batch=ctx.pick(30, 40))
    camp.build()
    codec.report_gen_failures(camp, ctx, PROP)
    rng = ctx.rng
    # 1. serialization of arbitrary objects (invalid counts / tags, out-of-range storage values) into exactly sized buffers of every size class
    vcases = codec.value_cases(camp, rng, 1, ctx.pick(3, 10), n_boundary=ctx.pick(3, 8))
    sizes = {}

    def buf_of(c, need):
        return sizes.setdefault(c["case"], rng.choice([need, need, need + 1, max(need - 1, 0), 0, need // 2]))

    out = camp.ser_events(vcases, buf_of=buf_of)
    crashes = list(out.get("crash", []))
    valid = {}
    for c in vcases:
        r = out.get((c["case"], "c/any"))
        if r and r["err"] == "none":
            valid.setdefault(c["ti"], []).append(bytes(r["bytes"]))
    # 2. deserialization of arbitrary bytes into fresh / poisoned / reused objects; a reused object first decodes the valid encoding with the
    #    most non-zero bytes (so that every nested object, array and union alternative holds something that must not survive)
    populate = {ti: max(encs, key=lambda e: sum(1 for x in e if x)) for ti, encs in valid.items() if encs}
    dcases = []
    for ti, t in enumerate(camp.types):
        maxb = codec.dsdl.max_bits_body(t) // 8
        for data, why in codec.byte_strings(rng, valid.get(ti, [])[:3], maxb, ctx.pick(4, 10), not ctx.quick, evolve=lambda enc, t=t: codec.dsdl.evolve(t, enc, rng, limit=3)):
            if why in ("bitflip", "byteset", "extended") and rng.random() < 0.5 and ctx.quick:
                continue
            dcases.append({"ti": ti, "data": data, "why": why, "case": camp.new_case(), "null": why == "null", "priors": (0, 1, 2), "per_target": True,
                           "populate": populate.get(ti)})
    res = camp.des_events(dcases)
    crashes += res.get("crash", [])
    # verdicts: a call that did not return
    for info, r in crashes:
        t = camp.types[info["ti"]]
        info = dict(info, descr=t, type=codec.dsdl.shape(t))
        kind = "sanitizer" if "Sanitizer" in r.get("crash", "") or "runtime error" in r.get("crash", "") else "abort"
        case = {k: v for k, v in info.items()}
        case["spec"] = next(sp for sp in camp.specs if sp["name"] == info["target"])
        case["report"] = r.get("crash", "")[-1200:]
        ctx.violation(codec.signature(PROP, "hist.noret." + kind, info), "call did not return on %s (%s): %s" % (info["target"], kind, _first_line(r.get("crash", ""))), case)
    # undocumented error codes
    for r in camp.records:
        if r.get("err") in ("other", "invalid_arg") and not camp.stim[r["id"]].get("null"):
            info = camp.describe(r["id"])
            ctx.violation(codec.signature(PROP, "hist.rc_documented", info), "undocumented error code on %s" % info["target"], {k: v for k, v in info.items()})
    override_campaign(ctx)
    # the deserializer's cursor machine: nested-call pointers observed by a spy, replayed through WireMachineDes (pointer clause decides here)
    desmachine.campaign(ctx, PROP, decide_ptr=True)
    # the bounded fetches those routines call: pointer watch on the C support library (BitPrims!PtrInside)
    from . import c14
    c14.pointer_watch(ctx, PROP)
    rej = camp.judge()
    codec.report(camp, ctx, rej, PROP, extra_owner=OWN,
                 also=lambda clause, info: clause in ("ser.guard", "ser.bad_len", "ser.bad_tag", "ser.too_small") or (clause.startswith("des.") and info.get("prior")))
    codec.count_distinct(camp, ctx)
    ctx.cov["calls_without_return"] = len(crashes)
    r = next((x for x in camp.records if x["ev"] == "des" and camp.stim[x["id"]].get("prior") == 2), camp.records[0])
    ctx.sample({"record": {k: r[k] for k in r if k != "t"}, "type": camp.describe(r["id"])["type"], "stimulus": {k: v for k, v in camp.stim[r["id"]].items()}})
    ctx.cov["rule"] = ("ASan+UBSan+LSan builds (clang -O1) of C {any, little} and C++ {14 built-in variant, 17 std::variant, 17-pmr}; serialization of valid, "
                       "out-of-range and invalid objects into exact-size heap buffers of size need/need+1/need-1/0/need/2; every byte string decoded into a "
                       "fresh, a poisoned and a reused object; distinct = (event, target, type shape, construction, prior, stimulus hash)")
    ninductive = lemma_job.result()
    if ninductive:
        ctx.cov["unbounded_lemmas"] = ("CursorInd / CursorIndSer: %d Apalache runs over unbounded integers (init, inductive step, refuted control each): every byte touched and "
                                       "every pointer handed to a nested decoder lies inside the supplied buffer for buffers of any size" % ninductive)
    ctx.assumptions += ["memory safety is observed by the sanitizer runtimes, not decided by the model", "clang 14 sanitizers", "poisoned C++ objects are objects that "
                        "first decoded a junk buffer (non-trivial types cannot be memset)"]


def override_campaign(ctx):
    """the documented per-field capacity override (C option enable_override_variable_array_capacity): the user compiles with a REDUCED
    <type>_<field>_ARRAY_CAPACITY_; the object then has that capacity and the codec must behave like the type with cap := k (wire prefix unchanged)"""
    import copy

    d = codec.dsdl
    rng = ctx.rng
    elems = [d.U(8), d.I(13), d.B(), d.F(16), d.S([d.U(8), d.I(5)])]
    types, reduced = [], []
    for e in elems:
        for cap in ((4, 9) if ctx.quick else (4, 9, 40, 300)):
            if cap == 300 and d.is_comp(e):
                continue
            t = d.S([d.U(3), d.VA(copy.deepcopy(e), cap), d.U(8)])
            types.append(t)
            reduced.append(rng.choice([1, 2, cap - 1]))
    flags = ["-D@NS@_T%d_1_0_f1_ARRAY_CAPACITY_=%dU" % (_tname(types, i), k) for i, k in enumerate(reduced)]
    sp = codec.spec("c", "c/override-capacity", {"enable_override_variable_array_capacity": True}, True, flags=flags)
    camp = codec.Campaign(ctx, types, [sp], with_py=False, batch=len(types))
    camp.build()
    codec.report_gen_failures(camp, ctx, PROP)
    cases, dcases = [], []
    for ti, t in enumerate(types):
        cap, k = t["fields"][1]["cap"], reduced[ti]
        for n in sorted({0, 1, k, k + 1, cap}):
            if n > cap:
                continue
            # object side: the struct only has k elements; a count above k is an invalid object
            e = t["fields"][1]["e"]
            vals = [d.rand_value(rng, e) for _ in range(min(n, k))]
            v = [rng.randrange(8), vals if n <= k else ("badcount", n, vals), rng.randrange(256)]
            cases.append({"ti": ti, "v": v, "klass": "override" if n <= k else "override-count-above-reduced-capacity", "case": camp.new_case()})
            # wire side: a message announcing n elements
            t_wire = t
            enc = _encode_count(t_wire, n, rng)
            dcases.append({"ti": ti, "data": enc, "why": "override" if n <= k else "override-count-above-reduced-capacity", "case": camp.new_case(), "priors": (1,)})
    out = camp.ser_events(cases, buf_of=lambda c, need: need)
    res = camp.des_events(dcases)
    for info, r in list(out.get("crash", [])) + list(res.get("crash", [])):
        t = camp.types[info["ti"]]
        info = dict(info, descr=t, type=d.shape(t))
        ctx.violation("C04|c|override-capacity|hist.noret.sanitizer|%s" % (info.get("klass") or info.get("why")),
                      "call did not return with a reduced array capacity: %s" % _first_line(r.get("crash", "")),
                      {k: v for k, v in info.items() if k != "descr"})
    # judge against the type whose object capacity is the reduced one
    for r in camp.records:
        ti = camp.stim[r["id"]]["ti"]
        r["t"]["fields"][1]["cap"] = reduced[ti]
    rej = camp.judge()
    for rid, clause in sorted(rej.items()):
        info = camp.describe(rid)
        klass = info.get("klass") or info.get("why")
        elem = d.shape(info["descr"]["fields"][1]["e"])
        sig = "C04|c|override-capacity|%s|%s" % (clause, klass)
        ctx.violation(sig, "%s with user-reduced array capacity (element %s, DSDL capacity %d reduced to %d): the generated code compares the count with the DSDL capacity literal"
                      % (clause, elem, info["descr"]["fields"][1]["cap"], reduced[info["ti"]]),
                      {"ev": info["ev"], "target": "c/override-capacity", "type": info["type"], "reduced_to": reduced[info["ti"]], "stimulus": {k: v for k, v in info.items() if k in ("v", "data", "why", "klass")}})
    for r in camp.records:
        ctx.distinct("override|%s|%s|%s" % (r["ev"], camp.stim[r["id"]]["ti"], camp.stim[r["id"]].get("klass") or camp.stim[r["id"]].get("why")))
    ctx.cov["override_capacity_records"] = len(camp.records)


def _tname(types, i):
    # TypeSet names composites in order of first appearance, nested ones first
    n = 0
    for j, t in enumerate(types):
        if codec.dsdl.is_comp(t["fields"][1]["e"]):
            n += 1
        if j == i:
            return n
        n += 1
    return n


def _encode_count(t, n, rng):
    """bytes of a message of type S(u3, T[<=cap], u8) announcing n elements (element content random)"""
    d = codec.dsdl
    arr = t["fields"][1]
    pw = d.prefix_w(arr["wcap"])
    bits = [rng.getrandbits(1) for _ in range(3)]
    if d.is_comp(arr["e"]):
        bits += [0] * 5
    bits += [(n >> i) & 1 for i in range(pw)]
    ew = d.max_bits_field(arr["e"])
    bits += [rng.getrandbits(1) for _ in range(n * ew + 8)]
    while len(bits) % 8:
        bits.append(0)
    return bytes(sum(bits[i + j] << j for j in range(8)) for i in range(0, len(bits), 8))


def _first_line(s):
    for ln in s.splitlines():
        if "ERROR" in ln or "runtime error" in ln or "Assertion" in ln:
            return ln.strip()[:300]
    return s.strip()[:200]


def replay(ctx, case):
    if case.get("kind") == "desmachine":
        desmachine.replay(ctx, case, PROP)
        return
    if case.get("kind") == "primwatch":
        from . import c14
        c14.replay_pointer_watch(ctx, case, PROP)
        return
    codec.replay_generic(ctx, case, PROP)
