"""C04 - generated C/C++ codecs are memory-safe, total and free of prior-state influence.

Model:   CodecTrace.tla: every call must return (a `call` without a `ret` - sanitizer abort, crash, assert - is not a behaviour), with an error kind
         from the documented set; records of one case differ only in the PRIOR STATE of the destination object (fresh / poisoned / left by an
         earlier decode) and must agree with the first (history variable `prev`): the outcome is a function of the input bytes only.
What TLA+ does not decide: out-of-bounds access, UB and leaks are OBSERVED by ASan/UBSan/LSan under which the traces are recorded (clang,
         exact-size heap buffers); the spec only says such a trace is not a behaviour.
"""
from .. import codec

PROP = "C04"
OWN = {"cross.rc": PROP, "cross.value": PROP, "cross.consumed": PROP}


def specs_for(ctx):
    f = ctx.pick(0.5, 1.0)
    return [codec.spec("c", "c/any", {}, True), codec.spec("c", "c/little", {"target_endianness": "little"}, True, frac=f),
            codec.spec("cpp", "cpp/c++14", {}, True, std="c++14"), codec.spec("cpp", "cpp/c++17", {}, True, std="c++17", frac=f),
            codec.spec("cpp", "cpp/c++17-pmr", {}, True, std="c++17-pmr", frac=f)]


def run(ctx):
    types = codec.universe(ctx, ctx.pick(40, 400), ctx.pick(1, 2))
    if ctx.quick:
        types = types[::2]
    camp = codec.Campaign(ctx, types, specs_for(ctx), with_py=False, batch=ctx.pick(30, 40))
    camp.build()
    codec.report_gen_failures(camp, ctx, PROP)
    rng = ctx.rng
    # 1. serialization of arbitrary objects (invalid counts / tags, out-of-range storage values) into exactly sized buffers of every size class
    vcases = codec.value_cases(camp, rng, 2, ctx.pick(4, 10))
    sizes = {}

    def buf_of(c, need):
        return sizes.setdefault(c["case"], rng.choice([need, need, need + 1, max(need - 1, 0), 0, need // 2]))

    out = camp.ser_events(vcases, buf_of=buf_of)
    crashes = list(out.get("crash", []))
    valid = {}
    for c in vcases:
        r = out.get((c["case"], "c/any"))
        if r and r["err"] == "none":
            valid.setdefault(c["ti"], []).append(bytes(r["bytes"]))
    # 2. deserialization of arbitrary bytes into fresh / poisoned / reused objects
    dcases = []
    for ti, t in enumerate(camp.types):
        maxb = codec.dsdl.max_bits_body(t) // 8
        for data, why in codec.byte_strings(rng, valid.get(ti, [])[:3], maxb, ctx.pick(4, 10), not ctx.quick):
            if why == "truncated" and rng.random() < 0.5 and ctx.quick:
                continue
            dcases.append({"ti": ti, "data": data, "why": why, "case": camp.new_case(), "null": why == "null", "priors": (0, 1, 2), "per_target": True})
    res = camp.des_events(dcases)
    crashes += res.get("crash", [])
    # verdicts: a call that did not return
    for info, r in crashes:
        t = camp.types[info["ti"]]
        info = dict(info, descr=t, type=codec.dsdl.shape(t))
        kind = "sanitizer" if "Sanitizer" in r.get("crash", "") or "runtime error" in r.get("crash", "") else "abort"
        case = {k: v for k, v in info.items()}
        case["spec"] = next(sp for sp in camp.specs if sp["name"] == info["target"])
        case["report"] = r.get("crash", "")[-1200:]
        ctx.violation(codec.signature(PROP, "hist.noret." + kind, info), "call did not return on %s (%s): %s" % (info["target"], kind, _first_line(r.get("crash", ""))), case)
    # undocumented error codes
    for r in camp.records:
        if r.get("err") in ("other", "invalid_arg") and not camp.stim[r["id"]].get("null"):
            info = camp.describe(r["id"])
            ctx.violation(codec.signature(PROP, "hist.rc_documented", info), "undocumented error code on %s" % info["target"], {k: v for k, v in info.items()})
    rej = camp.judge()
    codec.report(camp, ctx, rej, PROP, extra_owner=OWN,
                 also=lambda clause, info: clause in ("ser.guard", "ser.bad_len", "ser.bad_tag", "ser.too_small") or (clause.startswith("des.") and info.get("prior")))
    codec.count_distinct(camp, ctx)
    ctx.cov["calls_without_return"] = len(crashes)
    r = next((x for x in camp.records if x["ev"] == "des" and camp.stim[x["id"]].get("prior") == 2), camp.records[0])
    ctx.sample({"record": {k: r[k] for k in r if k != "t"}, "type": camp.describe(r["id"])["type"], "stimulus": {k: v for k, v in camp.stim[r["id"]].items()}})
    ctx.cov["rule"] = ("ASan+UBSan+LSan builds (clang -O1) of C {any, little} and C++ {14 built-in variant, 17 std::variant, 17-pmr}; serialization of valid, "
                       "out-of-range and invalid objects into exact-size heap buffers of size need/need+1/need-1/0/need/2; every byte string decoded into a "
                       "fresh, a poisoned and a reused object; distinct = (event, target, type shape, construction, prior, stimulus hash)")
    ctx.assumptions += ["memory safety is observed by the sanitizer runtimes, not decided by the model", "clang 14 sanitizers", "poisoned C++ objects are objects that "
                        "first decoded a junk buffer (non-trivial types cannot be memset)"]
    ctx.not_exercised("enable_override_variable_array_capacity with user-reduced capacities (see DESIGN §8 D10)")


def _first_line(s):
    for ln in s.splitlines():
        if "ERROR" in ln or "runtime error" in ln or "Assertion" in ln:
            return ln.strip()[:300]
    return s.strip()[:200]


def replay(ctx, case):
    codec.replay_generic(ctx, case, PROP)
