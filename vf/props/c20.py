"""C20 - generated HTML documentation is well-formed, escaped and internally linked.

Model:   specs/HtmlDoc.tla  P-layer: push-down acceptor `Step(state, event)` over the token events of a strict HTML tokenizer (balance /
         nesting with void, raw-text and foreign elements; sentinel clause: text planted in DSDL comments between two marks must arrive
         as character data or inside ONE attribute value with nothing but character data between the marks; URL resolution `Resolve` and
         the link clause at the end of a run).  Bounded sanity model: over all token strings <= 5 (thorough 6) of 14 tokens the acceptor
         accepts exactly those an independent definition (Dyck word by pair deletion, span regular expression) calls well-formed.
         specs/HtmlDocGen.tla  I-layer: template literal + finalizer (escaping or not) + a character-level HTML lexer for every payload of
         <= 3 of the 9 special tokens, and build_namespace_tree / url_from_type for every type-graph shape; TLC checks I => P for the
         escaping / depth-aware variant and refutes the variants the unchanged tree implements (negative controls).
spec->code: every payload and every shape TLC enumerates becomes a set of DSDL root namespaces, is generated with the real html target into
         ONE output directory and judged; the I-layer's predictions (verdict per payload, pages, hyperlinks, broken hyperlinks) are compared
         per run - differences are model drift, never verdicts.
config:  the NAME of a namespace page is a parameter of the run (<namespace file stem><extension>, "index.html" by default;
         --namespace-output-stem / --output-extension, LanguageContextBuilder overrides).  The I-layer has it as IndexPage(cfg) and the
         shapes are generated under {default, stem override, extension override, both} (quick: one shape per ordered namespace pair
         and configuration; thorough: all), through the builder API and, for a few, through the command line.  P is unchanged: a
         directory url denotes <dir>/index.html only, the resolved page must be among the produced ones.
code->spec: every produced page is tokenised with html.parser in a bookkeeping subclass; the events of all pages of a run form one trace
         for specs/HtmlDocTrace.tla (one TLC state per token event, link clause at `endrun` over the pages/ids/links of the run); plus seeded
         random universes that are larger than anything TLC enumerates.
Only the T-layer's REJECT records become violations.  Python only attributes a rejection to a signature (structural class) and folds the
rejections that FOLLOW the first sentinel rejection of a page (the page is read differently from the injected markup on).
"""
import concurrent.futures
import html.parser
import json
import os
import pathlib
import re
import shutil
import sys

from ..core import MachineryFailure, NCPU, REPO, sha
from .. import tlc

# ------------------------------------------------------------------------------------------------------------------
# sentinels
# ------------------------------------------------------------------------------------------------------------------
# A span planted in a DSDL comment is  zqja<sid>x <payload> zqjb<sid>x ; every DSDL identifier of a generated universe contains
# "zq" (namespaces zqr*, zqs*; types Zqt*; fields zqf*; constants ZQK*).  No legacy character reference name starts with z,
# so "&" in front of a marker is never a character reference.
RE_MARK = re.compile(r"zqj([ab])(\d+)x")
RE_TAINT = re.compile(r"zq", re.I)
RE_VERSION = re.compile(r"\s*\(v(\d+)\.(\d+)\)|\.(\d+)\.(\d+)(?![\w.])")
RE_DOTTED = re.compile(r"[A-Za-z_][A-Za-z0-9_]*(?:\.[A-Za-z_][A-Za-z0-9_]*)+")

VOID = ["area", "base", "br", "col", "embed", "hr", "img", "input", "link", "meta", "param", "source", "track", "wbr"]
RAWTEXT = ["script", "style"]

RE_ENDTAG_STRICT = re.compile(r"</[a-zA-Z][^\t\n\r\f />\x00]*[\t\n\r\f ]*>")
RE_TAGNAME_STRICT = re.compile(r"[a-z][a-z0-9]*(?:-[a-z0-9]+)*")
RE_ATTRNAME_BAD = re.compile(r"[\"'<=`]")
RE_STRAY_LT = re.compile(r"<(?:[A-Za-z]|/[A-Za-z]|!|\?)")


def cps(s):
    return [ord(c) for c in s]


def to_s(cp):
    return "".join(map(chr, cp))


def pieces(s, keep="all", depth=0):
    """lex character data / an attribute value into text pieces and sentinel marks.  keep = "all": text pieces carry their
    content; "span": only text between an open mark and its close mark does (depth = marks open before s); "none": no content."""
    res, pos = [], 0

    def text(t):
        res.append({"m": 0, "i": 0, "s": cps(t) if keep == "all" or (keep == "span" and depth > 0) else []})

    for m in RE_MARK.finditer(s):
        if m.start() > pos:
            text(s[pos:m.start()])
        res.append({"m": 1 if m.group(1) == "a" else 2, "i": int(m.group(2)), "s": []})
        depth = depth + 1 if m.group(1) == "a" else max(0, depth - 1)
        pos = m.end()
    if pos < len(s):
        text(s[pos:])
    return res


def nmarks(s):
    return len(RE_MARK.findall(s))


def nopen(s):
    return sum(1 for m in RE_MARK.finditer(s) if m.group(1) == "a")


def ntaint(s):
    """DSDL identifiers of the universe that are not part of a marker"""
    return len(RE_TAINT.findall(RE_MARK.sub("", s)))


class Tokenizer(html.parser.HTMLParser):
    """html.parser with strict bookkeeping: every character of the page is attributed to exactly one event, tolerant recoveries
    of the parser (junk in end tags, unterminated constructs flushed as text, odd tag / attribute names, duplicate attributes)
    are flagged in `bad` instead of being silently accepted."""

    def __init__(self, src, names):
        super().__init__(convert_charrefs=True)
        self.src = src
        self.names = names  # full type name -> universe index (for type-reference links)
        self.ev = []
        self._starts = [0]
        for ln in src.split("\n"):
            self._starts.append(self._starts[-1] + len(ln) + 1)
        self.open_marks = 0  # open marks minus close marks seen so far in character data
        try:
            self.feed(src)
            self.close()
        except (AssertionError, ValueError, IndexError) as ex:  # html.parser gives up on some malformed declarations
            d = self.rawdata
            self.cdata_elem = None
            self.ev.append({"k": "text", "raw": False, "p": [], "tn": 0, "refs": [], "bad": ["untokenizable"], "_d": d,
                            "o": max(len(src) - len(d), self.ev[-1]["o"] if self.ev else 0)})
            self.rawdata = ""
        if self.rawdata:
            if self.cdata_elem is None:
                raise MachineryFailure("html.parser left %d characters unconsumed" % len(self.rawdata))
            # a raw text element (script/style) that is never closed: html.parser keeps the rest of the page back
            d = self.rawdata
            self.ev.append({"k": "text", "raw": True, "p": [], "tn": ntaint(d), "refs": [], "bad": ["unterminated-raw-text"], "_d": d,
                            "o": len(src) - len(d)})
        self._finish()

    def _off(self):
        ln, col = self.getpos()
        return self._starts[ln - 1] + col

    def _add(self, e):
        e["o"] = self._off()
        self.ev.append(e)

    def handle_starttag(self, tag, attrs):
        self._start(tag, attrs, False)

    def handle_startendtag(self, tag, attrs):
        self._start(tag, attrs, True)

    def _start(self, tag, attrs, sc):
        bad = []
        if not RE_TAGNAME_STRICT.fullmatch(tag):
            bad.append("tagname")
        seen = set()
        a = []
        taint = nmarks(tag) + ntaint(tag)
        tainto = nopen(tag)
        for n, v in attrs:
            if n in seen:
                bad.append("dupattr")
            seen.add(n)
            if RE_ATTRNAME_BAD.search(n):
                bad.append("attrname")
            taint += nmarks(n) + ntaint(n)
            tainto += nopen(n)
            a.append({"n": cps(n), "hv": v is not None, "v": pieces(v or "", "all" if n in ("id", "name", "href") else "span")})
        txt = self.get_starttag_text() or ""
        if not txt.endswith(">"):
            bad.append("unterminated")
        self._add({"k": "open", "t": cps(tag), "a": a, "sc": sc, "taint": taint, "tainto": tainto, "bad": sorted(set(bad)), "len": len(txt)})

    def handle_endtag(self, tag):
        self._add({"k": "close", "t": cps(tag), "taint": nmarks(tag) + ntaint(tag), "tainto": nopen(tag), "bad": []})

    def handle_data(self, data):
        raw = self.cdata_elem is not None
        self._add({"k": "text", "raw": raw, "p": [], "tn": ntaint(data) if raw else 0, "refs": [], "bad": [], "_d": data})

    def handle_comment(self, data):
        self._comment("comment", data)

    def handle_decl(self, decl):
        self._comment("decl", decl)

    def handle_pi(self, data):
        self._comment("pi", data)

    def unknown_decl(self, data):
        self._comment("cdata", data)

    def _refs(self, d):
        """types of the universe named by character data: a dotted full name, exact when its version follows as " (vM.m)" (the way
        the templates print it) or ".M.m" (the way PyDSDL prints it), otherwise every version of that name"""
        res = set()
        for m in RE_DOTTED.finditer(d):
            vs = self.names.get(m.group(0))
            if vs:
                v = RE_VERSION.match(d, m.end())
                key = (int(v.group(1) or v.group(3)), int(v.group(2) or v.group(4))) if v else None
                res.update([vs[key]] if key in vs else vs.values())
        return sorted(res)

    def _comment(self, what, data):
        self._add({"k": "comment", "what": what, "tm": nmarks(data), "tmo": nopen(data), "tn": ntaint(data)})

    def _finish(self):
        ev, src = self.ev, self.src
        prev = 0
        for i, e in enumerate(ev):
            if e["o"] < prev:
                raise MachineryFailure("tokenizer bookkeeping: event offsets not monotonic at %d" % e["o"])
            prev = e["o"]
            end = ev[i + 1]["o"] if i + 1 < len(ev) else len(src)
            sl = src[e["o"]:end]
            if e["k"] == "open":
                n = e.pop("len")
                if n > len(sl):
                    raise MachineryFailure("tokenizer bookkeeping: start tag text longer than its slice at %d" % e["o"])
                if n < len(sl):  # html.parser consumed characters without reporting them (e.g. "</>")
                    e["bad"] = sorted(set(e["bad"] + ["unattributed"]))
            elif e["k"] == "close":
                if not RE_ENDTAG_STRICT.fullmatch(sl):
                    e["bad"].append("endtag")
            elif e["k"] == "text" and not e["raw"]:
                if RE_STRAY_LT.search(sl):
                    e["bad"].append("straylt")
        if ev and ev[0]["o"] != 0:
            raise MachineryFailure("tokenizer bookkeeping: page does not start with an event")
        # merge consecutive character data, find type names, drop white space that cannot matter
        out = []
        for e in ev:
            if e["k"] == "text" and out and out[-1]["k"] == "text" and out[-1]["raw"] == e["raw"]:
                p = out[-1]
                p["_d"] += e["_d"]
                p["tn"] += e["tn"]
                p["bad"] = sorted(set(p["bad"] + e["bad"]))
            else:
                out.append(e)
        res = []
        for e in out:
            if e["k"] == "text":
                d = e.pop("_d")
                if e["raw"]:
                    e["p"] = pieces(d, "none")
                else:
                    e["refs"] = self._refs(d)
                    was_open = self.open_marks > 0
                    e["p"] = pieces(d, "span", self.open_marks)
                    for p in e["p"]:
                        self.open_marks = self.open_marks + 1 if p["m"] == 1 else (max(0, self.open_marks - 1) if p["m"] == 2 else self.open_marks)
                    if not d.strip() and not was_open and not e["bad"]:
                        continue
            res.append(e)
        self.ev = res


# ------------------------------------------------------------------------------------------------------------------
# DSDL universes
# ------------------------------------------------------------------------------------------------------------------
def doc_lines(text):
    return "".join("# %s\n" % ln if ln else "#\n" for ln in text.split("\n"))


CVALS = ["'<'", "'&'", "'\"'", "'>'", "'\\''", "60", "7 / 2 + 1 / 2", "0x26"]


class Universe:
    """A set of root namespaces described by a JSON-able case:
    {"types": [{"ns": ["zqra","zqs"], "name": "Zqt1", "kind": "struct|delimited|union|service", "deprecated": bool,
                "refs": [{"to": 0, "how": "plain|farr|varr", "where": "field|resp"}],
                "doc": sid|0, "fdoc": sid|0, "cdoc": sid|0, "cval": DSDL expression}],
     "nsdocs": [{"ns": [...], "doc": sid}],
     "spans": {sid: payload string}}
    Every DSDL identifier contains "zq"; every payload is wrapped in the sentinel marks of its span id."""

    def __init__(self, case):
        self.case = case
        self.spans = {int(k): v for k, v in case.get("spans", {}).items()}
        self.slot = {}  # sid -> slot class
        for t in case["types"]:
            for k, slot in (("doc", "type-doc"), ("fdoc", "attr-doc"), ("cdoc", "attr-doc")):
                if t.get(k):
                    self.slot[t[k]] = slot
        for nd in case.get("nsdocs", []):
            self.slot[nd["doc"]] = "ns-doc"

    def span(self, sid):
        return "zqja%dx%szqjb%dx" % (sid, self.spans[sid], sid) if sid else ""

    def full(self, t):
        return ".".join(t["ns"] + [t["name"]])

    def ver(self, t):
        return tuple(t.get("ver", (1, 0)))

    def type_names(self):
        """full name -> {(major, minor): index}; a service also names its request and response types"""
        res = {}
        for i, t in enumerate(self.case["types"]):
            names = [self.full(t)] + ([self.full(t) + ".Request", self.full(t) + ".Response"] if t["kind"] == "service" else [])
            for n in names:
                res.setdefault(n, {})[self.ver(t)] = i
        return res

    def roots(self):
        return sorted({t["ns"][0] for t in self.case["types"]} | {d["ns"][0] for d in self.case.get("nsdocs", [])})

    def content(self, i):
        """generous upper bound of the serialized size in bytes (so that every @extent is legal)"""
        T = self.case["types"]
        n = 32
        for r in T[i].get("refs", []):
            j = r["to"]
            outer = self.extent(j) + 4 if T[j]["kind"] == "delimited" else self.content(j)
            n += {"plain": 1, "farr": 2, "varr": 3}[r["how"]] * outer + 2
        return n

    def extent(self, i):
        return self.content(i) + 64

    def dsdl_text(self, i):
        T = self.case["types"]
        t = T[i]
        lines = []
        if t.get("doc"):
            lines.append(doc_lines(self.span(t["doc"])))
        if t.get("deprecated"):
            lines.append("@deprecated\n")

        def section(where, first):
            out = []
            tag = "q" if where == "field" else "p"
            if t["kind"] == "union":
                out.append("@union\n")
            k = 0
            for r in t.get("refs", []):
                if r.get("where", "field") != where:
                    continue
                k += 1
                ref = "%s.%d.%d" % ((self.full(T[r["to"]]),) + self.ver(T[r["to"]]))
                ref += {"plain": "", "farr": "[2]", "varr": "[<=3]"}[r["how"]]
                out.append("%s zqf%d%s%d\n" % (ref, i, tag, k))
            fd = self.span(t.get("fdoc", 0)) if first else ""
            out.append("uint8 zqf%d%sa%s\n" % (i, tag, ("  # " + fd) if fd else ""))
            if t["kind"] == "union":
                out.append("uint16[<=2] zqf%d%sb\n" % (i, tag))
            if first:
                cd = self.span(t.get("cdoc", 0))
                out.append("uint8 ZQK%d = %s%s\n" % (i, t.get("cval", "'<'"), ("  # " + cd) if cd else ""))
            out.append("@extent %d * 8\n" % self.extent(i) if t["kind"] == "delimited" else "@sealed\n")
            return out

        lines += section("field", True)
        if t["kind"] == "service":
            lines.append("---\n")
            lines += section("resp", False)
        return "".join(lines)

    def write(self, root):
        """writes <root>/dsdl/<rootns>/..., returns the list of root namespace directories"""
        for i, t in enumerate(self.case["types"]):
            d = root.joinpath("dsdl", *t["ns"])
            d.mkdir(parents=True, exist_ok=True)
            (d / ("%s.%d.%d.dsdl" % ((t["name"],) + self.ver(t)))).write_text(self.dsdl_text(i), encoding="utf-8")
        for nd in self.case.get("nsdocs", []):
            d = root.joinpath("dsdl", *nd["ns"])
            d.mkdir(parents=True, exist_ok=True)
            (d / "_.1.0.dsdl").write_text(doc_lines(self.span(nd["doc"])) + "@sealed\n", encoding="utf-8")
        return [root / "dsdl" / r for r in self.roots()]


_LCTX = {}


def cfg_of(config):
    """(stem override | None, extension override | None, through the command line?) of a run configuration"""
    config = config or {}
    return config.get("stem") or None, config.get("ext") or None, bool(config.get("cli"))


def nspage_of(config):
    """the file name the generator is configured to give a namespace page"""
    stem, ext, _ = cfg_of(config)
    return (stem or "index") + (ext or ".html")


def cfg_class(config):
    stem, ext, _ = cfg_of(config)
    return "+".join((["stem"] if stem not in (None, "index") else []) + (["extension"] if ext not in (None, ".html") else [])) or "default"


def language_context(stem, ext):
    from nunavut.lang import LanguageContextBuilder, Language

    if (stem, ext) not in _LCTX:
        b = LanguageContextBuilder(include_experimental_languages=True).set_target_language("html")
        if ext is not None:
            b.set_target_language_extension(ext)
        if stem is not None:
            b.set_target_language_configuration_override(Language.WKCV_NAMESPACE_FILE_STEM, stem)
        _LCTX[(stem, ext)] = b.create()
    return _LCTX[(stem, ext)]


def generate(case, root, public=False, config=None):
    """run the real html generator over every root namespace of the universe into ONE output directory, under the run configuration
    config = {"stem": namespace file stem override, "ext": output extension override, "cli": through `python -m nunavut`}.
    Returns (universe, {relative posix path: page text})."""
    import subprocess
    import pydsdl
    import nunavut
    from nunavut.jinja import DSDLCodeGenerator

    stem, ext, cli = cfg_of(config)

    uni = Universe(case)
    root = pathlib.Path(root)
    if root.exists():
        shutil.rmtree(root)
    try:
        roots = uni.write(root)
        out = root / "out"
        for r in roots:
            others = [str(x) for x in roots if x != r]
            if cli:
                cmd = [sys.executable, "-m", "nunavut", "--target-language", "html", "--experimental-languages", "-O", str(out)]
                for o in others:
                    cmd += ["-I", o]
                cmd += (["--namespace-output-stem", stem] if stem is not None else []) + (["--output-extension", ext] if ext is not None else [])
                p = subprocess.run(cmd + [str(r)], stdout=subprocess.PIPE, stderr=subprocess.STDOUT, text=True, timeout=600, env=dict(os.environ))
                if p.returncode:
                    raise RuntimeError("python -m nunavut exited with %d: %s" % (p.returncode, p.stdout.strip()[-300:]))
            elif public and stem is None and ext is None:  # generate_types has no parameter for either override
                nunavut.generate_types("html", r, out, lookup_directories=others, include_experimental_languages=True)
            else:
                types = pydsdl.read_namespace(str(r), others)
                ns = nunavut.build_namespace_tree(types, str(r), str(out), language_context(stem, ext))
                DSDLCodeGenerator(ns).generate_all(False)
        pages = {}
        for p in sorted(out.rglob("*")):
            if p.is_file():
                with open(p, "r", encoding="utf-8", newline="") as f:
                    pages[p.relative_to(out).as_posix()] = f.read()
    finally:
        shutil.rmtree(root, ignore_errors=True)
    return uni, pages


def plain(ps):
    return "".join(to_s(p["s"]) for p in ps if p["m"] == 0)


def events_of_run(pages, uni, run_id, pg0):
    """the trace of one run: run header, per page doc / token events / enddoc, endrun.
    Returns (events, {pg: path}, harness-side observations that are NOT verdicts: links, span contexts, notes)"""
    names = uni.type_names()
    nsp = max(uni.spans) if uni.spans else 0
    exp = [cps(uni.spans.get(i, "")) for i in range(1, nsp + 1)]
    ev = [{"k": "run", "run": run_id, "exp": exp, "nt": len(uni.case["types"])}]
    index, links, spans_seen, amb = {}, [], {}, set()
    for j, (path, text) in enumerate(pages.items()):
        pg = pg0 + j + 1
        index[pg] = path
        ev.append({"k": "doc", "pg": pg, "path": [cps(s) for s in path.split("/")]})
        tk = Tokenizer(text, names)
        cur = None
        for n, e in enumerate(tk.ev):
            e["pg"] = pg
            e["n"] = n
            e.pop("o", None)
            ev.append(e)
            # observations for vacuity / drift bookkeeping (the verdict is TLC's)
            if e["k"] == "text":
                for p in e["p"]:
                    if p["m"] == 1:
                        spans_seen.setdefault(p["i"], set()).add("raw" if e["raw"] else "text")
                if e["raw"] and e["tn"]:
                    amb.add("dsdl-name-in-raw-text-element")
                if cur is not None and not e["raw"]:
                    cur[1].update(e["refs"])
            elif e["k"] == "comment" and e["tn"]:
                amb.add("dsdl-name-in-comment")
            elif e["k"] == "open":
                for a in e["a"]:
                    for p in a["v"]:
                        if p["m"] == 1:
                            spans_seen.setdefault(p["i"], set()).add("attr")
                if to_s(e["t"]) == "a":
                    h = [a for a in e["a"] if to_s(a["n"]) == "href" and a["hv"]]
                    cur = [plain(h[0]["v"]) if h else None, set()]
            elif e["k"] == "close" and to_s(e["t"]) == "a" and cur is not None:
                if cur[0] is not None and cur[1]:
                    links.append((path, cur[0]))
                cur = None
        ev.append({"k": "enddoc", "pg": pg})
    ev.append({"k": "endrun", "run": run_id})
    return ev, index, {"links": sorted(set(links)), "spans_seen": {k: sorted(v) for k, v in spans_seen.items()}, "amb": sorted(amb)}


def work(job):
    """one generator run in a worker process: generate, tokenise, write the ndjson trace of the run"""
    run_id, case, public, scratch = job[:4]
    config = job[4] if len(job) > 4 else None
    res = {"run": run_id, "error": None, "nspage": nspage_of(config)}
    try:
        uni, pages = generate(case, os.path.join(scratch, "g%d-%d" % (os.getpid(), run_id)), public, config)
    except Exception as ex:  # the generator (or PyDSDL) refused the input
        res["error"] = "%s: %s" % (type(ex).__name__, str(ex)[:300])
        return res
    ev, index, obs = events_of_run(pages, uni, run_id, run_id * 1000)
    path = os.path.join(scratch, "run%06d.ndjson" % run_id)
    with open(path, "w") as f:
        for e in ev:
            f.write(json.dumps(e, separators=(",", ":")) + "\n")
    res.update(trace=path, nev=len(ev), index=index, obs=obs, sizes={p: len(t) for p, t in pages.items()}, slot=uni.slot)
    return res


# ------------------------------------------------------------------------------------------------------------------
# judging (code -> spec): TLC / HtmlDocTrace over whole runs
# ------------------------------------------------------------------------------------------------------------------
def judge(ctx, results, per_batch=None):
    """results: outputs of work().  Returns {run_id: [records printed by the T-layer]} (REJECT and NOTE records)."""
    good = [r for r in results if not r["error"]]
    if not good:
        return {}, {}
    per_batch = per_batch or max(1, min(40, -(-len(good) // NCPU)))
    tdir = ctx.scratch / ("tr%d" % len(list(ctx.scratch.glob("tr*"))))
    tdir.mkdir()
    cfg = tlc.write_cfg(tdir / "t.cfg", constants={"MaxLen": 0})
    jobs = []
    for bi in range(0, len(good), per_batch):
        p = tdir / ("b%05d.ndjson" % (bi // per_batch))
        n = 0
        with open(p, "wb") as f:
            for r in good[bi:bi + per_batch]:
                with open(r["trace"], "rb") as g:
                    shutil.copyfileobj(g, f)
                n += r["nev"]
        jobs.append((p, n))

    def one(job):
        p, n = job
        return tlc.run_tlc(tlc.SPECS / "HtmlDocTrace.tla", cfg, ctx.scratch, workers=1, timeout=3000, env={"TRACE_FILE": str(p)}, xmx="3g"), n, p

    out, judged = {}, {}
    with concurrent.futures.ThreadPoolExecutor(max_workers=NCPU) as ex:
        for res, n, p in ex.map(one, jobs):
            if not res.ok or res.distinct != n + 1:
                raise MachineryFailure("trace validation HtmlDocTrace failed on %s: %s %s (%d states for %d events)\n%s"
                                       % (p.name, res.error, res.violated, res.distinct, n, res.out[-3000:]))
            ctx.cov["states"] += res.distinct
            ctx.cov["transitions"] += res.generated
            for rec in res.json_lines():
                if rec["tag"] == "LINKS":
                    judged[rec["run"]] = rec["judged"]
                    continue
                out.setdefault(rec["run"] if "run" in rec else (rec["pg"] // 1000 if rec["pg"] else -1), []).append(rec)
    shutil.rmtree(tdir, ignore_errors=True)
    if -1 in out:
        raise MachineryFailure("T-layer record without a page: %r" % out[-1][:3])
    return out, judged


def page_kind(path, nspage="index.html"):
    """nspage: the name this run gives a namespace page"""
    depth = path.count("/")
    if path.endswith("/" + nspage):
        return "root-namespace-page" if depth == 1 else "nested-namespace-page"
    return "type-page"


def load_events(res, pg):
    evs = []
    with open(res["trace"]) as f:
        for ln in f:
            if '"pg":%d,' % pg in ln or '"pg":%d}' % pg in ln:
                evs.append(json.loads(ln))
    return {e["n"]: e for e in evs if "n" in e}


def sentinel_class(res, rec, cache):
    """structural class of a sentinel rejection = the kind of position into which the template put the DSDL text.  Rejections that
    refer to a span already open in character data (markup-in-span, span-not-closed, close-without-open, malformed markup after the
    opening mark) are markup injection through character data; for the others the rejected token itself carries the OPENING mark in a
    position where no DSDL text may be (attribute value it breaks out of, tag/attribute name, comment, raw text element)."""
    d = rec["detail"]
    if d in ("markup-in-span", "span-not-closed", "close-without-open") or (d == "malformed-markup-in-span" and rec.get("arg")):
        return "doc-comment-markup-injection"
    if rec["pg"] not in cache:
        cache[rec["pg"]] = load_events(res, rec["pg"])
    e = cache[rec["pg"]].get(rec["n"], {}) if rec["k"] != "enddoc" else {}
    k = e.get("k")
    if k == "open" and any(p["m"] == 1 for a in e["a"] for p in a["v"]):
        return "doc-comment-attribute-breakout"
    if k in ("open", "close") and e.get("tainto"):
        return "doc-comment-in-tag-or-attribute-name"
    if k in ("open", "close") and e.get("taint") and not sum(nmarks(n) for n in [to_s(e["t"])] + [to_s(a["n"]) for a in e.get("a", [])]):
        return "dsdl-name-in-tag-or-attribute-name"
    if k == "comment" and e.get("tmo"):
        return "doc-comment-in-comment"
    if k == "text" and e["raw"] and any(p["m"] == 1 for p in e["p"]):
        return "doc-comment-in-raw-text-element"
    return "doc-comment-markup-injection"


def verdicts(ctx, results, cases, origin, only=None):
    """turn the T-layer's records into VIOLATION / notes.  Returns per run the set of (clause, page, detail...) for drift checks."""
    recs, judged = judge(ctx, results)
    summary = {}
    for r in results:
        if r["error"]:
            continue
        rid = r["run"]
        case = cases[rid]
        rr = recs.get(rid, [])
        pages_rej = {}
        for rec in rr:
            if rec["tag"] == "REJECT" and rec["clause"] != "html.link":
                pages_rej.setdefault(rec["pg"], []).append(rec)
        cache = {}
        summ = {"sentinel": set(), "balanced": set(), "links": set(), "fidelity": set()}
        uni = Universe(case["universe"])
        config = case.get("config") or {}
        nsp = r["nspage"]
        replay_case = {"universe": case["universe"], "public": case.get("public", False), "config": config, "origin": origin}
        damaged = set()

        def pkind(path):
            return page_kind(path, nsp)

        def report(sig, what, **kw):
            if only is None or sig == only:  # a replay asks about the recorded failure, not about every other clause of that universe
                ctx.violation(sig, what, dict(replay_case, signature=sig, **kw))

        # per page: the FIRST sentinel rejection (token order) names the class; everything after it on that page is a consequence of
        # the markup the payload introduced (the page is read differently from there on) and is counted, not reported again
        for pg, lst in pages_rej.items():
            path = r["index"][pg]
            lst.sort(key=lambda x: (x["k"] == "enddoc", x["n"]))
            first = next((i for i, x in enumerate(lst) if x["clause"] == "html.sentinel"), None)
            for i, rec in enumerate(lst):
                cl = rec["clause"]
                if first is not None and i > first:
                    summ["sentinel" if cl == "html.sentinel" else "balanced"].add(path)
                    ctx.cov["folded_into_first_sentinel_rejection_of_page"] = ctx.cov.get("folded_into_first_sentinel_rejection_of_page", 0) + 1
                    continue
                if cl == "html.sentinel":
                    klass = sentinel_class(r, rec, cache)
                    summ["sentinel"].add(path)
                    damaged.add(path)
                    sid = rec.get("arg") or 0
                    report("C20|html.sentinel|%s" % klass,
                           "page %s (%s): %s%s - text taken from a DSDL definition reaches the page as markup, not as character data"
                           % (path, pkind(path), rec["detail"], (" span %d (%s) payload %r" % (sid, uni.slot.get(sid), uni.spans.get(sid))) if sid else ""),
                           page=path, clause=cl, detail=rec["detail"], event=rec["n"])
                elif cl == "html.balanced":
                    summ["balanced"].add(path)
                    report("C20|html.balanced|%s|%s" % (rec["detail"], pkind(path)),
                           "page %s is not well-formed: %s at token %d" % (path, rec["detail"], rec["n"]),
                           page=path, clause=cl, detail=rec["detail"], event=rec["n"])
                else:
                    raise MachineryFailure("unknown clause from the T-layer: %r" % rec)
        T = case["universe"]["types"]

        def tname(i):
            return "%s.%d.%d" % ((uni.full(T[i]),) + uni.ver(T[i]))

        for rec in rr:
            if rec["tag"] == "REJECT" and rec.get("detail") in ("type-without-resolving-link", "anchor-shared-by-types"):
                summ["links"].add(("", rec["detail"], rec["detail"]))
                if damaged:  # pages re-read by injected markup do not show what the generator listed
                    ctx.cov["run_level_rejections_folded_pages_damaged_by_injection"] = ctx.cov.get("run_level_rejections_folded_pages_damaged_by_injection", 0) + 1
                elif rec["detail"] == "type-without-resolving-link":
                    i = rec["type"]
                    others = [j for j in range(len(T)) if j != i and uni.full(T[j]) == uni.full(T[i])]
                    report("C20|html.link|type-without-resolving-link|%s" % ("one-of-several-versions" if others else T[i]["kind"]),
                           "type %s of the input is named by no hyperlink that resolves: it is not listed with an anchor on any page%s"
                           % (tname(i), (" (other versions of the same name: %s)" % ", ".join(tname(j) for j in others)) if others else ""),
                           clause="html.link", detail=rec["detail"], type=tname(i))
                else:
                    report("C20|html.link|anchor-shared-by-types",
                           "hyperlinks for the different types %s lead to the same anchor %s#%s"
                           % (", ".join(tname(i) for i in rec["types"]), "/".join(seg(rec["to"])), to_s(rec["frag"])),
                           clause="html.link", detail=rec["detail"])
                continue
            path = r["index"][rec["pg"]]
            if rec["tag"] == "NOTE":
                summ["fidelity"].add((path, rec["arg"]))
                ctx.cov["text_fidelity_notes"] = ctx.cov.get("text_fidelity_notes", 0) + 1
                if ctx.cov["text_fidelity_notes"] <= 3:
                    ctx.ambiguous("text between the sentinels of span %d on %s differs from the DSDL text (character reference decoded): "
                                  "'appears as text' read as 'is character data' holds, read as 'same characters' does not; payload %r"
                                  % (rec["arg"], path, uni.spans.get(rec["arg"])))
            elif rec["clause"] == "html.link":
                href = to_s(rec["href"])
                summ["links"].add((path, href, rec["detail"]))
                target = "/".join(seg(rec["to"]))
                if (rec["detail"] == "anchor-not-produced" and target in damaged) or (rec["inspan"] and path in damaged):
                    # the target page is cut short / re-read by injected markup: its anchors are not reliable; or the <a> itself sits
                    # behind injected markup on its own page (possibly introduced by the payload)
                    ctx.cov["link_rejections_folded_target_page_damaged_by_injection"] = ctx.cov.get("link_rejections_folded_target_page_damaged_by_injection", 0) + 1
                    continue
                tk = sorted({T[i]["kind"] for i in rec["refs"]})
                # the directory the url leads to (P put index.html behind a directory url: rec["dir"])
                tdir = target[:-len("index.html")].rstrip("/") if rec.get("dir") else target
                why = ""
                if rec["detail"] == "page-not-produced" and nsp != "index.html" and (tdir + "/" + nsp).lstrip("/") in r["sizes"]:
                    # the url leads to the directory of a namespace whose page this run produced under the configured name: the
                    # generator links to the namespace's DIRECTORY, which denotes index.html whatever the namespace page is called
                    sig = "C20|html.link|namespace-page-not-index|%s" % cfg_class(config)
                    why = (": the url denotes %s (a directory url denotes its index.html); this run (namespace file stem %r, output extension %r)"
                           " names the page of that namespace %s/%s and produces no index.html"
                           % (target, config.get("stem") or "index", config.get("ext") or ".html", tdir, nsp))
                elif rec["detail"] == "page-not-produced" and pkind(path) == "nested-namespace-page" and href.startswith("../"):
                    sig = "C20|html.link|nested-namespace-page-relative-root"
                elif rec["detail"] == "anchor-not-produced" and tk == ["service"] and re.search(r"_(Request|Response)_\d+_\d+$", href):
                    sig = "C20|html.link|service-request-response-anchor"
                else:
                    sig = "C20|html.link|%s|%s|%s" % (pkind(path), rec["detail"], "+".join(tk))
                report(sig, "hyperlink %r for a reference to %s on page %s does not resolve: %s%s"
                       % (href, ", ".join(tname(i) for i in rec["refs"]), path, rec["detail"], why),
                       page=path, clause="html.link", detail=rec["detail"], href=href)
        # every type-reference hyperlink the harness saw on the pages was put before the link clause of P, whatever its style
        # (asserted on runs whose pages are read as the generator wrote them, i.e. without injected markup)
        if not pages_rej and judged.get(rid) != len(r["obs"]["links"]):
            raise MachineryFailure("run %d: the T-layer judged %r type-reference hyperlinks, the pages carry %d"
                                   % (rid, judged.get(rid), len(r["obs"]["links"])))
        ctx.cov["links_judged_by_P"] = ctx.cov.get("links_judged_by_P", 0) + (judged.get(rid) or 0)
        npages = len(r["index"])
        bad_pages = len(set(pages_rej) | {rec["pg"] for rec in rr if rec["tag"] == "REJECT"})
        ctx.validated(npages - bad_pages)
        ctx.count(npages)
        summary[rid] = summ
    return summary


# ------------------------------------------------------------------------------------------------------------------
# stimuli
# ------------------------------------------------------------------------------------------------------------------
def seg(x):
    return [to_s(s) for s in x]


def universe_from_shape(sh, payloads, k):
    """the DSDL universe for a type-graph shape emitted by HtmlDocGen (LinkStims), docs filled with payloads k, k+1, ...
    Namespace and type names are the model's (they include names that are string prefixes of each other without being ancestors)."""
    skind = {"service_req": "service", "service_resp": "service"}.get(sh["skind"], sh["skind"])
    dep = sh["dkind"] == "deprecated"
    dkind = "struct" if dep else sh["dkind"]
    n1, n2, n3 = seg(sh["names"])
    spans = {i + 1: payloads[(k + i) % len(payloads)] for i in range(5)}
    where = "resp" if sh["skind"] == "service_resp" else "field"
    # the target exists in several versions under one short name (same body, so minor versions stay bit-compatible); indices as in the model
    types = [{"ns": seg(sh["dst"]), "name": n1, "ver": list(v), "kind": dkind, "deprecated": dep, "refs": [],
              "doc": 1 if j == 0 else 0, "fdoc": 2 if j == 0 else 0, "cdoc": 3 if j == 0 else 0, "cval": CVALS[(k + j) % len(CVALS)]}
             for j, v in enumerate(sh["versions"])]
    nv = len(types)
    types.append({"ns": seg(sh["src"]), "name": n2, "kind": skind, "deprecated": dep,
                  "refs": [{"to": j, "how": sh["how"] if n == k % len(sh["used"]) else "plain", "where": where}
                           for n, j in enumerate(sorted(sh["used"]))], "doc": 4,
                  "cval": CVALS[(k + 3) % len(CVALS)]})
    if sh["chain"]:
        types.append({"ns": ["zqra", "zqs"], "name": n3, "kind": "struct", "deprecated": dep, "refs": [{"to": nv, "how": "plain"}]})
    return {"types": types, "nsdocs": [{"ns": seg(sh["src"]), "doc": 5}], "spans": spans}


RAND_TOKENS = ["<", ">", "&", '"', "'", "</pre>", "<script>alert(1)</script>", "-->", "{{", "}}", "{%", "%}", "{#", "<!--", "]]>", "<?",
               "</div>", "<div>", "<p>", "</p>", '<a href="x">', "<img src=x onerror=alert(1)>", "<style>", "</style>", "<script>", "</script>",
               "&amp;", "&lt;", "&#60;", "&lt", "\\", "é", "€", "\U0001F600", " ", "\t", " ", "x", "=", "/", "`",
               "<svg/onload=alert(1)>", "<textarea>", "<title>", "</title>", "<b", "</", "<br>", "<br/>", "javascript:alert(1)", "\n"]
NS_SEGS = ["zqs", "zqsx", "zqu", "zquv", "zqv"]  # some are string prefixes of others


def id_neighbour_universe():
    """one name in versions whose tag ids are digit-concatenation neighbours (<name>_1_1 + "0" = <name>_1_10, + "1" = <name>_1_11,
    <name>_1_2 + "0" = <name>_1_20, <name>_2_1 + "0" = <name>_2_10; 21.0 is the neighbour that must NOT collide), and a type that
    sorts before it and nests the lower versions (1.1 twice): a nested block whose id is the tag id plus a counter takes the id of
    the entry of another version.  P decides (html.balanced duplicate-id: an id occurs once per page)."""
    vers = [[1, 1], [1, 10], [1, 11], [1, 2], [1, 20], [2, 1], [2, 10], [21, 0]]
    types = [{"ns": ["zqra"], "name": "ZqxT", "ver": v, "kind": "struct", "deprecated": False, "refs": [], "doc": 0, "cval": "60"} for v in vers]
    types.append({"ns": ["zqra"], "name": "ZqaN", "kind": "struct", "deprecated": False, "doc": 0, "cval": "60",
                  "refs": [{"to": vers.index(v), "how": how, "where": "field"}
                           for v, how in (([1, 1], "plain"), ([1, 1], "plain"), ([1, 2], "plain"), ([2, 1], "plain"), ([1, 1], "varr"))]})
    return {"types": types, "nsdocs": [], "spans": {}}


def rand_universe(rng):
    nroots = rng.choice([1, 2, 2, 3])
    roots = rng.sample(["zqra", "zqrax", "zqrb"], nroots)  # zqra is a string prefix of zqrax
    nss = [[r] for r in roots]
    for _ in range(rng.randint(1, 5)):
        base = rng.choice(nss)
        if len(base) < 4:
            n = base + [rng.choice(NS_SEGS)]
            if n not in nss:
                nss.append(n)
    nt = rng.randint(3, 8)
    spans, types = {}, []

    def payload(multiline):
        toks = rng.choices(RAND_TOKENS, k=rng.choice([0, 1, 1, 2, 3, 4, 6]))
        s = "".join(toks)
        if not multiline:
            s = s.replace("\n", " ")
        s = "\n".join(ln.rstrip() if i + 1 < s.count("\n") + 1 else ln for i, ln in enumerate(s.split("\n")))
        spans[len(spans) + 1] = s
        return len(spans)

    for i in range(nt):
        kind = rng.choice(["struct", "struct", "delimited", "union", "service"])
        # a third of the short names extend the name of a namespace segment (zqsZqt3 next to namespace zqs)
        name = ("%sZqt%d" % (rng.choice(NS_SEGS), i)) if rng.random() < 0.34 else "Zqt%d" % i
        t = {"ns": rng.choice(nss), "name": name, "kind": kind, "deprecated": rng.random() < 0.15, "refs": [],
             "doc": payload(True) if rng.random() < 0.8 else 0, "fdoc": payload(False) if rng.random() < 0.5 else 0,
             "cdoc": payload(False) if rng.random() < 0.3 else 0, "cval": rng.choice(CVALS)}
        cands = [j for j in range(len(types)) if types[j]["kind"] != "service"]
        for j in rng.sample(cands, min(len(cands), rng.choice([0, 1, 1, 2, 3]))):
            t["refs"].append({"to": j, "how": rng.choice(["plain", "plain", "farr", "varr"]),
                              "where": rng.choice(["field", "resp"]) if kind == "service" else "field"})
            if types[j]["deprecated"]:
                t["deprecated"] = True
        types.append(t)
        # sometimes the same short name again in the same namespace with other versions (same body: bit-compatible)
        if kind != "service" and rng.random() < 0.3 and len(types) < 10:
            for v in rng.sample([[1, 1], [2, 0], [1, 2], [0, 1]], rng.choice([1, 2])):
                types.append(dict(t, ver=v, doc=payload(True) if rng.random() < 0.5 else 0, fdoc=0, cdoc=0, refs=[dict(x) for x in t["refs"]]))
    nsdocs = [{"ns": n, "doc": payload(True)} for n in nss if rng.random() < 0.4 and any(t["ns"][:len(n)] == n for t in types)]
    return {"types": types, "nsdocs": nsdocs, "spans": spans}


# ------------------------------------------------------------------------------------------------------------------
# driver
# ------------------------------------------------------------------------------------------------------------------
def run_jobs(ctx, jobs):
    import multiprocessing

    if not jobs:
        return []
    with concurrent.futures.ProcessPoolExecutor(max_workers=NCPU, mp_context=multiprocessing.get_context("fork")) as ex:
        return list(ex.map(work, jobs, chunksize=max(1, min(8, len(jobs) // (NCPU * 4) or 1))))


def py_resolve(frm, href):
    """urllib's RFC 3986 resolution, used only to cross-check the TLA+ operator Resolve (never as the oracle)"""
    import urllib.parse

    u = urllib.parse.urlparse(urllib.parse.urljoin("http://h/" + frm, href))
    p = u.path[1:]
    return p, u.fragment


STYLES = ("code", "fixed", "page")


def check_vocab(vocab):
    if sorted(to_s(x) for x in vocab["void"]) != sorted(VOID) or sorted(to_s(x) for x in vocab["raw"]) != sorted(RAWTEXT):
        raise MachineryFailure("HtmlDoc!VoidTags / RawTags differ from the harness vocabulary")


def compact_shape(sh):
    """one emitted shape record: cross-check every Resolve() result with urllib's RFC 3986 resolution (the directory convention
    'index.html and nothing else' spelled out here a second time), then keep pages / links / broken links per link style as strings.
    Returns the number of Resolve() results checked."""
    pages = {"/".join(seg(p)) for p in sh["pages"]}
    n = 0
    for st in STYLES:
        links = set()
        for r in sh.pop("resolved_" + st):
            frm, href = "/".join(seg(r["from"])), to_s(r["href"])
            links.add((frm, href))
            if not r["ok"]:
                continue
            p, frag = py_resolve(frm, href)
            isdir = p == "" or p.endswith("/") or (p not in pages and p + "/index.html" in pages)
            if isdir:
                p = (p.rstrip("/") + "/index.html").lstrip("/")
            if p != "/".join(seg(r["page"])) or frag != to_s(r["frag"]) or isdir != r["dir"]:
                raise MachineryFailure("HtmlDoc!Resolve(%r, %r) = %r#%r (directory: %r) but RFC 3986 resolution gives %r#%r (directory: %r)"
                                       % (frm, href, "/".join(seg(r["page"])), to_s(r["frag"]), r["dir"], p, frag, isdir))
            n += 1
        sh["links_" + st] = links
        sh["broken_" + st] = {("/".join(seg(x["from"])), to_s(x["href"])) for x in sh["broken_" + st]}
    sh["pages"] = pages
    for k in ("stem", "ext", "index_page"):
        sh[k] = to_s(sh[k])
    return n


def emitted_records(res):
    """the JSON records of an emission run, one at a time (a thorough emission is some hundred MB of text)"""
    for ln in res.out.splitlines():
        if ln.startswith('"{'):
            try:
                yield json.loads(json.loads(ln))
            except ValueError:
                raise MachineryFailure("cannot parse TLC output line: %r" % ln[:200])


def run(ctx):
    import time

    t0 = time.time()

    def lap(what):
        ctx.cov.setdefault("phase_wall_s", {})[what] = round(time.time() - t0, 1)

    # ---- 1. the bounded models (independent TLC runs, started together) ----------------------------------------------------
    S = tlc.SPECS
    plan = [  # (key, module, cfg, workers)
        ("sanity", "HtmlDoc", ctx.pick("HtmlDoc", "HtmlDoc_6"), max(2, NCPU // 2)),
        ("vacuity", "HtmlDoc", "HtmlDoc_neg", 2),
        ("refine", "HtmlDocGen", "HtmlDocGen", 2),
        ("refine_stem", "HtmlDocGen", "HtmlDocGen_cfgstem", 1),  # the link part of the refinement under the other run configurations
        ("refine_ext", "HtmlDocGen", "HtmlDocGen_cfgext", 1),
        ("refine_both", "HtmlDocGen", "HtmlDocGen_cfgboth", 1),
        ("dirurl", "HtmlDocGen", "HtmlDocGen_dirurl", 2),
        ("samepage", "HtmlDocGen", "HtmlDocGen_samepage", 2),
        ("negtext", "HtmlDocGen", "HtmlDocGen_negtext", 1),
        ("neglinks", "HtmlDocGen", "HtmlDocGen_neglinks", 1),
        ("negprefix", "HtmlDocGen", "HtmlDocGen_negprefix", 1),
        ("negbyname", "HtmlDocGen", "HtmlDocGen_negbyname", 1),
        ("negstem", "HtmlDocGen", "HtmlDocGen_negstem", 1),
        # 2. spec -> code: stimuli + predictions (quick: every shape under the default configuration + the sample under the others;
        # thorough: every shape under every configuration, one emission run per configuration)
        ("emit", "HtmlDocGen", ctx.pick("HtmlDocGen_emitq", "HtmlDocGen_emit"), 1),
    ] + ctx.pick([], [("emit_" + c, "HtmlDocGen", "HtmlDocGen_emit_" + c, 1) for c in ("stem", "ext", "both")])
    with concurrent.futures.ThreadPoolExecutor(max_workers=len(plan)) as ex:
        futs = {k: ex.submit(tlc.run_tlc, S / (m + ".tla"), S / (c + ".cfg"), ctx.scratch, workers=w, timeout=3000) for k, m, c, w in plan}
        R = {k: f.result() for k, f in futs.items()}
    consts = {
        "sanity": "all token strings <= %d over 14 tokens (p,/p,pre,/pre,br,text,span,span-open,span-close,script,/script,raw+mark,comment,"
                  "comment+mark)" % ctx.pick(5, 6),
        "refine": "EscMode=markupsafe LinkStyle=page (the url names the namespace page): 820 payloads (<=3 of 9 special tokens) x {pre, attribute} "
                  "+ 3456 type-graph shapes over 6 namespaces incl. string-prefix-related names, default run configuration (namespace page "
                  "index.html)",
        "refine_stem": "LinkStyle=page, stem override (namespace page page.html): 3456 shapes",
        "refine_ext": "LinkStyle=page, extension override (namespace page index.htm, type pages *.htm): 3456 shapes",
        "refine_both": "LinkStyle=page, both overrides (namespace page page.htm): 3456 shapes",
        "dirurl": "LinkStyle=fixed (directory url of the root namespace) under the default configuration (namespace page index.html): 3456 shapes",
        "samepage": "LinkStyle=samepage (bare #anchor for types listed on the page, decided on name components): 3456 shapes",
        "emit": "emission of stimuli + predictions",
        "emit_stem": "emission, stem override", "emit_ext": "emission, extension override", "emit_both": "emission, both overrides",
    }
    for k, m, c, w in plan:
        if k in consts:
            if not R[k].ok:
                raise MachineryFailure("model %s/%s did not pass: %s %s\n%s" % (m, c, R[k].error, R[k].violated, R[k].out[-3000:]))
            R[k].constants = consts[k]
            ctx.add_model(R[k], c + ".cfg")
    if R["vacuity"].violated != "NoSpanEverAccepted":
        raise MachineryFailure("vacuity control: no token string with a sentinel span is accepted by the acceptor (%s)" % R["vacuity"].error)
    controls = {}
    for k, inv in (("negtext", "TextRefinesP"), ("neglinks", "LinksRefineP"), ("negprefix", "LinksRefineP"), ("negbyname", "LinksRefineP"),
                   ("negstem", "LinksRefineP")):  # negstem: directory urls while the namespace page is not called index.html
        if R[k].violated != inv:
            raise MachineryFailure("negative control %s: the defective variant was not refuted (%s %s)" % (k, R[k].error, R[k].violated))
        controls["HtmlDocGen_" + k] = "refuted by %s" % inv
    ctx.cov["model_negative_controls"] = controls
    lap("models+emission")
    vocab, texts, shapes, cshapes, nres = [], [], [], [], 0
    for k in [k for k, _, _, _ in plan if k.startswith("emit")]:
        for rec in emitted_records(R[k]):
            if rec["kind"] == "vocab":
                vocab.append(rec)
            elif rec["kind"] == "text":
                texts.append(rec)
            else:
                nres += compact_shape(rec)
                (shapes if rec["cfg"] == "default" else cshapes).append(rec)
        R[k].out = ""
    if len(texts) != 820 or len(shapes) < 2160 or not vocab:
        raise MachineryFailure("emission incomplete: %d payloads, %d shapes" % (len(texts), len(shapes)))
    check_vocab(vocab[0])
    ctx.cov["oracle_crosscheck"] = "%d Resolve() results equal urllib's RFC 3986 resolution" % nres
    per_cfg = {c: sum(1 for r in cshapes if r["cfg"] == c) for c in ("stem", "ext", "both")}
    if set(per_cfg.values()) != {ctx.pick(36, len(shapes))}:
        raise MachineryFailure("emission incomplete: shapes per non-default configuration %r" % per_cfg)
    payloads = [to_s(t["text"]) for t in texts]
    # quick: one sixth of the shapes - in canonical order (target kind, array kind) vary fastest (12 combinations per
    # (referrer namespace, target namespace, referrer kind)); the selection takes two of the twelve and rotates them, so every ordered
    # pair of namespaces (incl. the prefix-related ones, both directions) is generated with every referrer kind
    shapes.sort(key=lambda r: (r["src"], r["dst"], r["skind"], r["chain"], r["dkind"], r["how"]))
    nochain = sum(1 for r in shapes if not r["chain"])
    if nochain % 12 or any(r["chain"] for r in shapes if ctx.quick):
        raise MachineryFailure("unexpected shape space: %d shapes" % len(shapes))
    cases, jobs = {}, []
    scratch = str(ctx.scratch)
    hostile = 0
    for i, sh in enumerate(shapes):
        if ctx.quick and (i % 12 - i // 12) % 6:
            continue
        rid = len(cases)
        public = rid % ctx.pick(16, 8) == 5
        # every 4th shape run carries plain text only, so that balance and links are also judged on pages no payload can disturb;
        # the others take the next 5 payloads of TLC's list (every payload is planted at least once in quick, 7 times in thorough)
        if rid % 4 == 0:
            uni = universe_from_shape(sh, ["plain text %d" % k for k in range(5)], 5 * rid)
        else:
            uni = universe_from_shape(sh, payloads, 5 * hostile)
            hostile += 1
        # a few runs of the default configuration go through the command line
        config = {"cli": True} if rid % ctx.pick(180, 600) == 11 else {}
        cases[rid] = {"universe": uni, "public": public, "shape": sh, "config": config}
        jobs.append((rid, uni, public, scratch, config))
    # the configuration dimension: the shapes TLC emitted under a stem override, an extension override and both, generated with
    # exactly these overrides (the values are the model's); every 18th (thorough: 300th) through the command line
    cshapes.sort(key=lambda r: (r["cfg"], r["src"], r["dst"], r["skind"], r["chain"], r["dkind"], r["how"]))
    for k, sh in enumerate(cshapes):
        rid = len(cases)
        config = {"stem": sh["stem"] if sh["cfg"] in ("stem", "both") else None, "ext": sh["ext"] if sh["cfg"] in ("ext", "both") else None,
                  "cli": k % ctx.pick(18, 300) == 0}
        if nspage_of(config) != sh["index_page"]:
            raise MachineryFailure("configuration %r does not give the model's namespace page name %r" % (config, sh["index_page"]))
        if rid % 4 == 0:
            uni = universe_from_shape(sh, ["plain text %d" % j for j in range(5)], 5 * rid)
        else:
            uni = universe_from_shape(sh, payloads, 5 * hostile)
            hostile += 1
        cases[rid] = {"universe": uni, "public": False, "shape": sh, "config": config}
        jobs.append((rid, uni, False, scratch, config))
    if 5 * hostile < len(payloads):
        raise MachineryFailure("not every enumerated payload was planted (%d slots for %d payloads)" % (5 * hostile, len(payloads)))
    n_model = len(cases)
    # ---- 2b. fixed universe: versions whose tag ids are digit-concatenation neighbours, under the default and a non-default configuration
    for config in ({}, {"stem": "page", "ext": ".htm"}):
        rid = len(cases)
        cases[rid] = {"universe": id_neighbour_universe(), "public": False, "config": config}
        jobs.append((rid, cases[rid]["universe"], False, scratch, config))
    n_fixed = len(cases) - n_model
    # ---- 3. code -> spec: larger random universes (deeper trees, more types, payloads over a larger alphabet) ----------
    for _ in range(ctx.pick(130, 2000)):
        rid = len(cases)
        public = rid % 10 == 3
        # every third random universe under a random non-default configuration (other stems / extensions than the model's)
        config = {}
        if rid % 3 == 1:
            public = False
            config = ctx.rng.choice([{"stem": st, "ext": ex} for st in (None, "page", "main") for ex in (None, ".htm", ".xhtml") if st or ex])
        cases[rid] = {"universe": rand_universe(ctx.rng), "public": public, "config": config}
        jobs.append((rid, cases[rid]["universe"], public, scratch, config))
    results = run_jobs(ctx, jobs)
    lap("generation+tokenizing")
    errors = [r for r in results if r["error"]]
    for r in errors[:5]:
        ctx.drift("generator (or PyDSDL) raised on run %d: %s" % (r["run"], r["error"]))
    if len(errors) > len(results) // 2:
        raise MachineryFailure("most generator runs failed: %s" % errors[0]["error"])
    summary = verdicts(ctx, results, cases, "run")
    lap("trace validation")

    # ---- 4. what was exercised, and how the implementation relates to the I-layer variants ----------------------------
    by_run = {r["run"]: r for r in results if not r["error"]}
    seen_ctx, nlinks, amb = {}, 0, set()
    for r in by_run.values():
        for sid, cs in r["obs"]["spans_seen"].items():
            for c in cs:
                seen_ctx[c] = seen_ctx.get(c, 0) + 1
        nlinks += len(r["obs"]["links"])
        amb.update(r["obs"]["amb"])
    if not seen_ctx.get("text"):
        ctx.not_exercised("no sentinel span reached any page as character data: the sentinel clause was vacuous")
    if not nlinks:
        ctx.not_exercised("no type-reference hyperlink was found on any page: the link clause was vacuous")
    for a in sorted(amb):
        ctx.ambiguous("%s: DSDL names (identifiers by grammar, so they cannot introduce markup or script) are interpolated there, e.g. "
                      "document.querySelector(\"#<namespace>\") in Namespace.j2; not asserted" % a)
    ctx.cov["spans_by_context"] = seen_ctx
    ctx.cov["type_reference_links_seen"] = nlinks
    compare_with_ilayer(ctx, cases, by_run, summary, texts, n_model)
    for rid, r in by_run.items():
        c = cases[rid]
        key = "m" if rid < n_model else "r"
        for path in r["index"].values():
            ctx.distinct("%s|%s|%s|%s" % (key, cfg_class(c.get("config")), page_kind(path, r["nspage"]),
                                          sha(json.dumps(c["universe"], sort_keys=True) + path)[:10]))
    mid = by_run.get(n_model // 2) or next(iter(by_run.values()))
    u = cases[mid["run"]]["universe"]
    ctx.sample({"direction": "spec->code", "types": [{k: t[k] for k in ("ns", "name", "kind", "refs")} for t in u["types"]], "spans": u["spans"],
                "pages": mid["sizes"], "type_reference_links": mid["obs"]["links"][:6],
                "T-layer": sorted("%s %s" % x[0:2] for x in summary[mid["run"]]["links"])[:4] + sorted(summary[mid["run"]]["sentinel"])[:4]})
    if len(by_run) > n_model:
        lr = by_run[max(by_run)]
        ctx.sample({"direction": "code->spec (random universe)", "spans": cases[lr["run"]]["universe"]["spans"], "pages": lr["sizes"],
                    "type_reference_links": lr["obs"]["links"][:6]})

    # ---- 5. binding self-tests ---------------------------------------------------------------------------------------
    selftests(ctx)
    lap("selftests")

    ctx.cov["rule"] = ("spec->code: every payload TLC enumerates (820 = all sequences of <=3 of 9 special tokens) planted in type / attribute / "
                       "namespace doc comments of the type-graph shapes TLC enumerates (namespace of referrer x namespace of target x "
                       "plain/fixed array/variable array x struct/union/delimited/service request/service response x struct/union/delimited/"
                       "deprecated%s; %s), all root namespaces generated into one output directory, every 4th run with plain text only; "
                       "run configuration (name of the namespace pages): default + {namespace file stem 'page', output extension '.htm', both} "
                       "for %s, through LanguageContextBuilder overrides and, for %d runs, `python -m nunavut`; "
                       "a fixed universe with one name in the versions 1.1/1.10/1.11, 1.2/1.20, 2.1/2.10/21.0 (tag ids that are "
                       "digit-concatenation neighbours) and a type sorted before it that nests the lower ones, default and stem+extension configuration; "
                       "code->spec: %d seeded random universes (1-3 roots, nesting <=4, 3-8 types, payloads over %d tokens incl. unicode, "
                       "character references, comment/CDATA/raw-text openers); one trace per page, one TLC state per token event; "
                       "distinct = (origin, configuration class, page kind, universe+page hash)"
                       % (ctx.pick("", ", chains of three types"),
                          ctx.pick("quick: every (namespaces, kinds) combination with one of the three array kinds, rotating", "all shapes"),
                          ctx.pick("one shape per ordered pair of namespaces and configuration (kinds rotating)", "all shapes"),
                          sum(1 for c in cases.values() if cfg_of(c.get("config"))[2]),
                          len(cases) - n_model - n_fixed, len(RAND_TOKENS)))
    runs_by_cfg = {}
    for rid in by_run:
        c = cases[rid].get("config")
        k = cfg_class(c) + (" (command line)" if cfg_of(c)[2] else "")
        runs_by_cfg[k] = runs_by_cfg.get(k, 0) + 1
    ctx.cov["runs_by_configuration"] = runs_by_cfg
    ctx.cov["exhaustive"] = False
    ctx.assumptions += [
        "TLC and the HtmlDoc / HtmlDocGen / HtmlDocTrace specifications",
        "python html.parser (3.12) as the tokenizer, with bookkeeping that flags its tolerant recoveries; optional end tags are not inferred "
        "(every non-void element must be closed explicitly, which is how 'balanced' is read)",
        "a URL that denotes a directory denotes its index.html and nothing else (a web server's directory index), whatever the run was "
        "configured to call its namespace pages; '..' above the output directory is outside the produced tree",
        "a hyperlink is 'emitted for a reference to a type' when the text of the <a> element names a type of the generated universe",
        "PyDSDL restricts names to identifiers and constant values to numbers/booleans, so only doc comments can carry markup characters",
    ]
    ctx.not_exercised("hard-coded placeholder links/texts of the per-type stub pages (type_base.j2: /reg/Namespace.html, fixed port-id 417): "
                      "not type references, not DSDL text")
    ctx.not_exercised("user-supplied templates (--templates): the property is about the built-in html templates")


def compare_with_ilayer(ctx, cases, by_run, summary, texts, n_model):
    """spec -> code comparison after every run: which I-layer variant does the implementation follow?  Differences are drift, never
    verdicts (P decided above)."""
    pred = {to_s(t["text"]): (frozenset(t["pred_none"]), frozenset(t["pred_esc"])) for t in texts}
    esc_votes = {"none": 0, "markupsafe": 0, "neither": 0, "both": 0}
    link_votes = {}  # configuration class -> {link styles of the I-layer the run agrees with: number of runs}
    drift = []
    for rid in range(n_model):
        r = by_run.get(rid)
        if r is None:
            continue
        c, s = cases[rid], summary[rid]
        sh = c["shape"]
        # text: the stub page of Zqt1 carries exactly one span (its type doc, span 1) inside <pre>
        stub = "/".join(seg(sh["dst"]) + [to_s(sh["names"][0]) + "_1_0" + sh["ext"]])
        if stub in r["sizes"] and c["universe"]["spans"][1] in pred:
            obs = frozenset((["html.sentinel"] if stub in s["sentinel"] else []) + (["html.balanced"] if stub in s["balanced"] else []))
            pn, pe = pred[c["universe"]["spans"][1]]
            k = "both" if obs == pn == pe else "none" if obs == pn else "markupsafe" if obs == pe else "neither"
            esc_votes[k] += 1
            if k == "neither":
                drift.append("payload %r on %s: T-layer says %s, I-layer predicts %s (no escaping) / %s (escaping)"
                             % (c["universe"]["spans"][1], stub, sorted(obs), sorted(pn), sorted(pe)))
        # pages and links
        pages = {p for p in r["sizes"] if not p.endswith("/__1_0" + sh["ext"])}
        want = sh["pages"]
        if pages != want:
            drift.append("run %d: produced pages %s, I-layer predicts %s" % (rid, sorted(pages ^ want)[:4], "other set"))
        obs_links = set(r["obs"]["links"])
        obs_broken = {(a, b) for a, b, _ in s["links"]}
        k = "+".join(st for st in STYLES if obs_links == sh["links_" + st] and obs_broken == sh["broken_" + st]) or "neither"
        votes = link_votes.setdefault(sh["cfg"], {})
        votes[k] = votes.get(k, 0) + 1
        if k == "neither":
            drift.append("run %d (%s configuration): type-reference links %s / broken %s differ from every I-layer link style"
                         % (rid, sh["cfg"], sorted(obs_links ^ sh["links_fixed"])[:3], sorted(obs_broken ^ sh["broken_fixed"])[:3]))
    ctx.cov["impl_vs_ilayer"] = {"escaping": esc_votes, "links": link_votes}
    for d in drift[:20]:
        ctx.drift(d)
    return drift


def selftests(ctx):
    """corrupt one recorded field of a real trace: the T-layer must reject exactly there.  The corruptions are defined on whatever the
    current tree produces (a tree that violates the property must still get its verdict, not a harness failure)."""
    import collections

    case = {"types": [{"ns": ["zqra"], "name": "Zqt1", "kind": "struct", "refs": [], "doc": 1, "fdoc": 2},
                      {"ns": ["zqra"], "name": "Zqt2", "kind": "struct", "refs": [{"to": 0, "how": "plain"}], "doc": 0}],
            "nsdocs": [], "spans": {1: "benign", 2: "also benign"}}
    base = work((0, case, False, str(ctx.scratch)))
    if base["error"]:
        ctx.not_exercised("binding self-tests: the self-test universe could not be generated (%s)" % base["error"])
        return
    evs = [json.loads(ln) for ln in open(base["trace"])]

    def verdict_of(name, ev2):
        p = ctx.scratch / ("self-%s.ndjson" % name)
        with open(p, "w") as f:
            for e in ev2:
                f.write(json.dumps(e, separators=(",", ":")) + "\n")
        recs = judge(ctx, [dict(base, trace=str(p), nev=len(ev2), run=0)], per_batch=1)[0].get(0, [])
        return collections.Counter((r["clause"], r["detail"]) for r in recs if r["tag"] == "REJECT")

    def copy():
        return json.loads(json.dumps(evs))

    base_c = verdict_of("unchanged", evs)
    # (1) the text between the sentinels of a span that arrived as character data becomes an element
    i = next((i for i, e in enumerate(evs) if e["k"] == "text" and not e["raw"] and [p["m"] for p in e["p"]] == [1, 0, 2]), None)
    if i is None:
        ctx.not_exercised("binding self-test 'markup in span': no sentinel span arrives as plain character data on this tree")
    else:
        ev2 = copy()
        e = ev2[i]
        sid, pg = e["p"][0]["i"], e["pg"]
        e["p"] = e["p"][:1]
        ev2[i + 1:i + 1] = [{"k": "open", "pg": pg, "n": e["n"], "t": cps("b"), "a": [], "sc": False, "taint": 0, "tainto": 0, "bad": []},
                            {"k": "close", "pg": pg, "n": e["n"], "t": cps("b"), "taint": 0, "tainto": 0, "bad": []},
                            {"k": "text", "pg": pg, "n": e["n"], "raw": False, "p": [{"m": 2, "i": sid, "s": []}], "tn": 0, "refs": [], "bad": []}]
        got = verdict_of("markup", ev2) - base_c
        ctx.selftest("text between sentinels turned into an element is rejected (html.sentinel markup-in-span)", got[("html.sentinel", "markup-in-span")] >= 1)
    # (2) a type-reference hyperlink is pointed at an anchor of its own page (accepted), then the anchor is renamed (must be rejected)
    link = anchor = None
    for i, e in enumerate(evs):
        if e["k"] == "open" and to_s(e["t"]) == "a" and any(to_s(a["n"]) == "href" and a["hv"] for a in e["a"]):
            for f in evs[i + 1:]:
                if f["k"] == "close":
                    break
                if f["k"] == "text" and f["refs"]:
                    link = i
                    break
        if link is not None:
            break
    if link is not None:
        pg = evs[link]["pg"]
        anchor = next((i for i, e in enumerate(evs) if e["k"] == "open" and e["pg"] == pg and any(to_s(a["n"]) == "id" and plain(a["v"]) for a in e["a"])), None)
    if link is None or anchor is None:
        ctx.not_exercised("binding self-test 'anchor': no type-reference hyperlink / no id on this tree's pages")
    else:
        def retarget(ev2, newid):
            ida = next(a for a in ev2[anchor]["a"] if to_s(a["n"]) == "id")
            old = plain(ida["v"])
            for a in ev2[link]["a"]:
                if to_s(a["n"]) == "href":
                    a["v"] = [{"m": 0, "i": 0, "s": cps("#" + old)}]
            if newid:
                ida["v"] = [{"m": 0, "i": 0, "s": cps(old + "~")}]
            return ev2
        ok_c = verdict_of("anchor-ok", retarget(copy(), False))
        bad_c = verdict_of("anchor-renamed", retarget(copy(), True))
        ctx.selftest("renamed anchor of a type-reference hyperlink is rejected (html.link anchor-not-produced)",
                     (bad_c - ok_c)[("html.link", "anchor-not-produced")] >= 1)
    # (2b) the namespace page is recorded under another name than index.html (what a stem / extension override does): a hyperlink that
    # leads to the namespace's directory (or to index.html) no longer leads to a produced page
    plink = None  # a type-reference hyperlink with a path (not a bare #anchor) on a page called index.html
    for i, e in enumerate(evs):
        if e["k"] == "open" and to_s(e["t"]) == "a":
            href = next((plain(a["v"]) for a in e["a"] if to_s(a["n"]) == "href" and a["hv"]), "")
            doc = next(d for d in evs if d["k"] == "doc" and d["pg"] == e["pg"])
            nxt = next((f for f in evs[i + 1:] if f["k"] in ("text", "close")), None)
            if "/" in href.split("#")[0] and to_s(doc["path"][-1]) == "index.html" and nxt and nxt["k"] == "text" and nxt["refs"]:
                plink = e["pg"]
                break
    if plink is None:
        ctx.not_exercised("binding self-test 'namespace page name': no type-reference hyperlink with a path on this tree's pages")
    else:
        ev2 = copy()
        next(d for d in ev2 if d["k"] == "doc" and d["pg"] == plink)["path"][-1] = cps("page.htm")
        got = verdict_of("pagename", ev2) - base_c
        ctx.selftest("namespace page recorded as page.htm instead of index.html: the type-reference hyperlink into its directory is rejected "
                     "(html.link page-not-produced)", got[("html.link", "page-not-produced")] >= 1)
    # (3) the last end tag of a page is lost
    i = next((i for i in range(len(evs) - 1, -1, -1) if evs[i]["k"] == "close" and not evs[i]["bad"]), None)
    if i is None:
        ctx.not_exercised("binding self-test 'lost end tag': no end tag on this tree's pages")
    else:
        ev2 = copy()
        del ev2[i]
        got = verdict_of("close", ev2) - base_c
        ctx.selftest("dropped end tag is rejected (html.balanced)", any(c == "html.balanced" and n >= 1 for (c, _), n in got.items()))
    # spec -> code direction: a perturbed expected outcome must be noticed by the comparison
    sh = {"src": [cps("zqra")], "dst": [cps("zqra")], "names": [cps("Zqt1"), cps("Zqt2"), cps("Zqt3")], "cfg": "default", "ext": ".html",
          "pages": {"zqra/index.html"}, "links_code": set(), "links_fixed": set(), "links_page": set(),
          "broken_code": set(), "broken_fixed": set(), "broken_page": set()}
    fake = Ctx0()
    compare_with_ilayer(fake, {0: {"universe": case, "shape": sh}}, {0: base}, {0: {"sentinel": set(), "balanced": set(), "links": set()}},
                        [{"text": cps("benign"), "pred_none": ["html.sentinel"], "pred_esc": ["html.sentinel"]}], 1)
    ctx.selftest("perturbed I-layer prediction (pages, links, verdict) is reported as a mismatch by the spec->code comparison", len(fake.notes) >= 2)


class Ctx0:
    """collects drift notes of a comparison without reporting them"""

    def __init__(self):
        self.cov, self.notes = {}, []

    def drift(self, what):
        self.notes.append(what)


def replay(ctx, case):
    uni = case["universe"]
    res = work((0, uni, bool(case.get("public")), str(ctx.scratch), case.get("config")))
    if res["error"]:
        raise MachineryFailure("replay: generator raised %s" % res["error"])
    verdicts(ctx, [res], {0: {"universe": uni, "public": case.get("public", False), "config": case.get("config")}}, "replay",
             only=case.get("signature"))
