"""C07 - reproducible output: the generated files are a pure function of inputs, options and tool version.

Model:   specs/GenRepro.tla (I-layer: build_namespace_tree's two loops, environment creation, the recursive walk of the
         namespace tree, per-file content as ATOMS; ambient variables clock / hash order / cwd / location; every place where
         ambient state is in reach of a template or filter is a named GATE) refines specs/GenReproP.tla (P-layer: a history
         machine that accepts a run iff it repeats the first result of its (inputs, options) pair).  Exhaustive over all
         namespace shapes <= MaxTypes types / <= 3 nested namespaces x every permutation of every set iteration x 8 ambient
         pairs x 4 targets x auditing on/off.  With one gate open TLC enumerates the behaviours in which the two results differ.
spec->code: every such witness (gate, target, ambient dimension(s), namespace shape) becomes a targeted stimulus: the shape
         is written as real DSDL, the real CLI is run under the two ambient states (or under PYTHONHASHSEED 0..K for the
         order-borne flows) and the results must be identical (P).  The generation orders the I-layer predicts per shape are
         compared with the orders really observed (drift only).
code->spec: larger random namespace sets (nested namespaces, services, unions, constants, doc comments, versions, lookup
         directory) x targets x option sets x front ends (CLI subprocess `python -m nunavut`, CLI/API inside a long-lived
         interpreter) x ambient variation FOR REAL (clock patched by a launcher before nunavut is imported, TZ, hash seed,
         process, cwd, relative/absolute spelling, inputs and outputs copied to other absolute locations of other path
         length).  Every run is one `run` record (digest map, order of file creation) judged by specs/GenReproTrace.tla.
"""
import ast
import base64
import collections
import concurrent.futures
import gzip
import hashlib
import json
import os
import pathlib
import re
import shutil
import subprocess
import sys
import uuid

from ..core import MachineryFailure, NCPU, REPO, SPECS, sha
from .. import tlc
from .. import dsdl as D

PY = sys.executable

# ------------------------------------------------------------------------------------------------------------------
# The launcher: a self-contained script (no vf imports) that executes generator jobs inside ONE interpreter.  It patches
# the clock BEFORE nunavut is imported, logs the order in which files are opened for writing, runs the CLI exactly as
# `python -m nunavut` does (runpy, run_name="__main__") or calls the API, and digests the output tree.
# ------------------------------------------------------------------------------------------------------------------
LAUNCHER = r'''
import builtins, datetime, hashlib, json, os, runpy, sys, time, traceback, io

_REAL_TIME = time.time
_REAL_DT = datetime.datetime
_REAL_OPEN = builtins.open
_STATE = {"clock": None, "log": None}


def _now():
    return _REAL_TIME() if _STATE["clock"] is None else _STATE["clock"]


class _PatchedDatetime(_REAL_DT):
    @classmethod
    def utcnow(cls):
        return _REAL_DT(1970, 1, 1) + datetime.timedelta(seconds=_now())

    @classmethod
    def now(cls, tz=None):
        return _REAL_DT.fromtimestamp(_now(), tz)

    @classmethod
    def today(cls):
        return _REAL_DT.fromtimestamp(_now())


_REAL_OS_OPEN = os.open


def _os_open(path, flags, *a, **kw):
    log = _STATE["log"]
    if log is not None and flags & (os.O_WRONLY | os.O_RDWR) and flags & os.O_CREAT:
        try:
            log.append(os.path.abspath(os.fspath(path)))
        except TypeError:
            pass
    return _REAL_OS_OPEN(path, flags, *a, **kw)


def _open(file, mode="r", *a, **kw):
    log = _STATE["log"]
    if log is not None and isinstance(mode, str) and any(c in mode for c in "wax+") and not isinstance(file, int):
        try:
            log.append(os.path.abspath(os.fspath(file)))
        except TypeError:
            pass
    return _REAL_OPEN(file, mode, *a, **kw)


def install():
    time.time = _now
    datetime.datetime = _PatchedDatetime
    builtins.open = _open
    io.open = _open
    os.open = _os_open


def digest_tree(out):
    res = {}
    for base, _dirs, files in os.walk(out):
        for f in files:
            p = os.path.join(base, f)
            with _REAL_OPEN(p, "rb") as fh:
                res[os.path.relpath(p, out).replace(os.sep, "/")] = hashlib.sha256(fh.read()).hexdigest()
    return res


def exec_job(job):
    """One generator run.  job: front (cli|api), argv | api, cwd, clock (float|None), tz, out (absolute)."""
    pre_rc = [exec_job(pj)["rc"] for pj in job.get("pre", [])]     # earlier runs in this very process (history)
    old_cwd, old_argv, old_tz = os.getcwd(), list(sys.argv), os.environ.get("TZ")
    _STATE["clock"] = job.get("clock")
    _STATE["log"] = []
    if job.get("tz"):
        os.environ["TZ"] = job["tz"]
        time.tzset()
    res = {"id": job["id"], "rc": 0, "err": "", "pre_rc": pre_rc}
    try:
        os.chdir(job["cwd"])
        if job["front"] == "cli":
            sys.argv = ["nnvg"] + list(job["argv"])
            try:
                if job.get("as_main"):
                    runpy.run_module("nunavut", run_name="__main__", alter_sys=True)
                else:
                    import nunavut.cli
                    res["rc"] = int(nunavut.cli.main() or 0)
            except SystemExit as e:
                res["rc"] = int(e.code or 0) if isinstance(e.code, (int, type(None))) else 1
        else:
            import nunavut
            a = dict(job["api"])
            if "templates_dir" in a or "support_templates_dir" in a or "config_overrides" in a:
                # generate_types() has no template arguments: the same steps through the public building blocks
                import pathlib, pydsdl
                from nunavut.lang import LanguageContextBuilder, Language
                bld = (LanguageContextBuilder(include_experimental_languages=a.get("include_experimental_languages", False))
                       .set_target_language(a["language_key"])
                       .set_target_language_configuration_override(Language.WKCV_LANGUAGE_OPTIONS, a.get("language_options") or {}))
                for ck, cv in (a.get("config_overrides") or {}).items():
                    bld.set_target_language_configuration_override(ck, cv)
                lctx = bld.create()
                types = pydsdl.read_namespace(str(a["root_namespace_dir"]), a.get("lookup_directories") or [])
                ns = nunavut.build_namespace_tree(types, str(a["root_namespace_dir"]), str(a["out_dir"]), lctx)
                kw = {k: ([pathlib.Path(x) for x in a[k]] if isinstance(a[k], list) else pathlib.Path(a[k]))
                      for k in ("templates_dir", "support_templates_dir") if k in a}
                from nunavut.jinja import DSDLCodeGenerator, SupportGenerator
                gen, sup = DSDLCodeGenerator(ns, **kw), SupportGenerator(ns, **kw)
                omit, audit = a.get("omit_serialization_support", True), a.get("embed_auditing_info", False)
                sup.generate_all(False, True, omit, audit)
                gen.generate_all(False, True, omit, audit)
            else:
                nunavut.generate_types(a.pop("language_key"), a.pop("root_namespace_dir"), a.pop("out_dir"), **a)
    except BaseException as e:  # the generator failed: that is an observation, not a harness failure
        res["rc"] = 1
        res["err"] = "".join(traceback.format_exception_only(type(e), e))[-400:]
    finally:
        log = _STATE["log"]
        _STATE["log"] = None
        _STATE["clock"] = None
        os.chdir(old_cwd)
        sys.argv = old_argv
        if job.get("tz"):
            if old_tz is None:
                os.environ.pop("TZ", None)
            else:
                os.environ["TZ"] = old_tz
            time.tzset()
    out = os.path.abspath(job["out"])
    res["files"] = digest_tree(out) if os.path.isdir(out) else {}
    order, seen = [], set()
    for p in log:
        if p.startswith(out + os.sep):
            r = os.path.relpath(p, out).replace(os.sep, "/")
            if r not in seen:
                seen.add(r)
                order.append(r)
    res["order"] = order
    res["hashseed"] = os.environ.get("PYTHONHASHSEED", "")
    res["strhash"] = hash("c07-probe") & 0xFFFFFF      # evidence that the hash seed is in force in this interpreter
    return res


if __name__ == "__main__":
    install()
    jobs = json.load(_REAL_OPEN(sys.argv[1]))
    results = [exec_job(j) for j in jobs]
    with _REAL_OPEN(sys.argv[2], "w") as f:
        json.dump(results, f)
'''

# ------------------------------------------------------------------------------------------------------------------
# inputs: DSDL namespace sets
# ------------------------------------------------------------------------------------------------------------------
ROOT = "vroot"
NS_NAMES = {1: "na", 2: "nb", 3: "nc"}


class Inputs:
    """A DSDL namespace set: files relative to a base directory (`in/<root>/...`, `lk/<lookup root>/...`, `tpl/...`)."""

    def __init__(self, iid, name, files, root=ROOT, lookups=(), shape=None):
        self.id = iid
        self.name = name
        self.files = dict(files)
        self.root = root
        self.lookups = list(lookups)
        self.shape = shape

    def materialize(self, base, rng=None, top=None):
        """writes the set below `base`; the creation order is shuffled so that directory listings differ between copies;
        top: other names for the top-level directories (the directory right above a root namespace is part of the location)"""
        base = pathlib.Path(base)
        names = sorted(self.files)
        if rng is not None:
            rng.shuffle(names)
        for rel in names:
            first, _, rest = rel.partition("/")
            p = base / (top or {}).get(first, first) / rest
            p.parent.mkdir(parents=True, exist_ok=True)
            p.write_text(self.files[rel])
        return base

    def to_json(self):
        return {"name": self.name, "files": self.files, "root": self.root, "lookups": self.lookups, "shape": self.shape}

    @staticmethod
    def from_json(iid, d):
        return Inputs(iid, d["name"], d["files"], d["root"], d["lookups"], d.get("shape"))


def ns_dir(ns):
    return "/".join([ROOT] + [NS_NAMES[x] for x in ns])


def ns_dotted(ns):
    return ".".join([ROOT] + [NS_NAMES[x] for x in ns])


USER_TEMPLATE = ("\n\n\n// {{ T.full_name }}\n"
                 "{% for f in T.attributes %}// {{ f.name }}\n{% endfor %}"
                 "{{ '\\n' * ((T.attributes | length) % 3) }}")


# A user template that prints every global of the `nunavut` namespace a template can legitimately reach (the whole namespace
# through its repr, and the documented members by name).  With auditing off none of them may depend on ambient state.
PROBE_TEMPLATE = ("// {{ T.full_name }}\n// all: {{ nunavut }}\n// version: {{ nunavut.version }}\n// template_sets: {{ nunavut.template_sets }}\n"
                  "{% for ts in nunavut.template_sets %}//   set {{ loop.index }}: {{ ts[0] }} | {{ ts[1] }} | {{ ts[2] }}\n{% endfor %}"
                  "// platform: {{ nunavut.platform_version }}\n// support: {{ nunavut.support }}\n// auditing: {{ nunavut.embed_auditing_info }}\n"
                  "// options: {{ options }}\n")


def shape_inputs(iid, shape):
    """The namespace shape of a model record as real DSDL.  shape: {"types": [{"ns": [..], "k": k}...] in rank order,
    "user": index|0, "dep": none|star|chain}.  Dependencies as in GenRepro.tla: star = the `user` type has a field of every
    other type; chain = `user` and then the other types in rank order each have a field of the next one, the last link
    being a delimited structure (whose bit-length caches PyDSDL fills lazily)."""
    types = shape["types"]
    u = shape["user"]
    chain = ([u] + [j for j in range(1, len(types) + 1) if j != u]) if shape.get("dep") == "chain" else []

    def ref(j):
        return "%s.T%d.1.0" % (ns_dotted(types[j - 1]["ns"]), types[j - 1]["k"])

    files = {}
    for i, t in enumerate(types, 1):
        rel = "in/%s/T%d.1.0.dsdl" % (ns_dir(t["ns"]), t["k"])
        lines = ["# type %d of the shape" % i]
        if chain and chain.index(i) + 1 < len(chain):
            lines += ["uint8 a%d" % i, "%s next" % ref(chain[chain.index(i) + 1]), "@sealed"]
        elif chain:
            lines += ["int13 v%d" % i, "void3", "@extent 64"]
        elif shape.get("dep") == "star" and i == u:
            lines += ["%s d%d" % (ref(j), j) for j in range(1, len(types) + 1) if j != u] + ["uint8 tail%d" % i, "@sealed"]
        else:
            lines += [["int13 v%d" % i, "void3", "@extent 64"], ["float16[<=3] w%d" % i, "uint8 x", "@sealed"], ["uint8 x%d" % i, "@sealed"]][i % 3]
        files[rel] = "\n".join(lines) + "\n"
    files["tpl/Any.j2"] = USER_TEMPLATE
    files["tplg/Any.j2"] = PROBE_TEMPLATE
    return Inputs(iid, "shape:" + json.dumps(shape, separators=(",", ":")), files, shape=shape)


def _prim_expr(rng):
    ts = D.TypeSet()
    return ts.expr(D.rand_prim(rng, void_ok=False))


def rand_inputs(iid, rng, n_types, n_ns):
    """A larger random namespace set: nested namespaces (depth <= 3), structs / unions / services, constants, doc comments,
    two minor versions, deprecated types, arrays, cross-namespace and cross-root (lookup directory) dependencies."""
    nss = [()]
    while len(nss) < n_ns:
        p = rng.choice(nss)
        if len(p) < 3:
            c = p + ("n%s%d" % ("abcdefgh"[len(nss) % 8], len(nss)),)
            if c not in nss:
                nss.append(c)
    files = {}
    known = []  # (dotted full name with version, sealed?)
    # lookup root `extlib`: two types, one nested
    files["lk/extlib/Base.1.0.dsdl"] = "# external base type\nuint16 value\nfloat32 ratio\n@sealed\n"
    files["lk/extlib/deep/Inner.2.3.dsdl"] = "# external nested type\nextlib.Base.1.0[<=3] items\nbool flag\n@extent 64 * 8\n"
    known += ["extlib.Base.1.0", "extlib.deep.Inner.2.3"]
    leaf_ns = [n for n in nss if not any(m[: len(n)] == n and len(m) > len(n) for m in nss)]
    used_ns = set()
    for i in range(n_types):
        # every leaf namespace gets a type first (a namespace without a file below it does not exist for PyDSDL)
        pending = [n for n in leaf_ns if n not in used_ns]
        ns = pending[0] if pending else rng.choice(nss)
        used_ns.add(ns)
        name = "T%s%d" % (rng.choice(["ype", "elemetry", "x", "Cmd"]), i)
        kind = rng.random()
        doc = ["# %s: generated type number %d" % (name, i), "# second line of the comment <b>&amp;</b> \"quoted\""][: rng.randint(0, 2)]

        def fields(prefix, union=False):
            res = []
            nf = rng.randint(2, 4) if union else rng.randint(1, 5)
            for j in range(nf):
                r = rng.random()
                if known and r < 0.4:
                    e = rng.choice(known)
                elif r < 0.5 and not union:
                    res.append("void%d" % rng.choice([1, 3, 8]))
                    continue
                else:
                    e = _prim_expr(rng)
                r2 = rng.random()
                if r2 < 0.2:
                    e += "[%d]" % rng.randint(1, 4)
                elif r2 < 0.4:
                    e += "[<=%d]" % rng.randint(1, 9)
                res.append("%s %s%d" % (e, prefix, j))
            return res

        def consts():
            res = []
            for j in range(rng.randint(0, 2)):
                res.append(rng.choice(["uint8 C%d = %d" % (j, rng.randint(0, 255)), "float32 K%d = %d.5" % (j, rng.randint(0, 9)),
                                       "bool B%d = true" % j, "int16 N%d = -%d" % (j, rng.randint(1, 999)), "uint8 CH%d = 'a'" % j]))
            return res

        def ending():
            return "@sealed" if rng.random() < 0.5 else "@extent %d * 8" % rng.choice([256, 300, 512])

        lines = list(doc)
        deprecated = rng.random() < 0.12
        if deprecated:
            lines.append("@deprecated")
        if kind < 0.2:  # service
            lines += consts() + fields("q") + [ending(), "---"] + (["@union"] if rng.random() < 0.3 else [])
            lines += fields("r", union=lines[-1] == "@union") + [ending()]
        elif kind < 0.45:
            lines += ["@union"] + fields("u", union=True) + consts() + [ending()]
        else:
            lines += consts() + fields("f") + [ending()]
        rel = "in/%s/%s.1.0.dsdl" % ("/".join((ROOT,) + ns), name)
        files[rel] = "\n".join(lines) + "\n"
        full = ".".join((ROOT,) + ns + (name,))
        if kind >= 0.2 and not deprecated:
            known.append(full + ".1.0")
            if kind >= 0.45 and rng.random() < 0.25 and lines[-1].startswith("@extent"):
                # a second minor version: same extent, one more field
                files["in/%s/%s.1.1.dsdl" % ("/".join((ROOT,) + ns), name)] = "\n".join(lines[:-1] + ["uint8 added_in_1_1", lines[-1]]) + "\n"
                known.append(full + ".1.1")
    files["tpl/Any.j2"] = USER_TEMPLATE
    files["tplg/Any.j2"] = PROBE_TEMPLATE
    return Inputs(iid, "rand:%d types/%d namespaces/%s" % (n_types, n_ns, sha(json.dumps(files, sort_keys=True))[:8]), files, lookups=["extlib"])


def valid_inputs(ctx, inputs):
    """front-end acceptance of a generated set (machinery: an invalid set is re-drawn, it is not an observation)"""
    import pydsdl

    base = ctx.scratch / ("probe-" + uuid.uuid4().hex[:8])
    try:
        inputs.materialize(base)
        pydsdl.read_namespace(str(base / "in" / inputs.root), [str(base / "lk" / l) for l in inputs.lookups])
        return True
    except pydsdl.FrontendError:
        return False
    finally:
        shutil.rmtree(base, ignore_errors=True)


def fixed_inputs(iid):
    """A hand-written set that is known to exercise every flow seen while reading the code."""
    files = {
        "in/vroot/Top.1.0.dsdl": "# Top type doc\nuint8 CONST_A = 12\nfloat32 PI = 3.14\nvroot.sub.Mid.1.0 m\nvroot.other.Oth.1.0[<=3] o\n"
                                 "extlib.Base.1.0 e\n@extent 1024 * 8\n",
        "in/vroot/sub/Mid.1.0.dsdl": "@union\nuint8 a\nvroot.sub.deep.Leaf.1.0 l\n@sealed\n",
        "in/vroot/sub/deep/Leaf.1.0.dsdl": "int13 v\nvoid3\n@extent 64\n",
        "in/vroot/sub/deep/Leaf.1.1.dsdl": "int13 v\nvoid3\nuint8 w\n@extent 64\n",
        "in/vroot/other/Oth.1.0.dsdl": "float16 x\n@sealed\n",
        "in/vroot/other/Svc.1.0.dsdl": "vroot.sub.Mid.1.0 q\n@sealed\n---\nvroot.other.Oth.1.0 r\nextlib.Base.1.0 e\n@extent 200 * 8\n",
        "in/vroot/zeta/Last.1.0.dsdl": "# uses a sibling namespace\nvroot.sub.deep.Leaf.1.1[2] ls\nvroot.other.Oth.1.0 o\n@sealed\n",
        "lk/extlib/Base.1.0.dsdl": "uint32 z\n@sealed\n",
        "tpl/Any.j2": USER_TEMPLATE,
        "tplg/Any.j2": PROBE_TEMPLATE,
    }
    # names that common "friendlier" comparison keys confuse (digit runs compared by value, leading zeros, separators dropped): with such
    # a key a sort is no longer total and the order of the tied entries falls back to whatever the unordered container yields
    cmp_names = ["Cell1", "Cell01", "Cell001", "Cell2", "Cell10", "Cell_1", "Cell1x", "Cell1_0"]
    for n in cmp_names:
        files["in/vroot/cmp/%s.1.0.dsdl" % n] = "uint8 v\n@sealed\n"
    files["in/vroot/cmp/Ver.1.2.dsdl"] = "uint8 v\n@extent 64\n"
    files["in/vroot/cmp/Ver.1.10.dsdl"] = "uint8 v\nuint8 w\n@extent 64\n"
    files["in/vroot/cmp/Pack.1.0.dsdl"] = ("".join("vroot.cmp.%s.1.0 f%d\n" % (n, i) for i, n in enumerate(cmp_names))
                                           + "vroot.cmp.Ver.1.2 va\nvroot.cmp.Ver.1.10 vb\n@sealed\n")
    # the same for NAMESPACES: sibling nested namespaces whose names such keys tie (a listing of namespaces then depends on the container's order)
    for n in ("n1", "n01", "n001", "n_1", "n10", "n2"):
        files["in/vroot/cmp/%s/Leaf.1.0.dsdl" % n] = "uint8 v\n@sealed\n"
    return Inputs(iid, "fixed", files, lookups=["extlib"])


def repo_inputs(ctx):
    """DSDL shipped with the repository that PyDSDL can load offline (no `uavcan`): (root, source directory, sub-path)."""
    res = []
    base = REPO / "verification" / "nunavut_test_types"
    for root, src in (("regulated", base / "test0" / "regulated" / "delimited"), ("mymsgs", base / "nested_array_types" / "mymsgs")):
        fs = sorted(src.glob("*.dsdl")) if src.is_dir() else []
        if not fs:
            ctx.not_exercised("repository fixture %s not found" % src)
            continue
        sub = "in/regulated/delimited/" if root == "regulated" else "in/mymsgs/"
        files = {sub + f.name: f.read_text() for f in fs}
        files["tpl/Any.j2"] = USER_TEMPLATE
        files["tplg/Any.j2"] = PROBE_TEMPLATE
        res.append((root, files))
    return res


# ------------------------------------------------------------------------------------------------------------------
# options
# ------------------------------------------------------------------------------------------------------------------
class Opts:
    """An option set.  `args` may contain the placeholders {tpl} (user template directory of the input copy)."""

    def __init__(self, oid, lang, front="cli", args=(), api=None, audit=False, label=""):
        self.id = oid
        self.lang = lang
        self.front = front
        self.args = list(args)
        self.api = dict(api or {})
        self.audit = audit
        self.label = label or (front + ":" + lang + ":" + " ".join(self.args) + json.dumps(self.api, sort_keys=True) * bool(api))

    def to_json(self):
        return {"lang": self.lang, "front": self.front, "args": self.args, "api": self.api, "audit": self.audit, "label": self.label}

    @staticmethod
    def from_json(oid, d):
        return Opts(oid, d["lang"], d["front"], d["args"], d["api"], d["audit"], d["label"])


CLI_OPTION_SETS = {
    "c": [[], ["--omit-serialization-support"], ["--pp-max-emptylines", "1", "--pp-trim-trailing-whitespace"],
          ["--templates", "{tpl}"], ["--target-endianness", "little", "--enable-serialization-asserts"],
          ["--enable-override-variable-array-capacity", "--omit-float-serialization-support"], ["--generate-support", "never"],
          ["--output-extension", ".hh", "--file-mode", "0o644"], ["--pp-run-program", "true"], ["--generate-support", "always"],
          ["--templates", "{btpl}"], ["--templates", "{btpl}", "--support-templates", "{bsup}"], ["--templates", "{tplg}"]],
    "cpp": [[], ["--language-standard", "c++17-pmr"], ["--omit-serialization-support"],
            ["--pp-max-emptylines", "2", "--pp-trim-trailing-whitespace"], ["--language-standard", "cetl++14-17"],
            ["--language-standard", "c++17", "--enable-serialization-asserts"], ["--templates", "{tpl}", "--pp-max-emptylines", "1"],
            ["--templates", "{btpl}"], ["--templates", "{btpl}", "--support-templates", "{bsup}"], ["--templates", "{tplg}"],
            ["--support-templates", "{bsup}"]],
    "py": [[], ["--generate-namespace-types"], ["--omit-serialization-support"], ["--pp-trim-trailing-whitespace"],
           ["--pp-run-program", "true"], ["--generate-support", "never"],
           ["--templates", "{btpl}"], ["--templates", "{btpl}", "--support-templates", "{bsup}"], ["--templates", "{tplg}"]],
    "html": [[], ["--generate-namespace-types"], ["--pp-max-emptylines", "1", "--pp-trim-trailing-whitespace"],
             ["--namespace-output-stem", "contents"], ["--templates", "{btpl}"], ["--templates", "{tplg}"]],
}
API_OPTION_SETS = {
    "c": [{"omit_serialization_support": False}, {"omit_serialization_support": True},
          {"omit_serialization_support": False, "language_options": {"target_endianness": "big"}},
          {"omit_serialization_support": False, "templates_dir": ["{ovr}", "{btpl}"]}],
    "cpp": [{"omit_serialization_support": False}, {"omit_serialization_support": False, "language_options": {"std": "c++17"}},
            {"omit_serialization_support": False, "templates_dir": "{btpl}", "support_templates_dir": "{bsup}"}],
    "py": [{"omit_serialization_support": False}, {"omit_serialization_support": False, "templates_dir": "{tplg}"},
           {"omit_serialization_support": False, "templates_dir": ["{ovr}", "{btpl}"]}],
    "html": [{"omit_serialization_support": True}, {"omit_serialization_support": True, "templates_dir": "{btpl}"}],
}
LANGS = ["c", "cpp", "py", "html"]


# ------------------------------------------------------------------------------------------------------------------
# ambient state
# ------------------------------------------------------------------------------------------------------------------
try:
    MY_SEED = int(os.environ.get("PYTHONHASHSEED", "0") or 0)     # ./check pins it to 0
except ValueError:
    MY_SEED = None
T0 = 1000000000.0          # 2001-09-09
CLOCKS = [1234567890.0, 1893456000.5, 86400.0 * 366 + 0.25]
DIMS = ("clock", "hashseed", "process", "cwd", "spelling", "location", "outlocation", "outstate", "history")

# the run that happened earlier in the same process (hist = prior): other language options, other file naming
# two earlier runs: one that differs in configuration only (same file naming, so that a memo keyed by language / extension is hit),
# one that also names its files differently
PRIOR_CLI = {"c": [["--configuration", "{cfgy}", "--target-endianness", "big", "--enable-serialization-asserts"],
                   ["--output-extension", ".xx", "--omit-float-serialization-support"]],
             "cpp": [["--configuration", "{cfgy}", "--target-endianness", "big", "--enable-serialization-asserts", "--language-standard", "c++17-pmr"],
                     ["--output-extension", ".xx", "--language-standard", "c++17"]],
             "py": [["--enable-serialization-asserts", "--omit-serialization-support"], ["--namespace-output-stem", "idx", "--output-extension", ".pyx"]],
             "html": [["--namespace-output-stem", "idx"], ["--output-extension", ".htm"]]}
PRIOR_CONFIG = "nunavut.lang.c:\n  support_namespace: vendor.cyphal\nnunavut.lang.cpp:\n  support_namespace: vendor.cyphal\n"


def ambient(**kw):
    """proc: sub (fresh `python launcher` running the CLI as __main__), plain (fresh `python -m nunavut`, no launcher, real
    clock), worker (a long-lived interpreter that has run other jobs), inproc (the check's own interpreter).
    outst: empty | stale (the output directory holds the longer output of an earlier run of the same inputs with auditing
    information and assertions, at the same paths; that run happened in another process when proc is sub).
    hist: none | prior (the same process has executed a run of the same inputs with OTHER options -- support namespace, endianness,
    standard, extension, namespace file stem -- into another directory before)."""
    a = {"clock": T0, "tz": "", "seed": 0, "proc": "sub", "cwd": "work", "spell": "abs", "loc": "A", "outloc": "in", "outst": "empty",
         "hist": "none"}
    a.update(kw)
    return a


def amb_dims(ref, a):
    d = []
    if (ref["clock"], ref["tz"]) != (a["clock"], a["tz"]):
        d.append("clock")
    if ref["seed"] != a["seed"]:
        d.append("hashseed")
    if ref["proc"] != a["proc"] and not ({ref["proc"], a["proc"]} == {"sub", "plain"}):
        d.append("process")
    if ref["cwd"] != a["cwd"]:
        d.append("cwd")
    if ref["spell"] != a["spell"]:
        d.append("spelling")
    if ref["loc"] != a["loc"]:
        d.append("location")
    if ref["outloc"] != a["outloc"]:
        d.append("outlocation")
    if ref.get("outst", "empty") != a.get("outst", "empty"):
        d.append("outstate")
    if ref.get("hist", "none") != a.get("hist", "none"):
        d.append("history")
    return d


# ------------------------------------------------------------------------------------------------------------------
# records
# ------------------------------------------------------------------------------------------------------------------
def limbs(hexdigest):
    return [int(hexdigest[i:i + 4], 16) for i in range(0, 64, 4)]


_RE_TYPEFILE = re.compile(r"_\d+_\d+\.[A-Za-z0-9]+$")


def file_class(rel):
    parts = rel.split("/")
    if parts[0] == "nunavut" or rel.startswith("nunavut_support"):
        return "support"
    if len(parts) == 1:
        return "other"          # a file directly in the output directory that is not a support file
    if _RE_TYPEFILE.search(parts[-1]):
        return "datatype"
    return "namespace"


def tree_of(paths, order):
    """namespace tree, node table and creation order as the T-layer wants them (derived from the output paths alone:
    output directories mirror namespaces)."""
    ns_id, par = {}, []

    def nid(d):
        if d not in ns_id:
            p = nid(d[:-1]) if len(d) > 1 else 0
            ns_id[d] = len(par) + 1
            par.append(p)
        return ns_id[d]

    nodes, index = [], {}
    for rel in sorted(paths):
        fc = file_class(rel)
        d = tuple(rel.split("/")[:-1])
        if fc == "support" or not d:
            nodes.append({"k": "sup", "ns": 0})
        else:
            nodes.append({"k": "ns" if fc == "namespace" else "type", "ns": nid(d)})
        index[rel] = len(nodes)
    return par, nodes, [index[r] for r in order if r in index]


def make_record(rid, inputs, opts, amb, res):
    files = res["files"] if res["rc"] == 0 else {}
    par, nodes, order = tree_of(files, res.get("order") or [])
    return {"id": rid, "inputs": inputs.id, "opts": opts.id, "audit": bool(opts.audit), "lang": opts.lang, "amb": amb,
            "files": [{"p": [ord(c) for c in p], "d": limbs(files[p])} for p in sorted(files)],
            "par": par, "nodes": nodes, "order": order if len(order) == len(files) else []}


# ------------------------------------------------------------------------------------------------------------------
# running
# ------------------------------------------------------------------------------------------------------------------
class Lab:
    """Owns the scratch layout, the copies of every input set at the absolute locations A / B / C, and executes runs."""

    LOCS = {"A": "locA9f3", "B": "locB" + "x" * 57 + "/deeperB/stillB", "C": "locC7c1e"}
    # the directories right above the root namespaces belong to the location too (a path made relative one level too high keeps their name)
    TOP = {"A": {}, "B": {"in": "srcB_inputs", "lk": "lookupB"}, "C": {"in": "in.C", "lk": "lk"}}

    def top(self, base, name):
        """the directory called `name` in location A, under the copy `base`"""
        for loc, d in self.LOCS.items():
            if ("/" + d + "/") in (str(base) + "/"):
                return base / self.TOP[loc].get(name, name)
        raise MachineryFailure("not a copy of an input set: %s" % base)

    def __init__(self, ctx):
        self.ctx = ctx
        self.base = ctx.scratch / "lab"
        self.base.mkdir()
        self.launcher = self.base / "launcher.py"
        self.launcher.write_text(LAUNCHER)
        (self.base / "work").mkdir()
        self.copies = {}
        self.nrun = 0
        self.env = dict(os.environ)
        self.env["PYTHONPATH"] = str(REPO / "src")
        self.env["PYTHONDONTWRITEBYTECODE"] = "1"
        self.env["PYTHONWARNINGS"] = "ignore"
        self.env.pop("DSDL_INCLUDE_PATH", None)
        self.env.pop("TZ", None)
        self._inproc = None

    def copy_of(self, inputs, loc):
        key = (inputs.id, loc)
        if key not in self.copies:
            base = self.base / self.LOCS[loc] / ("i%d" % inputs.id)
            inputs.materialize(base, self.ctx.rng if loc != "A" else None, self.TOP[loc])
            self.copies[key] = base
        return self.copies[key]

    def builtin_copy(self, base, kind, lang):
        """a byte-identical copy of the built-in template set (kind templates) / support templates (kind support) of a target,
        taken from the tree under test and placed next to the inputs, so it moves with them"""
        dst = base / ("btpl" if kind == "templates" else "bsup") / lang
        if not dst.exists():
            src = REPO / "src" / "nunavut" / "lang" / lang / kind
            if not src.is_dir():
                raise MachineryFailure("built-in %s of target %s not found at %s" % (kind, lang, src))
            shutil.copytree(src, dst, ignore=shutil.ignore_patterns("__pycache__", "*.pyc"))
        return dst

    def override_copy(self, base, lang):
        """a template directory with the SAME template names as the built-in copy, each with a marker line in front: listed BEFORE the copy it must win
        for every name, whatever the order in which a set or a directory listing yields the two directories"""
        dst = base / "ovr" / lang
        if not dst.exists():
            src = self.builtin_copy(base, "templates", lang)
            dst.mkdir(parents=True)
            cm = {"py": "# override", "html": "<!-- override -->"}.get(lang, "// override")
            for f in sorted(src.glob("*.j2")):
                text = f.read_text()
                (dst / f.name).write_text((cm + " " + f.name + "\n" + text) if ("{% extends" not in text and "{%- extends" not in text) else text)
        return dst

    def drop_copies(self, inputs):
        for loc in list(self.LOCS):
            p = self.copies.pop((inputs.id, loc), None)
            if p is not None:
                shutil.rmtree(p, ignore_errors=True)

    def job(self, inputs, opts, amb):
        """the concrete job for (inputs, options) under an ambient state"""
        self.nrun += 1
        base = self.copy_of(inputs, amb["loc"])
        out = (base / "out" if amb["outloc"] == "in" else self.base / "elsewhere" / ("o" * 23)) / ("r%d" % self.nrun)
        cwd = {"work": self.base / "work", "root": pathlib.Path("/"), "input": self.top(base, "in") / inputs.root, "base": base}[amb["cwd"]]
        if amb["spell"] == "rel":
            sp = lambda p: os.path.relpath(str(p), str(cwd))  # noqa: E731
        else:
            sp = str
        lk = [sp(self.top(base, "lk") / l) for l in inputs.lookups]

        def fill(a):
            if "{btpl}" in a:
                a = a.replace("{btpl}", sp(self.builtin_copy(base, "templates", opts.lang)))
            if "{bsup}" in a:
                a = a.replace("{bsup}", sp(self.builtin_copy(base, "support", opts.lang)))
            if "{cfgy}" in a:
                cf = base / "cfg" / "other.yaml"
                if not cf.exists():
                    cf.parent.mkdir(parents=True, exist_ok=True)
                    cf.write_text(PRIOR_CONFIG)
                a = a.replace("{cfgy}", sp(cf))
            return a.replace("{tplg}", sp(base / "tplg")).replace("{tpl}", sp(base / "tpl"))

        def build(args, api_kw, audit, to):
            j = {"id": self.nrun, "front": opts.front, "cwd": str(cwd), "clock": amb["clock"], "tz": amb["tz"], "out": str(to),
                 "as_main": amb["proc"] == "sub"}
            if opts.front == "cli":
                argv = ["--experimental-languages", "-l", opts.lang, "-O", sp(to)]
                for l in lk:
                    argv += ["--lookup-dir", l]
                argv += [fill(a) for a in args]
                if audit:
                    argv.append("--embed-auditing-info")
                argv.append(sp(self.top(base, "in") / inputs.root))
                j["argv"] = argv
            else:
                def fill_api(v):
                    if isinstance(v, list):
                        return [fill_api(x) for x in v]
                    if v == "{ovr}":
                        return sp(self.override_copy(base, opts.lang))
                    return fill(v) if isinstance(v, str) else v
                api = {k: fill_api(v) for k, v in api_kw.items()}
                api.update(language_key=opts.lang, root_namespace_dir=sp(self.top(base, "in") / inputs.root), out_dir=sp(to), lookup_directories=lk,
                           include_experimental_languages=True, embed_auditing_info=bool(audit))
                j["api"] = api
            return j

        job = build(opts.args, opts.api, opts.audit, out)
        if amb.get("outst", "empty") == "stale":
            # same options plus auditing information and assertions: the same paths, longer files
            lo = dict(opts.api.get("language_options") or {}, enable_serialization_asserts=True)
            stale = build(list(opts.args) + ["--enable-serialization-asserts"], dict(opts.api, language_options=lo), True, out)
            job["pre_sep" if amb["proc"] == "sub" else "pre"] = [stale]
        if amb.get("hist", "none") == "prior":
            other_api = {"omit_serialization_support": False, "language_options": {"target_endianness": "big", "enable_serialization_asserts": True}}
            if opts.lang in ("c", "cpp"):
                other_api["config_overrides"] = {"support_namespace": "vendor.cyphal"}
            for n_prior, prior_args in enumerate(PRIOR_CLI[opts.lang]):
                pa = dict(other_api, language_options={"target_endianness": "little"}) if n_prior else other_api
                if n_prior:
                    pa.pop("config_overrides", None)
                job.setdefault("pre", []).append(build(prior_args, pa, False, str(out) + ".prior"))
        return job, out, base

    def _spawn(self, jobs, seed):
        jf = self.base / ("jobs-%s.json" % uuid.uuid4().hex[:10])
        rf = jf.with_suffix(".out")
        jf.write_text(json.dumps(jobs))
        env = dict(self.env, PYTHONHASHSEED=str(seed))
        p = subprocess.run([PY, str(self.launcher), str(jf), str(rf)], env=env, cwd=str(self.base / "work"), stdout=subprocess.PIPE,
                           stderr=subprocess.STDOUT, text=True, timeout=1800)
        if p.returncode != 0 or not rf.exists():
            raise MachineryFailure("launcher failed (rc %s): %s" % (p.returncode, p.stdout[-1500:]))
        res = json.loads(rf.read_text())
        jf.unlink()
        rf.unlink()
        return res

    def _plain(self, job, seed):
        """`python -m nunavut ...` with nothing in between: real clock, no order log"""
        env = dict(self.env, PYTHONHASHSEED=str(seed))
        if job.get("tz"):
            env["TZ"] = job["tz"]
        p = subprocess.run([PY, "-m", "nunavut"] + job["argv"], env=env, cwd=job["cwd"], stdout=subprocess.PIPE, stderr=subprocess.STDOUT,
                           text=True, timeout=600)
        ns = {}
        exec(compile(LAUNCHER, "launcher", "exec"), ns)  # only for digest_tree
        return {"id": job["id"], "rc": p.returncode, "err": p.stdout[-400:], "files": ns["digest_tree"](job["out"]) if os.path.isdir(job["out"]) else {},
                "order": [], "hashseed": str(seed)}

    def inproc(self, job):
        """the same job inside the check's own interpreter (which has imported and run plenty before)"""
        if self._inproc is None:
            ns = {"__name__": "c07_launcher"}
            exec(compile(LAUNCHER, "launcher", "exec"), ns)
            self._inproc = ns
        ns = self._inproc
        import builtins
        import datetime
        import io
        import time
        saved = (time.time, datetime.datetime, builtins.open, io.open)
        ns["install"]()
        try:
            return ns["exec_job"](job)
        finally:
            time.time, datetime.datetime, builtins.open, io.open = saved

    def run_many(self, items):
        """items: list of (inputs, opts, amb).  Returns list of (job, out, result) in the same order.  Fresh-process runs go one
        per subprocess, worker runs are grouped per hash seed into long-lived interpreters, inproc runs happen here."""
        prepared = [self.job(i, o, a) + (a,) for (i, o, a) in items]
        results = [None] * len(prepared)
        fresh = [k for k, p in enumerate(prepared) if p[3]["proc"] in ("sub", "plain")]
        workers = collections.defaultdict(list)
        for k, p in enumerate(prepared):
            if p[3]["proc"] == "worker":
                workers[p[3]["seed"]].append(k)

        def do_fresh(k):
            job, _out, _base, amb = prepared[k]
            if amb["proc"] == "plain":
                return k, self._plain(job, amb["seed"])
            pre_sep = job.pop("pre_sep", None)
            if pre_sep:
                sep_rc = [r["rc"] for r in self._spawn(pre_sep, amb["seed"])]      # the earlier run, in a process of its own
            res = self._spawn([job], amb["seed"])[0]
            if pre_sep:
                res["pre_rc"] = sep_rc + res.get("pre_rc", [])
            return k, res

        def do_worker(seed):
            ks = workers[seed]
            return ks, self._spawn([prepared[k][0] for k in ks], seed)

        with concurrent.futures.ThreadPoolExecutor(max_workers=NCPU) as ex:
            futs = [ex.submit(do_fresh, k) for k in fresh]
            wfuts = [ex.submit(do_worker, s) for s in workers]
            for k, p in enumerate(prepared):
                if p[3]["proc"] == "inproc":
                    if p[3]["seed"] != MY_SEED:
                        raise MachineryFailure("inproc run asked for a hash seed this interpreter does not have")
                    results[k] = self.inproc(p[0])
            for f in futs:
                k, r = f.result()
                results[k] = r
            for f in wfuts:
                ks, rs = f.result()
                for k, r in zip(ks, rs):
                    results[k] = r
        for p in prepared:
            if p[3].get("hist", "none") == "prior":
                shutil.rmtree(str(p[1]) + ".prior", ignore_errors=True)
        return [(prepared[k][0], prepared[k][1], results[k]) for k in range(len(prepared))]


# ------------------------------------------------------------------------------------------------------------------
# diagnosis of a difference (explanation + signature only; the verdict is the T-layer's)
# ------------------------------------------------------------------------------------------------------------------
_RE_BLOB = re.compile(r"_restore_constant_\(\s*((?:'[^'\n]*'\s*)+)\)")


def _blobs(text):
    res = []
    for m in _RE_BLOB.finditer(text):
        try:
            res.append(base64.b85decode("".join(ast.literal_eval(x) for x in re.findall(r"'[^'\n]*'", m.group(1)))))
        except Exception:  # pylint: disable=broad-except
            res.append(b"")
    return res


def where_differs(a, b, loc_a, loc_b):
    """A stable class for the place where two versions of one generated file differ."""
    if len(b) > len(a) and b.startswith(a):
        return "extra-bytes-after-end", "the variant is the reference plus %d more bytes: %r" % (len(b) - len(a), b[len(a):len(a) + 80])
    try:
        ta, tb = a.decode("utf-8"), b.decode("utf-8")
    except UnicodeDecodeError:
        return "binary", ""
    if "_restore_constant_(" in ta and _RE_BLOB.sub("BLOB", ta) == _RE_BLOB.sub("BLOB", tb):
        for x, y in zip(_blobs(ta), _blobs(tb)):
            if x == y:
                continue
            try:
                px, py = gzip.decompress(x), gzip.decompress(y)
            except Exception:  # pylint: disable=broad-except
                return "pickled-model-undecodable", ""
            if px == py:
                return "gzip-header-mtime", "gzip header %s vs %s, payload identical" % (x[:10].hex(), y[:10].hex())
            ua = [c for c in loc_a.split("/") if c and c not in loc_b.split("/")]
            ub = [c for c in loc_b.split("/") if c and c not in loc_a.split("/")]
            tops = [t.encode() for d in Lab.TOP.values() for t in d.values()]
            if any((t in px) != (t in py) for t in tops):
                return "pickled-model-abspath", "pickled model contains the name of the directory above the root namespace"
            if ua and ub and all(c.encode() in px for c in ua) and all(c.encode() in py for c in ub):
                return "pickled-model-abspath", "pickled model contains the path components %r resp. %r of the input location" % (ua, ub)
            return "pickled-model-state", "pickled model payload differs (%d vs %d bytes) without an absolute path being involved" % (len(px), len(py))
    la, lb = ta.split("\n"), tb.split("\n")
    for i in range(max(len(la), len(lb))):
        x = la[i] if i < len(la) else ""
        y = lb[i] if i < len(lb) else ""
        if x == y:
            continue
        ctxt = " ".join(la[max(0, i - 2):i + 3])
        detail = "line %d: %r vs %r" % (i + 1, x[:160], y[:160])
        if "Generated at" in x or "Generated at" in y:
            return "timestamp-line", detail
        if (loc_a and loc_a in x) or (loc_b and loc_b in y) or re.search(r'"/[^"]*\.dsdl', x):
            if "static_assert" in ctxt or "serialization library" in ctxt:
                return "abspath-in-static_assert", detail
            return "abspath-line", detail
        if x.strip() == "" or y.strip() == "":
            return "blank-lines", detail
        if x.lstrip().startswith(("#include", "import ", "from ")):
            return "include-or-import-line", detail
        return "other-line", detail
    return "identical?", ""


# ------------------------------------------------------------------------------------------------------------------
# the campaign
# ------------------------------------------------------------------------------------------------------------------
class Campaign:
    def __init__(self, ctx):
        self.ctx = ctx
        self.lab = Lab(ctx)
        self.records = []
        self.meta = {}      # rid -> (inputs, opts, amb, ref rid)
        self.diag = {}      # rid -> [(fileclass, where, rel, detail)] computed when the digests differ from the reference
        self.python_saw_difference = set()
        self.orders = collections.defaultdict(set)   # (inputs.id, opts.id) -> observed creation orders
        self.failed_baselines = []
        self.inputs = {}
        self.opts = {}
        self.audit_diffs = 0
        self.audit_runs = 0
        self.preludes = collections.Counter()          # earlier runs (outst = stale / hist = prior): succeeded? -> count
        self.strhash = collections.defaultdict(set)   # hash seed -> str hashes seen in the interpreters that ran jobs

    def new_inputs(self, make, *a):
        iid = len(self.inputs) + 1
        self.inputs[iid] = make(iid, *a)
        return self.inputs[iid]

    def new_opts(self, lang, front="cli", args=(), api=None, audit=False):
        oid = len(self.opts) + 1
        self.opts[oid] = Opts(oid, lang, front, args, api, audit)
        return self.opts[oid]

    def group(self, inputs, opts, ref_amb, variants):
        """One (inputs, options) pair: the reference run first, then every variant; returns the record ids."""
        return self.groups([(inputs, opts, ref_amb, variants)])

    def groups(self, specs):
        """specs: list of (inputs, opts, ref_amb, [variant ambients]).  All reference runs are executed, then all variants."""
        lab, ctx = self.lab, self.ctx
        refs = lab.run_many([(i, o, ra) for (i, o, ra, _v) in specs])
        alive, ref_of = [], {}
        for (i, o, ra, vs), (job, out, res) in zip(specs, refs):
            if res["rc"] != 0 or not res["files"]:
                self.failed_baselines.append({"inputs": i.name, "opts": o.label, "err": res["err"][-200:]})
                shutil.rmtree(out, ignore_errors=True)
                continue
            rid = self._add(i, o, ra, res, None)
            ref_of[(i.id, o.id)] = (rid, out, str(lab.copy_of(i, ra["loc"])))
            alive.append((i, o, ra, vs))
        items = [(i, o, va) for (i, o, _ra, vs) in alive for va in vs]
        outs = lab.run_many(items) if items else []
        for (i, o, va), (job, out, res) in zip(items, outs):
            ref_rid, ref_out, ref_loc = ref_of[(i.id, o.id)]
            rid = self._add(i, o, va, res, ref_rid)
            ref_files = {"".join(map(chr, f["p"])): f["d"] for f in self.records[ref_rid]["files"]}
            my_files = {"".join(map(chr, f["p"])): f["d"] for f in self.records[rid]["files"]}
            if ref_files != my_files:
                if o.audit:
                    self.audit_diffs += 1
                else:
                    self.python_saw_difference.add(rid)
                    self.diag[rid] = self._diagnose(o, ref_files, my_files, ref_out, out, ref_loc, str(lab.copy_of(i, va["loc"])), res)
            shutil.rmtree(out, ignore_errors=True)
        for (rid, out, _loc) in ref_of.values():
            shutil.rmtree(out, ignore_errors=True)
        return ref_of

    def _add(self, inputs, opts, amb, res, ref_rid):
        rid = len(self.records)
        rec = make_record(rid, inputs, opts, amb, res)
        self.records.append(rec)
        self.meta[rid] = (inputs, opts, amb, ref_rid, res.get("err", "") if res["rc"] else "")
        self.ctx.count()
        if opts.audit:
            self.audit_runs += 1
        if "strhash" in res:
            self.strhash[amb["seed"]].add(res["strhash"])
        for rc in res.get("pre_rc") or []:
            self.preludes[rc == 0] += 1
        if rec["order"]:
            self.orders[(inputs.id, opts.id)].add(tuple(r for r in res["order"] if file_class(r) != "support"))
        return rid

    def _diagnose(self, opts, ref_files, my_files, ref_out, out, ref_loc, my_loc, res):
        d = []
        if res["rc"] != 0:
            return [("run", "run-failed", "", res["err"][-300:])]
        for rel in sorted(set(ref_files) ^ set(my_files)):
            d.append((file_class(rel), "path-only-in-one-run", rel, "present in %s only" % ("reference" if rel in ref_files else "variant")))
        seen = set()
        for rel in sorted(set(ref_files) & set(my_files)):
            if ref_files[rel] != my_files[rel]:
                try:
                    w, detail = where_differs((ref_out / rel).read_bytes(), (out / rel).read_bytes(), ref_loc, my_loc)
                except OSError as e:
                    w, detail = "unreadable", str(e)
                if (file_class(rel), w) not in seen:
                    seen.add((file_class(rel), w))
                    d.append((file_class(rel), w, rel, detail))
        return d

    # ---- verdicts
    def judge(self):
        ctx = self.ctx
        rejects = validate(ctx, self.records)
        bad = [r for r, c in rejects.items() if c.startswith("harness")]
        if bad:
            raise MachineryFailure("harness produced malformed records: %r" % bad[:5])
        p_rejected = {r for r, c in rejects.items() if "repro." in c}
        if p_rejected != self.python_saw_difference:
            raise MachineryFailure("binding inconsistency: T-layer rejected %r, python saw differing digests for %r"
                                   % (sorted(p_rejected ^ self.python_saw_difference)[:10], "the others"))
        # single-dimension differences first: they name the flow; a run that differs from its reference in several ambient
        # dimensions is attributed to a flow already named by one of them (else it gets a `multi:` signature of its own)
        todo = sorted(p_rejected, key=lambda r: (len(amb_dims(self.meta[self.meta[r][3]][2], self.meta[r][2])) != 1, r))
        named = collections.defaultdict(set)   # (target, file class, where) -> dimensions that alone produce it
        for rid in todo:
            inputs, opts, amb, ref_rid, _err = self.meta[rid]
            dims = amb_dims(self.meta[ref_rid][2], amb)
            clause = [c for c in rejects[rid].split("+") if c.startswith("repro.")][0]
            for (fc, where, rel, detail) in self.diag.get(rid, [("?", "unclassified", "", "")]):
                key = (opts.lang, fc, where)
                if len(dims) == 1:
                    named[key].add(dims[0])
                    dim = dims[0]
                else:
                    cands = sorted(named[key] & set(dims))
                    dim = cands[0] if cands else "multi:" + "+".join(dims)
                sig = "C07|%s|%s|%s|%s|%s" % (clause, opts.lang, dim, fc, where)
                ex = ctx.cov.setdefault("violation_examples", {}).setdefault(sig, [])
                if len(ex) < 6 and [inputs.name, opts.label] not in ex:
                    ex.append([inputs.name, opts.label])
                what = ("two runs of the same (inputs, options) differ [%s]: target %s, options %s, ambient difference %s, file %s: %s"
                        % (clause, opts.lang, opts.label, "+".join(dims), rel, detail))
                ctx.violation(sig, what, self.case(rid))
        for rid, c in rejects.items():
            if "drift.order" in c:
                inputs, opts, amb, _ref, _err = self.meta[rid]
                ctx.drift("files of one run were not created in a pre-order walk of the namespace tree (%s, %s)" % (opts.label, inputs.name))
        return rejects

    def case(self, rid):
        inputs, opts, amb, ref_rid, _err = self.meta[rid]
        return {"inputs": inputs.to_json(), "opts": opts.to_json(), "ref": self.meta[ref_rid][2], "var": amb}


def validate(ctx, records, bin_size=120):
    """Code -> spec: records are binned so that all runs of one (inputs, options) pair are judged by one TLC invocation
    (the history variable `first` lives inside one behaviour); bins run in parallel."""
    groups = collections.OrderedDict()
    for r in records:
        groups.setdefault((r["inputs"], r["opts"]), []).append(r)
    bins, cur = [], []
    for g in groups.values():
        if cur and len(cur) + len(g) > bin_size:
            bins.append(cur)
            cur = []
        cur = cur + g
    if cur:
        bins.append(cur)
    tdir = ctx.scratch / ("tr-" + uuid.uuid4().hex[:10])
    tdir.mkdir()
    cfg = tlc.write_cfg(tdir / "t.cfg")

    def one(k):
        p = tdir / ("b%04d.ndjson" % k)
        with open(p, "w") as f:
            for r in bins[k]:
                f.write(json.dumps({x: r[x] for x in ("id", "inputs", "opts", "audit", "files", "par", "nodes", "order")}, separators=(",", ":")) + "\n")
        return tlc.run_tlc(SPECS / "GenReproTrace.tla", cfg, ctx.scratch, workers=1, timeout=1800, env={"TRACE_FILE": str(p)}, xmx="3g"), k

    rejects = {}
    with concurrent.futures.ThreadPoolExecutor(max_workers=NCPU) as ex:
        for res, k in ex.map(one, range(len(bins))):
            if not res.ok:
                raise MachineryFailure("trace validation failed on bin %d: %s %s\n%s" % (k, res.error, res.violated, res.out[-3000:]))
            ctx.cov["states"] += res.distinct
            ctx.cov["transitions"] += res.generated
            nrej = 0
            for ln in res.out.splitlines():
                m = tlc._RE_REJECT.match(ln)  # pylint: disable=protected-access
                if m:
                    rejects.setdefault(int(m.group(2)), m.group(3))
                    nrej += 1
            ctx.validated(len(bins[k]) - nrej)
    shutil.rmtree(tdir, ignore_errors=True)
    return rejects


# ------------------------------------------------------------------------------------------------------------------
# model runs and stimuli derived from them
# ------------------------------------------------------------------------------------------------------------------
GATES = ["gzip_mtime", "ns_time", "model_abspath", "assert_abspath", "model_cache", "pp_carry", "include_order", "html_order", "filter_owner",
         "template_dir_abspath", "template_dir_spelling", "stale_tail", "process_memo_keyed_too_coarsely"]
AMBIENT_GATES = ("gzip_mtime", "ns_time", "model_abspath", "assert_abspath", "template_dir_abspath", "template_dir_spelling", "stale_tail",
                 "process_memo_keyed_too_coarsely")
ONE_SHAPE_GATES = ("template_dir_abspath", "template_dir_spelling", "stale_tail", "process_memo_keyed_too_coarsely")


def _tlc(ctx, cfg, workers):
    """One TLC run of GenRepro.tla.  A JVM killed from outside (no verdict and no error text: e.g. the OOM killer of a shared
    machine) is retried; a verdict never is."""
    for _attempt in range(3):
        res = tlc.run_tlc(SPECS / "GenRepro.tla", SPECS / (cfg + ".cfg"), ctx.scratch, workers=workers, timeout=5400, xmx="4g")
        if res.ok or res.error is not None or res.violated is not None:
            break
    return res


def run_models(ctx):
    q = ctx.quick
    mt = 3 if q else 4
    sfx = "" if q else "4"
    base = "MaxTypes=%d MaxNested=3 Langs={c,cpp,py,html}" % mt
    plan = collections.OrderedDict([
        ("design", ("GenRepro" if q else "GenRepro_4", NCPU,
                    base + " Audits=%s all gates closed, unsorted walk, run 2 varies clock x loc x cwd" % ("{F}" if q else "{F,T}"))),
        ("sorted", ("GenRepro_sorted" + sfx, 2, base + " gates model_cache+pp_carry OPEN but SortedWalk=TRUE (the alternative repair)")),
        ("neg", ("GenRepro_neg", 1, "")),
        ("audit", ("GenRepro_audit", 1, "")),
        ("wit_amb", ("GenRepro_wit_amb", 1, "one ambient gate open at a time, MaxTypes=2 MaxNested=1")),
        ("hist", ("GenRepro_hist", 1, "MaxTypes=2 MaxNested=2, all gates closed, run 2 varies output-directory state x process history")),
        ("wit_hist", ("GenRepro_wit_hist", 1, "gates stale_tail / process_memo_keyed_too_coarsely open one at a time, MaxTypes=2 MaxNested=1")),
        ("wit_order", ("GenRepro_wit_order" + sfx, 1, "one order-borne gate open at a time, MaxTypes=%d, same clock/loc/cwd in both runs" % mt)),
        ("orders", ("GenRepro_orders" + sfx, 1, "possible creation orders per shape (c: no namespace files, py: with), MaxTypes=%d" % mt)),
    ])
    with concurrent.futures.ThreadPoolExecutor(max_workers=len(plan)) as ex:
        results = dict(zip(plan, ex.map(lambda k: _tlc(ctx, plan[k][0], plan[k][1]), plan)))
    for k in ("design", "sorted", "hist", "wit_amb", "wit_hist", "wit_order", "orders"):
        res = results[k]
        if not res.ok:
            raise MachineryFailure("model GenRepro/%s did not pass: %s %s\n%s" % (plan[k][0], res.error, res.violated, res.out[-3000:]))
        res.constants = plan[k][2]
        ctx.add_model(res, plan[k][0] + ".cfg")
    neg, neg2 = results["neg"], results["audit"]
    if neg.violated != "Refines":
        raise MachineryFailure("negative control: the design with an open gate was not refuted (%s / %s)" % (neg.error, neg.violated))
    if neg2.violated != "SameEvenWithAudit":
        raise MachineryFailure("negative control: auditing information did not make the two results differ in the model (%s / %s)" % (neg2.error, neg2.violated))
    ctx.cov["model_negative_control"] = ["gate model_cache open, unsorted walk: invariant Refines refuted after %d states" % neg.distinct,
                                         "embed_auditing_info: results differ (SameEvenWithAudit refuted after %d states) while Refines holds" % neg2.distinct]
    wit = results["wit_amb"].json_lines() + results["wit_hist"].json_lines() + results["wit_order"].json_lines()
    orders = results["orders"].json_lines()
    by_gate = collections.Counter(g for w in wit for g in w["gates"])
    missing = [g for g in GATES if not by_gate[g]]
    if missing:
        raise MachineryFailure("the model has no behaviour in which gate(s) %r let ambient state reach content (vacuous flow)" % missing)
    ctx.cov["model_witnesses_per_gate"] = dict(by_gate)
    return wit, orders


def shape_key(shape):
    return json.dumps(shape, sort_keys=True, separators=(",", ":"))


def order_key(order):
    """creation order without support files, as comparable tuples"""
    return tuple((o["k"], tuple(o["ns"]), o["t"]) for o in order if o["k"] != "sup")


def observed_order_key(order_rel):
    res = []
    inv = {v: k for k, v in NS_NAMES.items()}
    for rel in order_rel:
        parts = rel.split("/")
        if parts[0] != ROOT:
            continue
        ns = tuple(inv[x] for x in parts[1:-1])
        m = re.match(r"T(\d+)_1_0\.", parts[-1])
        res.append(("type", ns, int(m.group(1))) if m else ("ns", ns, 0))
    return tuple(res)


# which real option set exposes a gate if it were open
GATE_STIMULUS = {
    "gzip_mtime": [("py", [])], "ns_time": [("py", [])], "model_abspath": [("py", [])], "model_cache": [("py", [])],
    "assert_abspath": [("c", []), ("cpp", [])], "include_order": [("c", []), ("cpp", [])], "html_order": [("html", [])],
    "pp_carry": [("c", ["--templates", "{tpl}"]), ("py", ["--templates", "{tpl}"]), ("cpp", ["--templates", "{tpl}", "--pp-max-emptylines", "1"]),
                 ("html", ["--templates", "{tpl}", "--pp-max-emptylines", "1"])],
    "filter_owner": [("c", []), ("py", []), ("html", []), ("cpp", [])],
    # user template directories: a byte-identical copy of the target's built-in set, and the probe that prints every nunavut.* global
    "template_dir_abspath": [(l, ["--templates", t]) for l in ("c", "cpp", "py", "html") for t in ("{btpl}", "{tplg}")],
    "template_dir_spelling": [(l, ["--templates", t]) for l in ("c", "cpp", "py", "html") for t in ("{btpl}", "{tplg}")],
    "stale_tail": [(l, []) for l in ("c", "cpp", "py", "html")],
    "process_memo_keyed_too_coarsely": [("c", []), ("cpp", [])],
}


def model_stimuli(ctx, camp, wit, orders):
    """spec -> code.  Returns the number of stimuli executed."""
    q = ctx.quick
    predicted = collections.defaultdict(set)     # (nsTypes, shape) -> set of order keys
    for o in orders:
        predicted[(o["lang"] == "py", shape_key(o["shape"]))].add(order_key(o["order"]))
    ctx.cov["model_predicted_orders"] = {"shapes": len(predicted), "orders": sum(len(v) for v in predicted.values())}

    # (a) ambient gates: one stimulus per (gate, target, set of differing dimensions), two shapes each
    amb_w = collections.OrderedDict()
    ord_w = collections.OrderedDict()
    for w in wit:
        g = w["gates"][0]
        sk = shape_key(w["shape"])
        if g in AMBIENT_GATES:
            amb_w.setdefault((g, w["lang"], tuple(sorted(w["dims"]))), collections.OrderedDict()).setdefault(sk, w)
        elif not w["dims"]:
            ord_w.setdefault((g, w["lang"], w["shape"]["dep"]), collections.OrderedDict()).setdefault(sk, w)
    specs, expect = [], []
    shape_inputs_cache = {}

    def inputs_for(shape):
        sk = shape_key(shape)
        if sk not in shape_inputs_cache:
            shape_inputs_cache[sk] = camp.new_inputs(shape_inputs, shape)
        return shape_inputs_cache[sk]

    opts_cache = {}

    def opts_for(lang, args):
        k = (lang, tuple(args))
        if k not in opts_cache:
            opts_cache[k] = camp.new_opts(lang, "cli", args)
        return opts_cache[k]

    pairs = collections.OrderedDict()   # (inputs.id, opts.id) -> (inputs, opts, [variants], [why])
    for (g, lang, dims), shapes in amb_w.items():
        sks = list(shapes)
        chosen = [sks[0], sks[-1]] if len(sks) > 1 else sks
        if not q:
            chosen = sks[:: max(1, len(sks) // 6)]
        if g in ONE_SHAPE_GATES:
            chosen = sks[-1:] if q else [sks[0], sks[-1]]
        for sk in chosen:
            w = shapes[sk]
            for (l2, args) in GATE_STIMULUS[g]:
                if l2 != lang:
                    continue
                i, o = inputs_for(w["shape"]), opts_for(lang, args)
                var = ambient(clock=CLOCKS[0] if "clock" in dims else T0, tz="Asia/Tokyo" if "clock" in dims else "",
                              loc="B" if "loc" in dims else "A", cwd="input" if "cwd" in dims else "work",
                              spell="rel" if ("cwd" in dims and g.startswith("template_dir")) else "abs",
                              outst="stale" if "outst" in dims else "empty", hist="prior" if "hist" in dims else "none")
                p = pairs.setdefault((i.id, o.id), (i, o, [], []))
                if var not in p[2]:
                    p[2].append(var)
                p[3].append(g)
    n_amb = sum(len(p[2]) for p in pairs.values())
    # (b) order-borne gates: PYTHONHASHSEED 0..K
    seeds = list(range(1, ctx.pick(5, 9)))
    per = ctx.pick(2, 12)
    order_pairs = collections.OrderedDict()
    for (g, lang, dep), shapes in ord_w.items():
        sks = sorted(shapes, key=lambda s: (-len(json.loads(s)["types"]), s))
        n = per
        if g == "filter_owner":     # any run under another hash seed is a stimulus for this gate: one shape per target is plenty
            n = 1 if dep == "none" else 0
        step = max(1, len(sks) // max(n, 1))
        for sk in sks[::step][:n]:
            w = shapes[sk]
            for (l2, args) in GATE_STIMULUS[g]:
                if l2 != lang:
                    continue
                i, o = inputs_for(w["shape"]), opts_for(lang, args)
                p = pairs.setdefault((i.id, o.id), (i, o, [], []))
                for s in seeds:
                    var = ambient(seed=s)
                    if var not in p[2]:
                        p[2].append(var)
                p[3].append(g)
                order_pairs[(i.id, o.id)] = (w["shape"], lang, args)
    specs = [(i, o, ambient(), vs) for (i, o, vs, _why) in pairs.values()]
    camp.groups(specs)
    ctx.cov["model_stimuli"] = {"pairs": len(pairs), "runs": sum(1 + len(p[2]) for p in pairs.values()), "ambient_variants": n_amb,
                                "hash_seeds": [0] + seeds}
    for (iid, oid), (i, o, vs, why) in pairs.items():
        ctx.distinct("m|%s|%s|%s" % (o.label, ",".join(sorted(set(why))), shape_key(i.shape)), nontrivial=True)
    # I-layer: observed creation orders must be among the predicted ones; how much of the predicted set was seen
    seen_orders, pred_orders, varied, could_vary = 0, 0, 0, 0
    for (iid, oid), (shape, lang, args) in order_pairs.items():
        ns_types = lang in ("py", "html")
        pred = predicted.get((ns_types, shape_key(shape)))
        obs = {observed_order_key(o) for o in camp.orders.get((iid, oid), ())}
        if not pred or not obs:
            continue
        extra = obs - pred
        if extra:
            ctx.drift("creation order %r of shape %s (%s) is not among the %d orders GenRepro.tla predicts" % (sorted(extra)[0], shape_key(shape), lang, len(pred)))
        seen_orders += len(obs & pred)
        pred_orders += len(pred)
        if len(pred) > 1:
            could_vary += 1
            varied += len(obs) > 1
    ctx.cov["walk_order"] = {"pairs_with_several_predicted_orders": could_vary, "pairs_where_the_hash_seed_changed_the_order": varied,
                             "predicted_orders": pred_orders, "observed_predicted_orders": seen_orders}
    return len(pairs)


# ------------------------------------------------------------------------------------------------------------------
# code -> spec campaign
# ------------------------------------------------------------------------------------------------------------------
def variants(rng, n_seeds, rich, front):
    """ambient variants of the reference run `ambient()`; single-dimension first, then combinations"""
    v = [ambient(clock=CLOCKS[0]), ambient(clock=T0, tz="Asia/Tokyo"), ambient(loc="B"), ambient(cwd="root"), ambient(spell="rel"),
         ambient(cwd="base", spell="rel"), ambient(seed=1), ambient(outloc="out"), ambient(proc="worker")]
    if front == "cli":
        v.append(ambient(proc="plain", clock=None))
    v += [ambient(outst="stale"), ambient(hist="prior")]
    v += [ambient(seed=s) for s in range(2, 2 + n_seeds)]
    v += [ambient(clock=CLOCKS[1], tz="America/St_Johns", loc="B", cwd="input", spell="rel", seed=3 + n_seeds, outloc="out"),
          ambient(proc="worker", seed=7, clock=CLOCKS[2], loc="C", cwd="base", spell="rel")]
    if rich:
        v += [ambient(loc="C"), ambient(cwd="input", spell="rel"), ambient(cwd="base"),
              ambient(proc="worker", seed=5, loc="B"), ambient(proc="worker", seed=5, loc="B", clock=CLOCKS[1])]
        if MY_SEED is not None:
            v += [ambient(proc="inproc", seed=MY_SEED), ambient(proc="inproc", seed=MY_SEED, clock=CLOCKS[2], loc="C", cwd="root")]
    return v


def random_campaign(ctx, camp):
    rng = ctx.rng
    q = ctx.quick
    sets = [camp.new_inputs(fixed_inputs)]
    for k in range(ctx.pick(2, 6)):
        for _attempt in range(50):
            cand = rand_inputs(len(camp.inputs) + 1, rng, rng.randint(5, 9) if q else rng.randint(6, 16), rng.randint(3, 5) if q else rng.randint(3, 7))
            if valid_inputs(ctx, cand):
                break
        else:
            raise MachineryFailure("could not draw a valid random namespace set")
        camp.inputs[cand.id] = cand
        sets.append(cand)
    for root, files in repo_inputs(ctx):
        cand = Inputs(len(camp.inputs) + 1, "repo:" + root, files, root=root)
        if valid_inputs(ctx, cand):
            camp.inputs[cand.id] = cand
            sets.append(cand)
        else:
            ctx.not_exercised("repository fixture %s is not accepted by PyDSDL offline" % root)
    specs = []
    for n, i in enumerate(sets):
        for lang in LANGS:
            cli = CLI_OPTION_SETS[lang]
            chosen = cli if (not q or n == 0) else [cli[0]] + rng.sample(cli[1:], 1)
            for k, args in enumerate(chosen):
                rich = (k == 0 and (n == 0 or not q))
                specs.append((i, camp.new_opts(lang, "cli", args), ambient(), variants(rng, ctx.pick(1, 4), rich, "cli") if (k == 0 or not q) else
                              variants(rng, 1, False, "cli")[:8]))
            apis = API_OPTION_SETS[lang] if (not q or n == 0) else API_OPTION_SETS[lang][:1]
            for api in apis:
                ref = ambient(proc="worker")
                vs = [ambient(proc="worker", clock=CLOCKS[0]), ambient(proc="worker", loc="B"), ambient(proc="worker", cwd="base", spell="rel"),
                      ambient(proc="worker", seed=2),
                      ambient(proc="worker", seed=4, loc="C", cwd="root", clock=CLOCKS[1], spell="rel")]
                if MY_SEED is not None:
                    vs.insert(4, ambient(proc="inproc", seed=MY_SEED))
                # a fresh process in which the run with other options comes first; and the same inside the long-lived worker
                vs += [ambient(proc="sub", hist="prior"), ambient(proc="worker", outst="stale"), ambient(proc="worker", hist="prior")]
                specs.append((i, camp.new_opts(lang, "api", api=api), ref, vs if (n == 0 or not q) else vs[:4]))
    camp.groups(specs)
    for (i, o, _r, vs) in specs:
        ctx.distinct("r|%s|%s" % (o.label, i.name))
    return specs


def audit_campaign(ctx, camp):
    """--embed-auditing-info: the property is silent; results may differ and must not alarm.  They MUST differ when clock and
    location differ: that shows the ambient variation really reaches the generator (non-vacuity of the whole check)."""
    fx = [x for x in camp.inputs.values() if x.name == "fixed"]
    i = fx[0] if fx else camp.new_inputs(fixed_inputs)
    specs = []
    for lang in ("c", "cpp", "py"):
        specs.append((i, camp.new_opts(lang, "cli", [], audit=True), ambient(), [ambient(clock=CLOCKS[0]), ambient(loc="B"), ambient(seed=1), ambient()]))
    before = camp.audit_diffs
    camp.groups(specs)
    effective = {}
    for rid, (inp, o, amb, ref, _e) in camp.meta.items():
        if o.audit and ref is not None:
            differs = camp.records[rid]["files"] != camp.records[ref]["files"]
            d = "+".join(amb_dims(camp.meta[ref][2], amb)) or "none"
            effective.setdefault(d, []).append(differs)
    ctx.cov["auditing_campaign"] = {"runs": camp.audit_runs, "runs_differing_from_reference": camp.audit_diffs - before,
                                    "differs_by_dimension": {k: sum(v) for k, v in effective.items()}}
    ctx.selftest("patched clock reaches the generator (auditing output changes with the clock)", all(effective.get("clock", [False])))
    ctx.selftest("other absolute location reaches the generator (auditing output changes with the location)", all(effective.get("location", [False])))



# ------------------------------------------------------------------------------------------------------------------
# hidden inputs: environment variables the tool's own sources read
# ------------------------------------------------------------------------------------------------------------------
_RE_ENVREAD = re.compile(r"""(?:\benviron\s*(?:\.\s*get\s*\(|\[)|\bgetenv\s*\()\s*['"]([A-Za-z_][A-Za-z0-9_]*)['"]""")
_ENV_IGNORED = {"HOME", "PATH", "TZ", "TMPDIR", "TEMP", "TMP", "PYTHONHASHSEED", "LANG", "LC_ALL", "TERM", "NO_COLOR", "COLUMNS", "LINES"}
_ENV_DEFS = {"eroot/na/A.1.0.dsdl": "uint8 x\nfloat16[<=3] y\n@sealed\n",
             "eroot/na/B.1.0.dsdl": "eroot.na.A.1.0[<=2] a\nbool b\n\n\n# doc\nuint8 K = 3\n@extent 64 * 8\n",
             "eroot/U.1.0.dsdl": "@union\neroot.na.A.1.0 a\nuint16 n\n@sealed\n",
             "eroot/S.1.0.dsdl": "eroot.U.1.0 q\n@sealed\n---\nuint8 r\n@sealed\n"}
# earlier runs of the history: other whitespace control, other language options, other target
_ENV_PRE = [["--target-language", "c", "--trim-blocks", "--lstrip-blocks"],
            ["--target-language", "c", "--enable-serialization-asserts", "--target-endianness", "big", "--omit-float-serialization-support"],
            ["--target-language", "cpp", "--experimental-languages", "--language-standard", "c++17-pmr"],
            ["--target-language", "py", "--pp-max-emptylines", "0"]]
_ENV_FINAL = {"c": ["--target-language", "c"], "cpp": ["--target-language", "cpp", "--experimental-languages"], "py": ["--target-language", "py"]}


def env_names_read_by_the_tool():
    names = {}
    for f in sorted((REPO / "src" / "nunavut").rglob("*.py")):
        try:
            text = f.read_text(encoding="utf-8", errors="replace")
        except OSError:
            continue
        for m in _RE_ENVREAD.finditer(text):
            if m.group(1) not in _ENV_IGNORED:
                names.setdefault(m.group(1), str(f.relative_to(REPO)))
    return names


def env_probe(ctx, replay_only=None):
    """An environment variable that the tool reads is an input nobody lists.  It may legitimately select behaviour (then it is an option: runs that
    agree on it must agree on the output), but it must not open a channel between runs: for every variable NAME found in the tool's own sources and two
    kinds of value (a switch `1`, a scratch directory - what a cache or a state file would be given), the run `generate with default options` is executed
    (a) after a history of four other runs (other whitespace control, other language options, other targets) that had the variable too, and (b) alone, with
    the variable naming a FRESH directory (the location of a directory is an ambient dimension of C07) resp. the same switch value.  Inputs, options and
    environment agree, only the history differs: the T-layer's history variable `first` must see identical digests (repro.digest / repro.paths)."""
    names = env_names_read_by_the_tool()
    ctx.cov["environment_variables_read_by_the_tool"] = names
    if not names:
        return 0
    base = ctx.scratch / "envprobe"
    shutil.rmtree(base, ignore_errors=True)
    for rel, text in _ENV_DEFS.items():
        (base / "in" / rel).parent.mkdir(parents=True, exist_ok=True)
        (base / "in" / rel).write_text(text)
    env0 = dict(os.environ, PYTHONPATH=str(REPO / "src"), PYTHONDONTWRITEBYTECODE="1", PYTHONHASHSEED="0")

    def nnvg(args, out, env):
        p = subprocess.run([sys.executable, "-m", "nunavut"] + args + ["-O", str(out), str(base / "in" / "eroot")], cwd=str(base), env=env,
                           capture_output=True, text=True, timeout=600)
        return {"rc": p.returncode, "files": digest_files(out) if p.returncode == 0 and os.path.isdir(out) else {}, "order": [], "err": p.stderr[-300:]}

    def digest_files(out):
        res = {}
        for b, _d, files in os.walk(out):
            for f in files:
                q = os.path.join(b, f)
                with open(q, "rb") as fh:
                    res[os.path.relpath(q, out).replace(os.sep, "/")] = hashlib.sha256(fh.read()).hexdigest()
        return res

    class _Id:
        def __init__(self, i, lang="c"):
            self.id, self.audit, self.lang = i, False, lang

    jobs = []
    for vi, var in enumerate(sorted(names)[:8]):
        for ki, kind in enumerate(("dir", "switch")):
            for li, lang in enumerate(("c", "cpp", "py")):
                jobs.append((var, kind, lang, 970000 + 100 * vi + 10 * ki + li))
    if replay_only:
        jobs = [j for j in jobs if [j[0], j[1], j[2]] == replay_only]

    def one(job):
        var, kind, lang, oid = job
        d = base / ("%s-%s-%s" % (var, kind, lang))
        va = str(d / "stateA") if kind == "dir" else "1"
        vb = str(d / "stateB") if kind == "dir" else "1"
        env_a, env_b = dict(env0, **{var: va}), dict(env0, **{var: vb})
        pre = [nnvg(a, d / ("pre%d" % i), env_a)["rc"] for i, a in enumerate(_ENV_PRE)]
        after = nnvg(_ENV_FINAL[lang], d / "outA", env_a)
        alone = nnvg(_ENV_FINAL[lang], d / "outB", env_b)
        return job, pre, after, alone

    with concurrent.futures.ThreadPoolExecutor(max_workers=NCPU) as ex:
        results = list(ex.map(one, jobs))
    records, meta = [], {}
    for k, (job, pre, after, alone) in enumerate(results):
        var, kind, lang, oid = job
        if after["rc"] != 0 or alone["rc"] != 0:
            ctx.not_exercised("environment probe %s=%s (%s): a run failed (%s)" % (var, kind, lang, (after["err"] or alone["err"])[-120:]))
            continue
        ctx.count(2 + len(_ENV_PRE))
        ctx.distinct("env|%s|%s|%s" % (var, kind, lang))
        for j, res in enumerate((alone, after)):
            rid = 9700000 + 10 * k + j
            records.append(make_record(rid, _Id(970000), _Id(oid, lang), {"env": var, "value": kind, "hist": "none" if j == 0 else "prior"}, res))
            meta[rid] = (job, pre, j)
    if not records:
        return 0
    rej = validate(ctx, records)
    for rid, clause in rej.items():
        job, pre, j = meta[rid]
        var, kind, lang, _ = job
        if clause.startswith("drift"):
            continue
        ctx.violation("C07|%s|%s|environment-variable-history" % (clause, lang),
                      "with the environment variable %s (read in %s) set to a %s, `nnvg %s` gives other files after a history of %d other runs with the same "
                      "variable than alone: the variable opens a channel between runs" % (var, names[var], "scratch directory" if kind == "dir" else "switch value 1",
                                                                                       " ".join(_ENV_FINAL[lang]), len(pre)),
                      {"mode": "envprobe", "job": [var, kind, lang], "pre_rc": pre})
    return len(records)


def _phase(ctx, what):
    import time
    print("C07 [%6.1fs] %s" % (time.time() - ctx.t0, what))
    sys.stdout.flush()


def tree_digest():
    """digest of the generator's sources: the tree under test must not change while runs are being compared"""
    h = hashlib.sha256()
    for f in sorted((REPO / "src" / "nunavut").rglob("*")):
        if f.is_file() and "__pycache__" not in f.parts:
            h.update(str(f.relative_to(REPO)).encode())
            h.update(f.read_bytes())
    return h.hexdigest()


def run(ctx):
    tree = tree_digest()
    wit, orders = run_models(ctx)
    _phase(ctx, "models checked, %d witnesses, %d predicted orders" % (len(wit), len(orders)))
    camp = Campaign(ctx)
    model_stimuli(ctx, camp, wit, orders)
    _phase(ctx, "model stimuli executed: %d runs" % len(camp.records))
    random_campaign(ctx, camp)
    _phase(ctx, "random campaign executed: %d runs" % len(camp.records))
    audit_campaign(ctx, camp)
    if camp.failed_baselines:
        ctx.cov["option_sets_not_applicable"] = camp.failed_baselines[:20]
        if len(camp.failed_baselines) > len(camp.opts) // 3:
            raise MachineryFailure("too many reference runs failed: %r" % camp.failed_baselines[:3])
    if tree_digest() != tree:
        raise MachineryFailure("the tree under test (%s) changed while the runs were executed: results are not comparable, run again" % REPO)
    ctx.cov["tree_digest"] = tree[:16]
    rejects = camp.judge()
    _phase(ctx, "trace validated: %d records, %d rejected" % (len(camp.records), len(rejects)))
    nenv = env_probe(ctx)
    _phase(ctx, "environment-variable probe: %d records" % nenv)

    # binding self-tests: a reference record against a copy of itself is accepted; with one recorded field corrupted the T-layer
    # must reject exactly that record with the right clause
    # The self-test is about the T-layer binding, not about the tree: it takes a recorded run where one is suitable and a synthetic
    # record otherwise (a tree on which no run delivers several files or an observable creation order is judged by its verdicts).
    def rich(r, need_order):
        return (not r["audit"] and len(r["files"]) > 3 and len({n["ns"] for n in r["nodes"]}) > 3 and (len(r["order"]) > 3 or not need_order))

    paths = ["vroot/T1_1_0.h", "vroot/na/T1_1_0.h", "vroot/na/nb/T1_1_0.h", "vroot/nc/T1_1_0.h", "vroot/nc/T2_1_0.h"]
    syn = {"id": 0, "inputs": 0, "opts": 0, "audit": False, "files": [{"p": [ord(c) for c in p], "d": limbs(sha(p))} for p in paths]}
    syn["par"], syn["nodes"], syn["order"] = tree_of(paths, paths)      # sorted paths of this layout are a pre-order walk
    cands = [r for r in camp.records if rich(r, True)] or [r for r in camp.records if rich(r, False)]
    ref = cands[len(cands) // 2] if cands else syn
    oref = ref if len(ref["order"]) > 3 else syn
    if ref is syn or oref is syn:
        ctx.cov["selftest_record"] = "synthetic%s (no recorded run was suitable)" % ("" if ref is syn else " for the creation order")
    if not any(r["order"] for r in camp.records):
        ctx.not_exercised("no run's file creation order could be observed (the generator does not open its outputs through open()/os.open()): "
                          "the implementation-level order clause was not applied")

    def tampered(f, base=None):
        base = base or ref
        v = json.loads(json.dumps(base))
        f(v)
        return validate(ctx, [dict(base, id=0), dict(v, id=1)]).get(1, "")

    def flip(v):
        v["files"][1]["d"][3] ^= 1

    def drop(v):
        v["files"].pop()
        v["nodes"], v["order"], v["par"] = [], [], []

    def reorder(v):
        v["order"] = list(reversed(v["order"]))

    ctx.selftest("an identical repetition is accepted", tampered(lambda v: None) == "")
    ctx.selftest("one flipped digest bit is rejected as repro.digest", tampered(flip) == "repro.digest")
    ctx.selftest("one dropped path is rejected as repro.paths", tampered(drop) == "repro.paths")
    ctx.selftest("a reversed creation order is flagged as drift.order (and nothing else)", tampered(reorder, oref) == "drift.order")
    ctx.cov["traces_validated_against_impl"] -= 5   # the self-test records are not executions of the implementation

    ctx.cov["earlier_runs_for_history"] = {"succeeded": camp.preludes[True], "failed": camp.preludes[False]}
    if camp.preludes[False] > camp.preludes[True]:
        ctx.not_exercised("most of the earlier runs that set up output-directory state / process history failed (%d of %d)"
                          % (camp.preludes[False], camp.preludes[False] + camp.preludes[True]))
    ctx.cov["hash_seeds_in_force"] = {"seeds": sorted(camp.strhash), "distinct_str_hashes": len({h for v in camp.strhash.values() for h in v})}
    ctx.selftest("PYTHONHASHSEED reaches the interpreters (one str hash per seed, different between seeds)",
                 all(len(v) == 1 for v in camp.strhash.values()) and len({h for v in camp.strhash.values() for h in v}) >= min(3, len(camp.strhash)))
    n_orders = sum(1 for v in camp.orders.values() if len(v) > 1)
    if not n_orders:
        ctx.not_exercised("no (inputs, options) pair showed more than one file creation order: PYTHONHASHSEED did not change the walk "
                          "(sorted walk in the code, or no sibling namespaces)")
    ctx.cov["pairs_with_more_than_one_creation_order"] = n_orders
    ctx.cov["runs"] = {"total": len(camp.records), "by_process": dict(collections.Counter(camp.meta[r][2]["proc"] for r in camp.meta)),
                       "by_target": dict(collections.Counter(camp.meta[r][1].lang for r in camp.meta)),
                       "by_front": dict(collections.Counter(camp.meta[r][1].front for r in camp.meta)),
                       "input_sets": len(camp.inputs), "option_sets": len(camp.opts),
                       "with_recorded_creation_order": sum(1 for r in camp.records if r["order"])}
    some = [r for r in camp.records if camp.meta[r["id"]][3] is not None][:2]
    for r in some:
        inp, o, amb, ref_rid, _e = camp.meta[r["id"]]
        ctx.sample({"direction": "code->spec", "inputs": inp.name, "options": o.label, "reference_ambient": camp.meta[ref_rid][2], "ambient": amb,
                    "files": len(r["files"]), "first_file": "".join(map(chr, r["files"][0]["p"])), "verdict": rejects.get(r["id"], "ok")})
    if wit:
        w = wit[len(wit) // 2]
        ctx.sample({"direction": "spec->code", "model_witness": {k: w[k] for k in ("gates", "lang", "dims", "shape", "clause", "differ")}})
    ctx.cov["rule"] = ("spec->code: every (gate, target, ambient dimensions) witness of GenRepro.tla with an ambient gate open and %d shapes per "
                       "(order-borne gate, target) run through the real CLI under the two ambient states resp. PYTHONHASHSEED 0..%d; code->spec: "
                       "fixed + seeded random namespace sets x 4 targets x CLI/API option sets (incl. user template directories that are byte-identical "
                       "copies of each target's built-in template set / support templates, and a probe template printing every nunavut.* global, "
                       "all moved and re-spelled with the inputs) x ambient variants (clock+TZ, hash seed, fresh "
                       "subprocess / plain `python -m nunavut` / long-lived worker / the check's interpreter, cwd, relative spelling, three "
                       "absolute locations of different length, output elsewhere, output directory holding the longer output of an earlier run, an earlier "
                       "run with other language options in the same process); distinct = (front end, target, options, input set[, gates]); "
                       "non-trivial = every pair is run under at least 3 ambient states" % (ctx.pick(2, 12), ctx.pick(4, 8)))
    ctx.cov["exhaustive"] = False
    ctx.assumptions += [
        "TLC and the GenReproP / GenRepro / GenReproTrace specifications",
        "sha256 collisions do not occur; a file is what os.walk + read() of the output directory returns",
        "the launcher's clock patch (time.time, datetime.datetime.utcnow/now/today) covers every clock the generator reads "
        "(self-tested through --embed-auditing-info; plain `python -m nunavut` runs with the real clock are part of every CLI group)",
        "one Python interpreter (3.12), one PyDSDL, one platform: the interpreter version is 'tool version' (DESIGN 3.1 item 7)",
        "ambient dimensions varied: clock, TZ, PYTHONHASHSEED, process, cwd, path spelling, absolute location; NOT varied: locale, umask, "
        "file system type, user",
    ]
    ctx.not_exercised("user templates that iterate Namespace.get_nested_namespaces() themselves (the API hands out a set iterator; whether "
                      "that is the template's or the tool's responsibility is not fixed by the property)")


def replay(ctx, case):
    if case.get("mode") == "envprobe":
        env_probe(ctx, replay_only=list(case["job"]))
        return
    camp = Campaign(ctx)
    i = Inputs.from_json(1, case["inputs"])
    camp.inputs[1] = i
    o = Opts.from_json(1, case["opts"])
    camp.opts[1] = o
    ref, var = dict(case["ref"]), dict(case["var"])
    for a in (ref, var):
        if a["proc"] == "inproc" and a["seed"] != MY_SEED:
            a["proc"] = "worker"
    camp.groups([(i, o, ref, [var])])
    if camp.failed_baselines:
        raise MachineryFailure("reference run failed: %r" % camp.failed_baselines)
    camp.judge()
