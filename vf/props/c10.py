"""C10 - per-type output ignores sibling types, processing order and earlier runs.

Model:      specs/GenSiblingsP.tla (P: the file is a function of <type, what it refers to, templates, options> -- a memo),
            specs/GenSiblings.tla (I: process-/object-wide state of the generator: UniqueNameGenerator singleton, the
            LimitEmptyLines counter, Jinja compile-time folding and import-module cache, the lru_cache'd dependency builder
            with the key PyDSDL equality really gives it, the TokenEncoder.strop memo and the path tokens stropped for every
            type of a run while the namespace tree is built, state a template filter keeps between files (e.g. the cached
            TextWrapper objects behind the C++ block_comment filter), a first-come registry of names DERIVED from a type (macro /
            snake casing, separators dropped, truncation, stropping: derivations under which two distinct types of one run collide)
            that hands out ordinals; actions StartRun/Compile/Render/Post), TLC proves I => P for the
            repaired design and refutes each "as found" mechanism (negative controls).
spec->code: (a) every violating history TLC finds in the negative controls is a predicted-defect stimulus, (b) every
            complete history of the repaired model (all subsets x orders x reuse modes) comes with the expected abstract
            files; both are replayed through the real DSDLCodeGenerator with "mirror" user templates whose lines map 1:1 to
            the model's abstract lines; compared after every file.
code->spec: random DSDL namespaces (nested namespaces, several versions of one type with different dependencies, unions,
            services, twins for size-preserving edits, fields/constants spelled exactly like a sibling's namespace directory
            or file stem: C reserved-pattern words, target keywords, plain words; header / field / constant documentation that
            is short, longer than the wrap width, has indented list lines, blank comment lines, escaped characters; siblings that
            do not refer to each other and whose names collide under a derivation: FooBar / Foo_Bar, foo_bar.Baz / foo.bar_Baz,
            Ver.1.10 / Ver.11.0 / Ver1.1.0, a long common prefix, keyword / _keyword / keyword_, Svc / Svc_Request) through the
            built-in c/cpp/py/html templates and mirror templates:
            whole namespace / dependency-closed subsets / permuted order / PYTHONHASHSEED / reused LanguageContext /
            reused generator object with other generate_all flags / edited definitions; every written file is logged by a
            harness FilePostProcessor and judged by specs/GenSiblingsTrace.tla (clause sib.digest).
All runs of one scenario happen in ONE interpreter (a child forked from a pristine worker, so a scenario is self-contained);
a part of the scenarios is answered again by a second interpreter with another hash seed (the confusable-name family there with
its runs in the opposite order: state that lives as long as the process).
"""
import difflib
import hashlib
import json
import os
import pathlib
import re
import shutil
import subprocess
import sys
import traceback

LANGS = ("c", "cpp", "py", "html")
EXT = {"c": ".h", "cpp": ".hpp", "py": ".py", "html": ".html"}


def _sha(b):
    if isinstance(b, str):
        b = b.encode("utf-8", "surrogatepass")
    return hashlib.sha256(b).hexdigest()


# =====================================================================================================================
# Part 1 - runs inside the worker / scenario child (imports nunavut lazily; no dependency on vf.core)
# =====================================================================================================================

# names a template derives from the type it is rendered for (abstract line "G"): the target's own name filters
DERIVED_EXPR = {
    "c": [("full_reference_name", "T | full_reference_name"), ("short_reference_name", "T | short_reference_name"), ("macrofy", "T.full_name | macrofy"),
          ("to_snake_case", "T.full_name | to_snake_case"), ("to_screaming_snake_case", "T.full_name | to_screaming_snake_case")],
    "cpp": [("full_reference_name", "T | full_reference_name"), ("short_reference_name", "T | short_reference_name"), ("full_macro_name", "T | full_macro_name")],
    "py": [("full_reference_name", "T | full_reference_name"), ("short_reference_name", "T | short_reference_name")],
    "html": [("tag_id", "T | tag_id"), ("url_from_type", "T | url_from_type")],
}


def derived_filters(lang):
    """the name filters of DERIVED_EXPR the target language of this tree really has"""
    import importlib

    mod = importlib.import_module("nunavut.lang.%s" % lang)
    res = [n for n, _e in DERIVED_EXPR[lang] if callable(getattr(mod, "filter_" + n, None))]
    for other in ("c", "cpp", "py"):
        try:
            if other != lang and callable(getattr(importlib.import_module("nunavut.lang.%s" % other), "filter_to_template_unique_name", None)):
                res.append("xuniq_" + other)
        except ImportError:
            pass
    return res


def mirror_files(shape, lang, docs=False, have=None):
    """The user template set whose output lines map 1:1 to the abstract lines of GenSiblings.tla."""
    uf = "make_unique" if lang == "html" else "to_template_unique_name"
    s = "{{ c10probe() }}" + "\n" * shape["lead"]
    s += "T {{ T.full_name }}.{{ T.version.major }}.{{ T.version.minor }}\n"
    if docs:
        # the documentation of the type and of its attributes through the target's own comment filter (one abstract line "C")
        flt = {"cpp": ["block_comment('cpp-doxygen', 0, 120)", "block_comment('cpp-doxygen', 4, 120)"], "html": ["e", "e"]}.get(lang, ["string", "indent(4)"])
        s += "C<\n{{ T.doc | %s }}\n{%% for a in T.attributes if a.name %%}{{ a.doc | %s }}\n{%% endfor %%}C>\n" % (flt[0], flt[1])
    for _ in range(shape["lit"]):
        s += 'L {{ "v" | %s }}\n' % uf
    for _ in range(shape["dyn"]):
        s += '{%% set b = "v" %%}D {{ b | %s }}\n' % uf
    if shape["mod"]:
        s += '{% from "helper.j2" import mac, modlevel %}M {{ modlevel }} {{ mac() }}\n'
    if shape.get("nam") and lang in ("c", "cpp", "py"):
        s += "{% for a in T.attributes if a.name %}N {{ a | id }}\n{% endfor %}"
    if shape.get("der"):
        s += "G path {{ T | type_to_include_path }}\n"
        for n, e in DERIVED_EXPR[lang]:
            if have is None or n in have:
                s += "G %s {{ %s }}\n" % (n, e)
        # the unique-name filters of the OTHER languages, reachable from any template as ln.<language>.<filter>: per-file state like the target's own
        for other in ("c", "cpp", "py"):
            if other != lang and have is not None and ("xuniq_" + other) in have:
                s += 'G xuniq_%s {{ "w" | ln.%s.to_template_unique_name }} {{ "w" | ln.%s.to_template_unique_name }}\n' % (other, other, other)
    if shape["inc"] and lang in ("c", "cpp"):
        s += "{% for i in T | includes %}I {{ i }}\n{% endfor %}"
    s += "\n" * shape["trail"]
    helper = '{%% set hb = "v" %%}{%% set modlevel = hb | %s %%}{%% macro mac() %%}{{ hb | %s }}{%% endmacro %%}' % (uf, uf)
    return {"Any.j2": s, "helper.j2": helper}


_RE_UV = re.compile(r"v(\d+)")


def mirror_tokens(text, names):
    """file text -> abstract lines; names: {"mr/A1_1_0": 1, ...} (include path stem -> model type id)"""
    toks = []
    lines = text.split("\n")
    if lines and lines[-1] == "":
        lines.pop()
    region = None
    for ln in lines:
        if region is not None:
            if ln == "C>":
                toks.append(["C", _sha("\n".join(region))[:10]])
                region = None
            else:
                region.append(ln)
        elif ln == "C<":
            region = []
        elif ln == "":
            toks.append(["E"])
        elif ln.startswith("T "):
            toks.append(["T", ln[2:]])
        elif ln[:2] in ("L ", "D "):
            m = _RE_UV.search(ln)
            toks.append([ln[0], int(m.group(1)) if m else ln[2:]])
        elif ln.startswith("M "):
            toks.append(["M"] + [int(x) for x in _RE_UV.findall(ln)])
        elif ln.startswith("N "):
            toks.append(["N", ln[2:]])
        elif ln.startswith("G "):
            toks.append(["G", ln[2:]])
        elif ln.startswith("I "):
            p = ln[2:].strip().strip('<>"')
            stem = p.rsplit(".", 1)[0]
            if "nunavut/support/serialization" in p:
                toks.append(["S"])
            elif stem in names:
                toks.append(["I", names[stem]])
            elif "/" in p and not p.startswith("nunavut/"):
                toks.append(["I", p])
            # standard headers are a function of the type alone: not modelled
        else:
            toks.append(["?", ln])
    return toks


_RE_UNIQ = re.compile(r"_[a-z][a-z_]*?\d+_")
_RE_INC = re.compile(r"^\s*(#\s*include\b.*|import\s.*|from\s.*\simport\s.*)$")
_RE_B85 = re.compile(r"^\s+'[0-9A-Za-z!#$%&()*+\-;<=>?@^_`{|}~]+'$")
_RE_COMMENT = re.compile(r"^\s*(//|/\*|\*(?!\w)|#(?!\s*(include|define|undef|if|ifdef|ifndef|else|elif|endif|pragma|error|warning|line)\b))")
LINE_CLASSES = {"blank": "blank-lines", "include": "include-list", "pickle": "pickled-model", "comment": "doc-comments"}


_RE_IDENT = re.compile(r"[A-Za-z_][A-Za-z0-9_]*")


def name_fold(x):
    return re.sub(r"[^a-z0-9]", "", x.lower())


def norm_hashes(text, name=None):
    """digests per class of line (blank lines with their position among the code lines, include/import lines, lines of the py
    target's pickled model, comment lines) and of the remaining lines under the substitutions unique names / underscores (the
    stropping affixes) / identifiers derived from the type's own name `name` (folded: case and separators dropped; a prefix is
    enough, so truncated derivations count); used only to CLASSIFY a digest conflict (which kind of line differs -> signature),
    never to judge"""
    cls = {k: [] for k in LINE_CLASSES}
    other = []
    for l in text.split("\n"):
        if l.strip() == "":
            cls["blank"].append(str(len(other)))
        elif _RE_INC.match(l):
            cls["include"].append(l)
        elif _RE_B85.match(l):
            cls["pickle"].append(l)
        elif _RE_COMMENT.match(l):
            cls["comment"].append(l)
        else:
            other.append(l)
    res = {k: _sha("\n".join(v))[:12] for k, v in cls.items()}
    uq = [_RE_UNIQ.sub("_U_", l) for l in other]
    res["o0"] = _sha("\n".join(other))[:12]
    res["o1"] = _sha("\n".join(uq))[:12]
    res["o2"] = _sha("\n".join(l.replace("_", "") for l in other))[:12]
    res["o3"] = _sha("\n".join(l.replace("_", "") for l in uq))[:12]
    key = name_fold(name or "")[:8]
    if key:
        res["o4"] = _sha("\n".join(_RE_IDENT.sub(lambda m: "_N_" if key in name_fold(m.group(0)) else m.group(0), l) for l in other))[:12]
    return res


def rle(flags):
    out = []
    for f in flags:
        if out and out[-1][0] == f:
            out[-1][1] += 1
        else:
            out.append([f, 1])
    return out


class _FileState:
    def __init__(self):
        self.gen = None
        self.reset()

    def reset(self):
        self.flags = []
        self.eb = None
        self.ub = None

    def limiter(self):
        import nunavut._postprocessors as pp

        for p in (getattr(self.gen, "_post_processors", None) or []):
            if isinstance(p, pp.LimitEmptyLines):
                return p
        return None

    def limiter_count(self):
        lim = self.limiter()
        c = getattr(lim, "_empty_line_count", None) if lim is not None else None
        return c if isinstance(c, int) else None

    @staticmethod
    def uniq_total():
        from nunavut.lang._common import UniqueNameGenerator

        inst = getattr(UniqueNameGenerator, "_singleton", None)
        m = getattr(inst, "_index_map", None)
        if not isinstance(m, dict):
            return None
        try:
            return sum(sum(x.values()) for x in m.values())
        except Exception:  # pragma: no cover
            return None


def _make_pp_classes():
    from nunavut._postprocessors import FilePostProcessor, LinePostProcessor

    class Tap(LinePostProcessor):
        """placed first in the list: sees every raw line before the real processors"""

        def __init__(self, st):
            self.st = st

        def __call__(self, ll):
            st = self.st
            if not st.flags:
                st.eb = st.limiter_count()
            st.flags.append(1 if len(ll[0]) == 0 else 0)
            return ll

    class Rec(FilePostProcessor):
        def __init__(self, st, sink):
            self.st = st
            self.sink = sink

        def __call__(self, p):
            self.sink(p)
            return p

    return Tap, Rec


def closure_hash(t, cache):
    """hash of the DSDL source of a composite and of every composite it transitively refers to"""
    import pydsdl

    seen = {}

    def walk(x):
        if isinstance(x, pydsdl.ServiceType):
            comps = [x]
            kids = [a.data_type for a in x.request_type.attributes] + [a.data_type for a in x.response_type.attributes]
        elif isinstance(x, pydsdl.CompositeType):
            comps = [x]
            kids = [a.data_type for a in x.attributes]
        elif isinstance(x, pydsdl.ArrayType):
            comps, kids = [], [x.element_type]
        else:
            return
        for c in comps:
            if getattr(c, "has_parent_service", False):
                c = c.parent_service
            k = "%s.%d.%d" % (c.full_name, c.version.major, c.version.minor)
            if k in seen:
                return
            p = str(c.source_file_path)
            if p not in cache:
                cache[p] = pathlib.Path(p).read_text()
            seen[k] = cache[p]
        for kk in kids:
            walk(kk)

    walk(t)
    return _sha(json.dumps(sorted(seen.items())))[:24]


def type_name(t):
    return "%s.%d.%d" % (t.full_name, t.version.major, t.version.minor)


def write_defs(root, files):
    for child in list(root.iterdir()) if root.exists() else []:
        if child.is_dir():
            shutil.rmtree(child)
        else:
            child.unlink()
    for rel, text in files.items():
        p = root / rel
        p.parent.mkdir(parents=True, exist_ok=True)
        p.write_text(text)


def run_scenario(sc, work, seed, alt=False):
    """Executes all runs of one scenario in THIS interpreter; returns the list of genfile events.  With `alt` a scenario that
    has an alternative execution order (`order_b`: a permutation of the run indices) is executed in that order: what another
    interpreter answers for the same keys after another history (state that lives as long as the process)."""
    import gzip
    import types as _types

    # ambient control that belongs to C07, not C10: gzip.compress stamps the wall clock into the py target's pickled model
    gzip.time = _types.SimpleNamespace(time=lambda: 0)
    import pydsdl
    import nunavut
    from nunavut.lang import LanguageContextBuilder, Language
    from nunavut.jinja import DSDLCodeGenerator
    from nunavut._utilities import YesNoDefault
    import nunavut._postprocessors as pp

    Tap, Rec = _make_pp_classes()
    work = pathlib.Path(work)
    dsdl = work / "dsdl"
    dsdl.mkdir(parents=True, exist_ok=True)
    events = []
    on_disk = None
    prev = None  # dict(lctx, gen, st, out, ns, pathmap, lang, tplid, types)
    src_cache = {}
    tpl = sc["tpl"]
    names = sc.get("names") or {}
    for ri in ((sc.get("order_b") if alt else None) or range(len(sc["runs"]))):
        run = sc["runs"][ri]
        lang = run["lang"]
        if run["d"] != on_disk:
            write_defs(dsdl, sc["defsets"][run["d"]])
            on_disk = run["d"]
            src_cache = {}
        rootdir = dsdl / sc["rootns"]
        all_types = pydsdl.read_namespace(str(rootdir), [str(dsdl / l) for l in sc.get("lookup", [])])
        by_name = {type_name(t): t for t in all_types}
        sel = [by_name[n] for n in run["types"]] if run.get("types") is not None else list(all_types)
        cfg_l = json.dumps([lang, run.get("langopts") or {}], sort_keys=True)
        cfg_g = json.dumps([cfg_l, run.get("pps") or {}, bool(run.get("tap", True)), run["d"], run.get("types"), run.get("ws")], sort_keys=True)
        # reuse only what was really built with the same configuration (the key is computed from the run's own fields)
        same_gen = run.get("gen") == "same" and prev is not None and prev["cfg_g"] == cfg_g
        same_lctx = (same_gen or run.get("lctx") == "same") and prev is not None and prev["cfg_l"] == cfg_l
        if same_gen:
            cur = prev
            gen, st, ns = cur["gen"], cur["st"], cur["ns"]
        else:
            if same_lctx:
                lctx = prev["lctx"]
            else:
                b = LanguageContextBuilder(include_experimental_languages=True).set_target_language(lang)
                if run.get("langopts"):
                    b.set_target_language_configuration_override(Language.WKCV_LANGUAGE_OPTIONS, dict(run["langopts"]))
                lctx = b.create()
            out = work / ("out%d" % ri)
            ns = nunavut.build_namespace_tree(sel, str(rootdir), str(out), lctx)
            st = _FileState()
            ppd = run.get("pps") or {}
            pps = []
            if run.get("tap", True):
                pps.append(Tap(st))
            if ppd.get("limit") is not None:
                pps.append(pp.LimitEmptyLines(int(ppd["limit"])))
            if ppd.get("trim"):
                pps.append(pp.TrimTrailingWhitespace())
            kw = {}
            if tpl["id"] == "mirror":
                tdir = work / ("tpl_%s" % lang)
                if not tdir.exists():
                    tdir.mkdir()
                    for fn, txt in mirror_files(tpl["shape"], lang, bool(tpl.get("docs")), derived_filters(lang)).items():
                        (tdir / fn).write_text(txt)

                def probe(_st=st):
                    _st.ub = _st.uniq_total()
                    return ""

                kw = dict(templates_dir=tdir, generate_namespace_types=YesNoDefault.NO, additional_globals={"c10probe": probe})
            cur = dict(lctx=lctx, lang=lang, out=out, ns=ns, st=st, cfg_l=cfg_l, cfg_g=cfg_g)

            def sink(p, _cur=cur):
                _cur["sink"](p)

            pps.append(Rec(st, sink))
            if run.get("ws") is not None:   # whitespace control of the template engine: an option of the run like any other
                kw = dict(kw, trim_blocks=bool(run["ws"][0]), lstrip_blocks=bool(run["ws"][1]))
            gen = DSDLCodeGenerator(ns, post_processors=pps, **kw)
            st.gen = gen
            cur["gen"] = gen
            cur["pathmap"] = {str(p): t for t, p in ns.get_all_datatypes()}
        pathmap = cur["pathmap"]
        omit = bool(run.get("omit", False))
        embed = bool(run.get("embed", False))
        limobj = st.limiter()
        lim_n = getattr(limobj, "_max_empty_lines", None) if limobj is not None else None
        optkey = "s%d|%s" % (sc["sid"], json.dumps([lang, run.get("langopts") or {}, run.get("pps") or {}, bool(run.get("tap", True)), omit] + ([run["ws"]] if run.get("ws") is not None else []), sort_keys=True))
        tplkey = tpl["id"] if tpl["id"] == "builtin" else json.dumps(tpl, sort_keys=True)
        produced = []
        state = {"ord": 0}

        def on_file(p, _ri=ri, _run=run, _pathmap=pathmap, _st=st, _produced=produced, _state=state, _lang=lang, _optkey=optkey, _tplkey=tplkey,
                    _lim_n=lim_n, _limobj=limobj, _embed=embed):
            t = _pathmap.get(str(p))
            flags, eb, ub = _st.flags, _st.eb, _st.ub
            ea, un = _st.limiter_count(), _st.uniq_total()
            _st.reset()
            if t is None:
                return  # a namespace file (py __init__.py / html index): not "the file generated for a type"
            with open(str(p), "r", encoding="utf-8", newline="") as f:
                text = f.read()
            tn = type_name(t)
            _produced.append(tn)
            if _embed:
                return  # embeds the wall clock by design: serves as history only
            kept = text.count("\n") + (1 if text and not text.endswith("\n") else 0)
            lim_on = 1 if _limobj is not None and isinstance(_lim_n, int) else 0
            obs = 1 if lim_on and flags and isinstance(eb, int) and isinstance(ea, int) else 0
            ev = {
                "sid": sc["sid"], "seed": seed, "run": _ri, "ord": _state["ord"], "type": tn, "lang": _lang, "tpl": tpl["id"],
                "tkey": "%s#%s" % (tn, closure_hash(t, src_cache)), "templates": _tplkey, "options": _optkey,
                "digest": _sha(text)[:32],
                "lim": {"on": lim_on, "obs": obs, "n": _lim_n if lim_on else 0, "eb": eb if obs else 0, "ea": ea if obs else 0,
                        "step": 1 if obs and len(flags) <= 4000 else 0, "raw": rle(flags) if obs and len(flags) <= 4000 else [],
                        "kept": kept if obs else 0},
                "uq": {"obs": 0, "ub": 0, "un": 0, "exp": 0},
                "nh": norm_hashes(text, t.short_name),
            }
            if os.environ.get("C10_DEBUG_TEXT"):
                ev["text"] = text  # diagnosis aid: never set by the check itself
            if tpl["id"] == "mirror":
                sh = tpl["shape"]
                ev["toks"] = mirror_tokens(text, names)
                if isinstance(ub, int) and isinstance(un, int):
                    ev["uq"] = {"obs": 1, "ub": ub, "un": un, "exp": sh["lit"] + sh["dyn"] + 2 * (1 if sh["mod"] else 0)}
            _state["ord"] += 1
            events.append(ev)

        cur["sink"] = on_file
        exc = None
        try:
            gen.generate_all(omit_serialization_support=omit, embed_auditing_info=embed)
        except Exception as e:  # an exception is an observable outcome of this history
            exc = e
        if exc is not None and not embed:
            for t, _p in ns.get_all_datatypes():
                tn = type_name(t)
                if tn not in produced:
                    events.append({
                        "sid": sc["sid"], "seed": seed, "run": ri, "ord": state["ord"], "type": tn, "lang": lang, "tpl": tpl["id"],
                        "tkey": "%s#%s" % (tn, closure_hash(t, src_cache)), "templates": tplkey, "options": optkey,
                        "digest": "!exc:" + type(exc).__name__, "exc": "".join(traceback.format_exception_only(type(exc), exc))[-300:],
                        "lim": {"on": 0, "obs": 0, "n": 0, "eb": 0, "ea": 0, "step": 0, "raw": [], "kept": 0},
                        "uq": {"obs": 0, "ub": 0, "un": 0, "exp": 0}, "nh": {},
                    })
                    state["ord"] += 1
        prev = cur
    return events


def worker_main(jobfile, outfile):
    """Runs every scenario of the job file, each in a child forked from this pristine interpreter."""
    import pydsdl  # noqa: F401  (warm up before forking)
    import nunavut  # noqa: F401
    import nunavut.jinja  # noqa: F401
    from nunavut.lang import LanguageContextBuilder

    for l in LANGS:
        LanguageContextBuilder(include_experimental_languages=True).set_target_language(l).create()
    job = json.loads(pathlib.Path(jobfile).read_text())
    seed = int(os.environ.get("PYTHONHASHSEED", "0") or 0)
    base = pathlib.Path(job["base"])
    with open(outfile, "w") as out:
        for sc in job["scenarios"]:
            work = base / ("s%d" % sc["sid"])
            if work.exists():
                shutil.rmtree(work)
            work.mkdir(parents=True)
            tmp = str(work) + ".events"
            pid = os.fork()
            if pid == 0:
                rc = 0
                try:
                    evs = run_scenario(sc, work, seed, bool(job.get("alt")))
                    with open(tmp, "w") as f:
                        json.dump(evs, f)
                except BaseException:
                    with open(tmp, "w") as f:
                        json.dump({"error": traceback.format_exc()[-2000:]}, f)
                    rc = 3
                finally:
                    os._exit(rc)
            _, status = os.waitpid(pid, 0)
            try:
                res = json.loads(pathlib.Path(tmp).read_text())
                os.unlink(tmp)
            except Exception:
                res = {"error": "scenario child died (status %r) without a result" % (status,)}
            shutil.rmtree(work, ignore_errors=True)
            out.write(json.dumps({"sid": sc["sid"], "seed": seed, "result": res}) + "\n")
            out.flush()


# =====================================================================================================================
# Part 2 - scenario construction (main process)
# =====================================================================================================================

# documentation shapes (text after "# "): short, longer than the wrap width of the comment filters (~120 columns), indented list
# lines, blank comment lines, characters comment / markup filters escape
_LONG = ("This sentence is deliberately much longer than one hundred and twenty columns so that every comment filter which wraps text "
         "has to break it at least once and then has to decide how the continuation line is indented, twice if need be.")
DOC_SHAPES = {
    "short": ["Short."],
    "long": [_LONG],
    "list": ["Items:", "  - first item", "  - second item which is " + _LONG.lower(), "    deeper"],
    "listlong": ["  - starts indented", _LONG],
    "blank": ["First paragraph.", "", "Second paragraph after a blank comment line.", "", ""],
    "escape": ["Escapes: */ /* \"\"\" <b>&amp;</b> 100% {braces} `ticks` $dollar \\n and a tab\there."],
    "mixed": [_LONG, "", "  - item", _LONG + " Again."],
}


def doc_block(kind, indent=""):
    return "".join((indent + "# " + l).rstrip() + "\n" for l in DOC_SHAPES[kind])


def with_docs(text, header, attr):
    """adds a header comment and a comment after every attribute line of a DSDL definition"""
    out = [doc_block(header), "\n"]
    for ln in text.splitlines():
        out.append(ln + "\n")
        if ln and not ln.startswith(("@", "#", "-")):
            out.append(doc_block(attr))
    return "".join(out)


MODEL_WORDS = {1: ["strobe", "total", "island", "memory", "atomic_x", "isle"], 2: ["plain", "speed"], 3: ["plain"]}


# DISTINCT valid DSDL names ("<name relative to the root namespace>.<major>.<minor>") that collide under some derivation of a name:
# macro / snake casing with underscore insertion, repeated underscores collapsed, dots to underscores in full names, separators
# dropped (name + version digits), truncation (long common prefix), stropping affixes, service request / response suffixes.
# (PyDSDL itself refuses nothing here; names that differ in letter case only are left out on purpose.)
_LONGNAME = "LongCommonPrefix" * 3
CONFUSABLE = [
    ["FooBar.1.0", "Foo_Bar.1.0", "Foo__Bar.1.0"],
    ["foo_bar.Baz.1.0", "foo.bar_Baz.1.0"],
    ["a_b.C.1.0", "a.b_C.1.0"],
    ["Ver.1.10", "Ver.11.0", "Ver1.1.0"],
    [_LONGNAME + "EndingA.1.0", _LONGNAME + "EndingB.1.0"],
    ["double.1.0", "_double.1.0", "double_.1.0"],
    ["class.1.0", "class_.1.0", "_class.1.0"],
    ["x.1.0", "_x.1.0", "x_.1.0"],
    ["x_y.1.0", "x__y.1.0"],
]
CONF_PAIRS = [(g[0], g[1]) for g in CONFUSABLE] + [("Ver.1.10", "Ver1.1.0"), ("double.1.0", "double_.1.0"), ("class.1.0", "_class.1.0")]


def conf_path(n):
    """"foo_bar.Baz.1.0" -> "foo_bar/Baz.1.0" (DSDL file below the root namespace directory, without the extension)"""
    parts = n.split(".")
    return "/".join(parts[:-2]) + "." + ".".join(parts[-2:])


def conf_stem(n):
    """"foo_bar.Baz.1.0" -> "foo_bar/Baz_1_0" (stem of the generated file below the root namespace directory)"""
    parts = n.split(".")
    return "/".join(parts[:-2]) + "_" + "_".join(parts[-2:])


def model_defsets(ntypes=4, stem=None, docs=False, pair=None):
    """DSDL for the definition sets of GenSiblings.tla: A1/A2 are twins (same size), A3 refers to A1 (set 1), A2 (set 2) or both
    (set 3) - in sets 1 and 2 it keeps name, version and bit-length set -, A4 refers to A3.  With `stem` the second type is named
    <stem> (its file stem / path token is <stem>_1_0) and the first type - which does not refer to it - has a field of exactly
    that spelling.  With `pair` the twins carry two names that collide under a name derivation (CONF_PAIRS)."""
    res = []
    for d in (1, 2, 3):
        f = {"mr/A1.1.0.dsdl": "bool x\ntruncated uint12[<=3] xs\n@sealed\n", "mr/A2.1.0.dsdl": "bool y\ntruncated uint12[<=3] ys\n@sealed\n"}
        f["mr/A3.1.0.dsdl"] = {1: "@union\nuint16[1] u\nmr.A1.1.0 a\n@sealed\n", 2: "@union\nuint16[1] u\nmr.A2.1.0 a\n@sealed\n",
                               3: "@union\nuint16[1] u\nmr.A1.1.0 a\nmr.A2.1.0 b\n@sealed\n"}[d]
        if ntypes >= 4:
            f["mr/A4.1.0.dsdl"] = "mr.A3.1.0[<=2] q\nbool w\n@sealed\n"
        if stem:
            f = {k.replace("A2.1.0", stem + ".1.0"): v.replace("mr.A2.1.0", "mr.%s.1.0" % stem) for k, v in f.items()}
            f["mr/A1.1.0.dsdl"] = f["mr/A1.1.0.dsdl"].replace("@sealed", "uint8 %s_1_0\n@sealed" % stem)
        if docs:
            # the second type's documentation has indented lines, the documentation of the others is long enough to be wrapped
            f = {k: with_docs(v, *(("list", "listlong") if k.split("/")[1].split(".")[0] in ("A2", stem) else ("long", "mixed"))) for k, v in f.items()}
        if pair and not stem:
            for old, new in (("A1.1.0", pair[0]), ("A2.1.0", pair[1])):
                f = {("mr/%s.dsdl" % conf_path(new) if k == "mr/%s.dsdl" % old else k): v.replace("mr." + old, "mr." + new) for k, v in f.items()}
        res.append(f)
    return res


def model_scenario(sid, rec, lang, kind, builtin=False, pairidx=None):
    """a history emitted by TLC (shape, limit, runs with abstract files) -> executable scenario (mirror templates, or the same
    history of subsets/orders/reuse modes/definition sets through the built-in templates)"""
    shape = {k: (bool(v) if k in ("mod", "inc") else int(v)) for k, v in rec["shape"].items()}
    limit = int(rec["limit"])
    shape.setdefault("nam", False)
    stem = None
    if shape["nam"]:
        ws = MODEL_WORDS[int(rec.get("word", 2))]
        stem = ws[sid % len(ws)]
        if lang == "html":
            lang = "c"  # the html target has no identifier filter
    docs = bool(int(rec.get("docs", 0)))
    pair = None
    if int(rec.get("conf", 0)) and not stem:
        # the generators go through the namespace tree, the model through the listed order: a history whose files are compared one by
        # one with the model's (kind "model") keeps both names in the root namespace
        pool = [p for p in CONF_PAIRS if "/" not in conf_path(p[0]) + conf_path(p[1])] if kind == "model" else CONF_PAIRS
        pair = pool[(sid if pairidx is None else pairidx) % len(pool)]
        if conf_stem(pair[0]) > conf_stem(pair[1]):
            pair = (pair[1], pair[0])  # the model lists the includes of type 3 by type number, the generators by path
    shape["der"] = bool(pair)
    tname = {t: ("mr.%s.1.0" % stem if (stem and t == 2) else "mr.A%d.1.0" % t) for t in range(1, 5)}
    if pair:
        tname[1], tname[2] = "mr." + pair[0], "mr." + pair[1]
    if limit == 0 and (shape["lead"] or shape["trail"]) and lang in ("c", "py"):
        lang = {"c": "cpp", "py": "html"}[lang]  # c and py add LimitEmptyLines(1) of their own: "no limiter" does not exist there
    runs, expect = [], []
    for r in rec["runs"]:
        mode = r["mode"]
        runs.append({
            "d": int(r["d"]) - 1, "types": [tname[t] for t in r["ord"]], "lang": lang,
            "lctx": "same" if mode in ("lctx", "gen") else "fresh", "gen": "same" if mode == "gen" else "fresh",
            "omit": bool(r["omit"]), "pps": {"limit": limit - 1} if limit > 0 else {"limit": None}, "tap": True,
        })
        expect.append([[int(f["t"]), f["out"]] for f in r["files"]])
    if builtin:
        for r in runs:
            if lang in ("cpp", "html") and limit == 0:
                r["pps"], r["tap"] = {"limit": None}, (sid % 2 == 0)
        return {"sid": sid, "kind": kind + "/builtin", "defsets": model_defsets(stem=stem, docs=docs, pair=pair), "rootns": "mr", "lookup": [], "tpl": {"id": "builtin"},
                "names": {}, "runs": runs}
    names = {"mr/A%d_1_0" % i: i for i in range(1, 5)}
    if stem:
        names["mr/%s_1_0" % stem] = 2
    if pair:
        names.update({"mr/" + conf_stem(pair[0]): 1, "mr/" + conf_stem(pair[1]): 2})
    return {"sid": sid, "kind": kind, "defsets": model_defsets(stem=stem, docs=docs, pair=pair), "rootns": "mr", "lookup": [],
            "tpl": {"id": "mirror", "shape": shape, "docs": docs},
            "names": names, "tname": tname, "runs": runs, "expect": expect}


# spellings shared between a path token of one type (namespace component / file stem) and a field or constant of ANOTHER type:
# words the C configuration reserves by pattern for identifiers but not for paths, keywords of the targets, plain words
SHARED_WORDS = ["strobe", "total", "island", "memory", "atomic_x", "isle", "strong", "register", "class", "lambda", "del", "double",
                "namespace", "plain", "speed"]
FIELD_NAMES = ["f%d", "f%d", "f%d", "class%d", "double", "register", "isok%d", "memx%d", "typename", "namespace", "lambda", "str%d", "None%d", "del"]
PRIMS = ["uint8", "uint16", "int32", "float32", "bool", "saturated uint7", "truncated uint12", "float64", "int3", "uint64", "float16"]


RAND_CONFUSABLE = [  # (nested namespace, name, version) x 2
    ("", "CfBar", (1, 0), "", "Cf_Bar", (1, 0)), ("", "Cv", (1, 10), "", "Cv", (11, 0)), ("", "Cv", (1, 10), "", "Cv1", (1, 0)),
    ("cf_x", "Q", (1, 0), "cf", "x_Q", (1, 0)), ("", "Cf" + _LONGNAME + "A", (1, 0), "", "Cf" + _LONGNAME + "B", (1, 0)),
    ("", "union", (1, 0), "", "_union", (1, 0)), ("", "try", (1, 0), "", "try_", (1, 0)), ("", "cf_y", (1, 0), "", "cf__y", (1, 0)),
]


class NsBuilder:
    """Random DSDL root namespace `vr` with nested namespaces, several versions per name, unions, services, twins."""

    def __init__(self, rng):
        self.rng = rng
        self.types = []  # dict(ns, name, ver, kind, fields=[(expr, fname)], twin_of)
        self.subs = rng.sample(["n1", "n2", "zz", "n1/deep", "k9"], rng.randint(1, 3))

    def ref(self, t):
        return "%s.%s.%d.%d" % (".".join(["vr"] + ([t["ns"].replace("/", ".")] if t["ns"] else [])), t["name"], t["ver"][0], t["ver"][1])

    def field_expr(self, depth_ok):
        rng = self.rng
        pool = [t for t in self.types if t["kind"] != "service"]
        if depth_ok and pool and rng.random() < 0.55:
            base = self.ref(rng.choice(pool))
        else:
            base = rng.choice(PRIMS)
        r = rng.random()
        if r < 0.2:
            return "%s[%d]" % (base, rng.randint(1, 4))
        if r < 0.4:
            return "%s[<=%d]" % (base, rng.randint(1, 4))
        return base

    def fname(self, i):
        n = self.rng.choice(FIELD_NAMES)
        return (n % i) if "%d" in n else ("%s%s" % (n, "" if i == 0 else "_%d" % i))

    def add(self, name, ver, ns=None, kind=None, fields=None, pre=""):
        rng = self.rng
        if ns is None:
            ns = rng.choice([""] + self.subs)
        if kind is None:
            kind = rng.choices(["struct", "union", "service"], weights=[7, 2, 1])[0]
        if fields is None:
            n = rng.randint(2, 3) if kind == "union" else rng.randint(1, 4)
            fields = [(self.field_expr(True), self.fname(i)) for i in range(n)]
        t = dict(ns=ns, name=name, ver=ver, kind=kind, fields=fields, pre=pre)
        if kind == "service":
            t["resp"] = [(self.field_expr(True), "r%d" % i) for i in range(rng.randint(0, 2))]
        self.types.append(t)
        return t

    def text(self, t):
        lines = []
        hd, ad = t.get("docs") or (None, None)
        if hd:
            lines += [doc_block(hd).rstrip("\n"), ""]
        if t.get("pre"):
            lines.append(t["pre"])
        if t["kind"] == "union":
            lines.append("@union")
        for i, f in enumerate(t["fields"]):
            lines.append("%s %s" % f)
            if ad and i % 2 == 0:
                lines.append(doc_block(ad).rstrip("\n"))
        lines.append("@extent %d" % t["ext"] if t.get("ext") else "@sealed")
        if t["kind"] == "service":
            lines.append("---")
            lines += ["%s %s" % f for f in t["resp"]]
            lines.append("@sealed")
        return "\n".join(lines) + "\n"

    def files(self):
        res = {}
        for t in self.types:
            rel = "vr/" + (t["ns"] + "/" if t["ns"] else "") + "%s.%d.%d.dsdl" % (t["name"], t["ver"][0], t["ver"][1])
            res[rel] = self.text(t)
        return res


def rand_namespace(rng):
    """-> (defsets [original, edited...], description of edits)"""
    import copy

    b = NsBuilder(rng)
    # leaves with twins (identical layout, other field names): retargeting a reference keeps the referrer's size
    for i in range(rng.randint(1, 2)):
        leaf = b.add("L%d" % i, (1, 0), kind="struct", fields=[(rng.choice(PRIMS), "p"), (rng.choice(PRIMS) + "[<=3]", "q")])
        b.add("L%dx" % i, (1, 0), ns=rng.choice([leaf["ns"]] + b.subs), kind="struct", fields=[(e, f + "x") for e, f in leaf["fields"]])
    # one name with several versions whose dependencies differ
    vname = "V"
    vns = rng.choice([""] + b.subs)
    for ver in rng.sample([(1, 0), (1, 1), (2, 0), (2, 3)], rng.randint(2, 3)):
        b.add(vname, ver, ns=vns, kind="struct")["ext"] = 4096
    for i in range(rng.randint(2, 5)):
        b.add("T%d" % i, (1, 0))
    # a referrer of a leaf, so that a retarget edit exists
    leaf0 = b.types[0]
    b.add("R0", (1, rng.randint(0, 2)), kind=rng.choice(["struct", "union"]),
          fields=[(b.ref(leaf0), "a"), (rng.choice(PRIMS), "b")] + ([(b.ref(leaf0) + "[<=2]", "c")] if rng.random() < 0.5 else []))
    b.add("R1", (1, 0), kind="struct", fields=[(b.ref(b.types[-1]), "r"), (rng.choice(PRIMS), "s")])
    # shared spellings: a sibling lives in a nested namespace called <w> (or is itself called <w>: file stem <w>_1_0) and a type
    # that does not refer to it has a field / constant spelled exactly like that path token
    observers = [t for t in b.types if t["kind"] == "struct" and not t.get("ext")]
    for i, w in enumerate(rng.sample(SHARED_WORDS, rng.randint(1, 3))):
        obs = rng.choice(observers)
        if rng.random() < 0.7:
            b.add("Sib%d" % i, (1, 0), ns=w, kind="struct", fields=[(rng.choice(PRIMS), "v")])
            spelled = w
        else:
            b.add(w, (1, 0), ns=rng.choice([""] + b.subs), kind="struct", fields=[(rng.choice(PRIMS), "v")])
            spelled = w + "_1_0"
        if rng.random() < 0.75:
            obs["fields"] = obs["fields"] + [(rng.choice(PRIMS), spelled)]
        else:
            obs["pre"] = (obs.get("pre") + "\n" if obs.get("pre") else "") + "uint8 %s = %d" % (spelled, i + 1)
    # confusable names: siblings that do not refer to each other and whose names collide under a name derivation; sometimes a
    # third type refers to ONE of them (a dependency-closed subset then holds one without the other)
    for ns1, n1, v1, ns2, n2, v2 in rng.sample(RAND_CONFUSABLE, rng.randint(0, 2)):
        base = rng.choice(["", "n1", "k9"])
        c1 = b.add(n1, v1, ns="/".join(x for x in (base, ns1) if x), kind="struct", fields=[(rng.choice(PRIMS), "v")])
        c2 = b.add(n2, v2, ns="/".join(x for x in (base, ns2) if x), kind="struct", fields=[(rng.choice(PRIMS), "w")])
        if rng.random() < 0.5:
            obs = rng.choice(observers)
            obs["fields"] = obs["fields"] + [(b.ref(rng.choice([c1, c2])), "cf_%s" % n1.lower().strip("_"))]
    for t in b.types:
        if rng.random() < 0.6:
            t["docs"] = (rng.choice(list(DOC_SHAPES)), rng.choice([None] + list(DOC_SHAPES)))
    d0 = b.files()
    defsets = [d0]
    edits = []
    # edit 1: retarget R0 (and maybe another referrer) from a leaf to its twin
    b1 = copy.deepcopy(b)
    old, new = b1.ref(b1.types[0]), b1.ref(b1.types[1])
    n = 0
    for t in b1.types:
        if t["name"] in ("L0", "L0x"):
            continue
        for lst in (t["fields"], t.get("resp", [])):
            for i, (e, f) in enumerate(lst):
                if old in e and (t["name"] == "R0" or rng.random() < 0.5):
                    lst[i] = (e.replace(old, new), f)
                    n += 1
    defsets.append(b1.files())
    edits.append("retarget:%d" % n)
    # edit 2: a leaf keeps name/version/size but changes a field name and gains a comment
    b2 = copy.deepcopy(b)
    lf = b2.types[0]
    lf["fields"] = [(e, f + "_renamed") for e, f in lf["fields"]]
    lf["pre"] = "# edited"
    defsets.append(b2.files())
    edits.append("leaf-rename")
    return defsets, edits


def closed_subset(rng, deps, names):
    """random dependency-closed subset (names in read order)"""
    want = set(rng.sample(names, rng.randint(1, max(1, len(names) - 1))))
    todo = list(want)
    while todo:
        for d in deps[todo.pop()]:
            if d not in want:
                want.add(d)
                todo.append(d)
    return [n for n in names if n in want]


def inspect_defs(scratch, files, rootns):
    """reads a definition set with PyDSDL in the main process: -> (names in read order, direct deps per name)"""
    import pydsdl

    d = scratch / ("probe-%s" % _sha(json.dumps(sorted(files.items())))[:12])
    write_defs_new(d, files)
    types = pydsdl.read_namespace(str(d / rootns), [])
    deps = {}

    def comps(x, acc):
        if isinstance(x, pydsdl.ServiceType):
            for a in list(x.request_type.attributes) + list(x.response_type.attributes):
                comps(a.data_type, acc)
        elif isinstance(x, pydsdl.CompositeType):
            acc.add(type_name(x))
        elif isinstance(x, pydsdl.ArrayType):
            comps(x.element_type, acc)

    for t in types:
        acc = set()
        attrs = (list(t.request_type.attributes) + list(t.response_type.attributes)) if isinstance(t, pydsdl.ServiceType) else list(t.attributes)
        for a in attrs:
            comps(a.data_type, acc)
        deps[type_name(t)] = sorted(acc)
    shutil.rmtree(d, ignore_errors=True)
    return [type_name(t) for t in types], deps


def write_defs_new(root, files):
    root.mkdir(parents=True, exist_ok=True)
    write_defs(root, files)


def rand_shape(rng):
    return {"lead": rng.choice([0, 0, 1, 2, 3]), "trail": rng.choice([0, 1, 2, 3]), "lit": rng.choice([0, 1, 2, 3]), "dyn": rng.choice([0, 1, 2]),
            "mod": rng.random() < 0.4, "inc": rng.random() < 0.6, "nam": rng.random() < 0.5}


LANGOPTS = {"c": [None, None, {"target_endianness": "big"}, {"enable_serialization_asserts": True}],
            "cpp": [None, None, {"std": "c++17"}, {"enable_serialization_asserts": True}],
            "py": [None], "html": [None]}


def rand_scenario(ctx, sid, rng):
    """a random history over a random namespace; always contains the fresh reference runs the other runs are compared with"""
    for _attempt in range(20):
        defsets, edits = rand_namespace(rng)
        try:
            info = [inspect_defs(ctx.scratch, f, "vr") for f in defsets]
            break
        except Exception:  # PyDSDL rejected the invented namespace (e.g. a union of one type twice): invent another
            continue
    else:
        from ..core import MachineryFailure

        raise MachineryFailure("could not invent a DSDL namespace PyDSDL accepts")
    lang = LANGS[sid % 4] if rng.random() < 0.8 else rng.choice(LANGS)
    mirror = rng.random() < 0.4
    tpl = {"id": "mirror", "shape": rand_shape(rng), "docs": rng.random() < 0.6} if mirror else {"id": "builtin"}
    langopts = rng.choice(LANGOPTS[lang])
    r = rng.random()
    if r < 0.45:
        pps = {"limit": None}
    elif r < 0.9:
        pps = {"limit": rng.choice([0, 1, 1, 2])}
    else:
        pps = {"limit": rng.choice([0, 1, 2]), "trim": True}
    tap = True if (pps["limit"] is not None or lang in ("c", "py")) else rng.random() < 0.5
    base = {"lang": lang, "langopts": langopts, "pps": pps, "tap": tap}

    def mk(d, types=None, lctx="fresh", gen="fresh", omit=False, embed=False, lang2=None):
        x = dict(base)
        if lang2 is not None:
            x.update(lang=lang2, langopts=None, pps={"limit": None}, tap=True)
        x.update(d=d, types=types, lctx=lctx, gen=gen, omit=omit, embed=embed)
        return x

    names0, deps0 = info[0]
    runs = [mk(0)]
    nsteps = rng.randint(3, 6)
    cur_d = 0
    for _ in range(nsteps):
        names, deps = info[cur_d]
        k = rng.random()
        if k < 0.2:  # permuted order, whole namespace
            p = list(names)
            rng.shuffle(p)
            runs.append(mk(cur_d, p, lctx=rng.choice(["fresh", "same"])))
        elif k < 0.4:  # dependency-closed subset, maybe permuted
            s = closed_subset(rng, deps, names)
            if rng.random() < 0.5:
                rng.shuffle(s)
            runs.append(mk(cur_d, s, lctx=rng.choice(["fresh", "same"])))
        elif k < 0.55:  # the same generator object again, other flags
            runs.append(dict(runs[-1], lctx="same", gen="same", omit=rng.random() < 0.5, embed=rng.random() < 0.25))
            runs.append(dict(runs[-1], lctx="same", gen="same", omit=runs[0]["omit"], embed=False))
        elif k < 0.85:  # edited definitions behind a reused LanguageContext, then fresh, then back
            nd = rng.choice([d for d in range(len(defsets)) if d != cur_d])
            runs.append(mk(nd, lctx="same"))
            runs.append(mk(nd, lctx="fresh"))
            if rng.random() < 0.5:
                runs.append(mk(cur_d, lctx="same"))
            else:
                cur_d = nd
        elif k < 0.93:  # another target language in between (the unique-name singleton is per interpreter)
            runs.append(mk(cur_d, lang2=rng.choice([l for l in LANGS if l != lang])))
            runs.append(mk(cur_d))
        else:
            runs.append(mk(cur_d, omit=True))
            runs.append(mk(cur_d, omit=True, lctx="same"))
    runs.append(mk(cur_d, lctx="fresh"))
    return {"sid": sid, "kind": "rand", "defsets": defsets, "rootns": "vr", "lookup": [], "tpl": tpl, "names": {}, "runs": runs,
            "edits": edits}


def canonical_scenarios(sid0):
    """hand-written histories that do not depend on VERIF_SEED: nested namespaces, a union referring into another namespace
    (the shape on which the py target's pickled model was seen to depend on history), several versions of one name with
    different dependencies; whole / subsets / same generator again with other flags / reused context"""
    defs = {
        "vr/n1/L0x.1.0.dsdl": "bool px\ntruncated uint12[<=3] qx\n@sealed\n",
        "vr/n1/L0y.1.0.dsdl": "bool py\ntruncated uint12[<=3] qy\n@sealed\n",
        "vr/k9/T2.1.0.dsdl": "@union\nuint16[1] lambda\nvr.n1.L0x.1.0 lambda_1\n@sealed\n",
        "vr/V.1.0.dsdl": "vr.n1.L0x.1.0 a\nuint8 b\n@extent 256\n",
        "vr/V.1.1.dsdl": "vr.n1.L0y.1.0[<=2] a\nuint8 b\n@extent 256\n",
        "vr/V.2.0.dsdl": "vr.k9.T2.1.0 a\nvr.V.1.0 old\n@extent 1024\n",
        "vr/zz/S.1.0.dsdl": "vr.V.1.1 req\n@sealed\n---\nvr.k9.T2.1.0[<=2] resp\n@sealed\n",
        "vr/W.1.0.dsdl": "vl.X.1.0 ext\nuint8 own\n@sealed\n",      # refers into another root namespace (a lookup directory)
        "vl/X.1.0.dsdl": "uint8 v\n@sealed\n",
        "vl/Y.1.0.dsdl": "uint8 w\n@sealed\n",
    }
    edited = dict(defs)
    edited["vr/W.1.0.dsdl"] = defs["vr/W.1.0.dsdl"].replace("vl.X", "vl.Y")
    edited["vr/k9/T2.1.0.dsdl"] = defs["vr/k9/T2.1.0.dsdl"].replace("L0x", "L0y")
    edited["vr/V.1.0.dsdl"] = defs["vr/V.1.0.dsdl"].replace("L0x", "L0y")
    res = []
    for i, lang in enumerate(LANGS):
        for pps in ({"limit": None}, {"limit": 1}):
            base = {"lang": lang, "langopts": None, "pps": pps, "tap": True, "omit": False, "embed": False}

            def mk(d, types=None, lctx="fresh", gen="fresh", **kw):
                return dict(base, d=d, types=types, lctx=lctx, gen=gen, **kw)

            runs = [mk(0)]
            runs.append(dict(runs[-1], lctx="same", gen="same"))
            runs.append(dict(runs[-1], lctx="same", gen="same", omit=True))
            runs.append(dict(runs[-1], lctx="same", gen="same", omit=False))
            runs += [mk(0, ["vr.n1.L0x.1.0", "vr.k9.T2.1.0"]), mk(0, ["vr.k9.T2.1.0", "vr.n1.L0x.1.0"], lctx="same"),
                     mk(0, ["vr.n1.L0x.1.0"]), mk(0, ["vr.V.1.0", "vr.n1.L0x.1.0"]), mk(0, ["vr.n1.L0y.1.0", "vr.V.1.1"], lctx="same"),
                     mk(1, lctx="same"), mk(1), mk(0, lctx="same"), mk(0, omit=True), mk(0),
                     # the template engine's whitespace control differs between runs of one process / one context (compiled templates must not be shared)
                     mk(0, ws=[1, 1]), mk(0, lctx="same", ws=[0, 1]), mk(0, lctx="same"), mk(0, lctx="same", ws=[1, 1]), mk(0, ws=[1, 0]), mk(0, ws=[0, 1]), mk(0)]
            # second interpreter: the runs with other whitespace control come FIRST there (whoever fills a process-wide store first wins in each)
            order_b = [i for i, r in enumerate(runs) if r.get("ws") is not None] + [i for i, r in enumerate(runs) if r.get("ws") is None]
            res.append({"sid": sid0 + len(res), "kind": "canonical", "defsets": [defs, edited], "rootns": "vr", "lookup": ["vl"], "tpl": {"id": "builtin"},
                        "names": {}, "runs": runs, "order_b": order_b})
    return res


def canonical_spelling_scenarios(sid0):
    """a field / constant of the observed types is spelled exactly like a path token (nested namespace directory or file stem) of
    a sibling they do not refer to: whole namespace vs the dependency-closed subset without the siblings vs other order vs reused
    LanguageContext, for the targets with an identifier filter"""
    words = ["strobe", "total", "island", "memory", "atomic_x", "register", "lambda", "plain"]
    defs = {"vr/Obs.1.0.dsdl": "".join("uint8 %s\n" % w for w in words) + "uint8 isle_1_0\nuint8 speed_1_0\n@sealed\n",
            "vr/Kon.1.0.dsdl": "uint8 total = 2\nuint8 memory = 3\nuint8 strobe = 4\nuint8 plain = 5\nuint8 x\n@sealed\n",
            "vr/User.1.0.dsdl": "vr.Obs.1.0 o\nvr.Kon.1.0[<=2] c\nuint8 island\n@sealed\n",
            "vr/isle.1.0.dsdl": "uint8 v\n@sealed\n", "vr/speed.1.0.dsdl": "uint8 v\n@sealed\n"}
    for i, w in enumerate(words):
        defs["vr/%s/S%d.1.0.dsdl" % (w, i)] = "uint8 v\n@sealed\n"
    sub = ["vr.Obs.1.0", "vr.Kon.1.0"]
    sub3 = ["vr.User.1.0", "vr.Kon.1.0", "vr.Obs.1.0"]
    res = []
    for lang in ("c", "cpp", "py"):
        for tpl in ({"id": "builtin"}, {"id": "mirror", "shape": {"lead": 0, "trail": 0, "lit": 0, "dyn": 0, "mod": False, "inc": False, "nam": True}}):
            base = {"lang": lang, "langopts": None, "pps": {"limit": None}, "tap": True, "omit": False, "embed": False, "d": 0, "gen": "fresh"}
            runs = [dict(base, types=None, lctx="fresh"), dict(base, types=sub, lctx="fresh"), dict(base, types=None, lctx="same"),
                    dict(base, types=sub3, lctx="same"), dict(base, types=list(reversed(sub)), lctx="fresh"), dict(base, types=None, lctx="same"),
                    dict(base, types=sub3, lctx="fresh")]
            res.append({"sid": sid0 + len(res), "kind": "canonical", "defsets": [defs], "rootns": "vr", "lookup": [], "tpl": tpl, "names": {},
                        "runs": runs})
    return res


def canonical_doc_scenarios(sid0):
    """the observed types and their siblings carry header / field / constant documentation of every shape; whole namespace vs
    subsets vs other orders vs reused context / generator: state inside a comment filter shows as a digest difference"""
    fields = "uint8 a\nuint16[<=3] b\nuint8 K = 3\nbool c\n@sealed\n"
    union = "@union\nuint8 a\nuint16[<=3] b\nbool c\n@sealed\n"
    defs = {"vr/Lng.1.0.dsdl": with_docs(fields, "long", "long"), "vr/Lst.1.0.dsdl": with_docs(fields, "list", "listlong"),
            "vr/Mix.1.0.dsdl": with_docs(fields, "mixed", "blank"), "vr/Esc.1.0.dsdl": with_docs(fields, "escape", "escape"),
            "vr/Sht.1.0.dsdl": with_docs(fields, "short", "short"), "vr/Uni.1.0.dsdl": with_docs(union, "long", "mixed"),
            "vr/Ulst.1.0.dsdl": with_docs(union, "listlong", "list"),
            "vr/Ref.1.0.dsdl": with_docs("vr.Lng.1.0 l\nvr.Uni.1.0[<=2] u\n@sealed\n", "mixed", "long"),
            "vr/n1/Srv.1.0.dsdl": with_docs("vr.Lng.1.0 q\n@sealed\n---\nuint8 r\n@sealed\n", "long", "list")}
    res = []
    for lang, tpl in (("cpp", {"id": "builtin"}), ("cpp", "mirror"), ("html", {"id": "builtin"}), ("c", {"id": "builtin"}), ("py", {"id": "builtin"}),
                      ("html", "mirror")):
        if tpl == "mirror":
            tpl = {"id": "mirror", "docs": True, "shape": {"lead": 0, "trail": 0, "lit": 0, "dyn": 0, "mod": False, "inc": False, "nam": False}}
        base = {"lang": lang, "langopts": None, "pps": {"limit": None}, "tap": True, "omit": False, "embed": False, "d": 0, "gen": "fresh", "lctx": "fresh"}
        runs = [dict(base, types=["vr.Lng.1.0", "vr.Uni.1.0"]), dict(base, types=None), dict(base, types=["vr.Lst.1.0", "vr.Lng.1.0"]),
                dict(base, types=["vr.Lng.1.0", "vr.Lst.1.0"], lctx="same"), dict(base, types=["vr.Ulst.1.0", "vr.Uni.1.0", "vr.Esc.1.0"]),
                dict(base, types=None, lctx="same")]
        runs.append(dict(runs[-1], gen="same"))
        runs += [dict(base, types=["vr.Uni.1.0", "vr.Lng.1.0", "vr.Ref.1.0", "vr.Mix.1.0"]), dict(base, types=None)]
        res.append({"sid": sid0 + len(res), "kind": "canonical", "defsets": [defs], "rootns": "vr", "lookup": [], "tpl": tpl, "names": {}, "runs": runs})
    return res


def canonical_derived_scenarios(sid0):
    """siblings that do not refer to each other and whose names collide under a name derivation (CONFUSABLE, a service next to
    types called like its request / response): whole namespace in both orders / reused LanguageContext / reused generator /
    every confusable type alone with a fresh and with a reused context / the dependency closures of two users which each hold
    one half of every group, both orders; built-in templates of every target and the mirror template showing the target's own
    derived names.  A registry of derived names that outlives a file or a run shows as a digest difference."""
    defs, members = {}, []
    for g in CONFUSABLE:
        for i, n in enumerate(g):
            defs["vr/%s.dsdl" % conf_path(n)] = "%s m%d\nuint8[<=2] va\n@sealed\n" % (PRIMS[i], i)
            members.append("vr." + n)
    defs["vr/Svc.1.0.dsdl"] = "uint8 q\n@sealed\n---\nuint16 r\n@sealed\n"
    defs["vr/Svc_Request.1.0.dsdl"] = "uint8 q\n@sealed\n"
    defs["vr/Svc_Response.1.0.dsdl"] = "uint16 r\n@sealed\n"
    members += ["vr.Svc.1.0", "vr.Svc_Request.1.0", "vr.Svc_Response.1.0"]
    defs["vr/Other.1.0.dsdl"] = "uint32 c\n@sealed\n"
    users = {}
    for u, k in (("UseA", 0), ("UseB", 1)):
        refs = ["vr." + g[k] for g in CONFUSABLE] + ["vr.Svc_Request.1.0" if k else "vr.Other.1.0"]
        defs["vr/%s.1.0.dsdl" % u] = "".join("%s f%d\n" % (r, i) for i, r in enumerate(refs)) + "@sealed\n"
        users[u] = refs + ["vr.%s.1.0" % u]
    everything = sorted(members + ["vr.Other.1.0", "vr.UseA.1.0", "vr.UseB.1.0"])
    res = []
    for lang in LANGS:
        for tpl in ({"id": "builtin"},
                    {"id": "mirror", "shape": {"lead": 0, "trail": 0, "lit": 0, "dyn": 0, "mod": False, "inc": True, "nam": False, "der": True}}):
            # the option makes the built-in C / C++ templates emit more macros derived from names
            lo = {"enable_override_variable_array_capacity": True} if lang in ("c", "cpp") and tpl["id"] == "builtin" else None
            base = {"lang": lang, "langopts": lo, "pps": {"limit": None}, "tap": True, "omit": False, "embed": False, "d": 0, "gen": "fresh", "lctx": "fresh"}
            runs = [dict(base, types=None), dict(base, types=list(reversed(everything))), dict(base, types=everything, lctx="same")]
            runs.append(dict(runs[-1], gen="same"))
            for i, m in enumerate(members):
                # alone in a fresh context; every second one then again behind the context that has just served its sibling
                runs.append(dict(base, types=[m], lctx="same" if i % 2 else "fresh"))
            runs += [dict(base, types=users["UseA"]), dict(base, types=list(reversed(users["UseB"])), lctx="same"),
                     dict(base, types=list(reversed(users["UseA"])), lctx="same"), dict(base, types=users["UseB"]),
                     dict(base, types=list(reversed(members))), dict(base, types=None, lctx="same")]
            res.append({"sid": sid0 + len(res), "kind": "canonical", "defsets": [defs], "rootns": "vr", "lookup": [], "tpl": tpl, "names": {}, "runs": runs})
            if tpl["id"] == "mirror":
                # a second interpreter answers in the opposite order: a registry that lives as long as the process is first-come
                # there too (the mirror template shows the names through the target's own filters; its runs are cheap)
                res[-1]["order_b"] = list(reversed(range(len(runs))))
    return res


# =====================================================================================================================
# Part 3 - driver, judgement
# =====================================================================================================================

SEED_B0 = 1000  # hash seeds of the second execution (phase B) start here; phase B uses a scenario's alternative run order


def execute(ctx, scenarios, seeds, tag, alt=False):
    """Distributes scenarios over worker interpreters (one PYTHONHASHSEED each); returns {sid: [events...]} and errors."""
    from ..core import MachineryFailure, NCPU, REPO, VERIF

    nw = max(1, min(NCPU, len(seeds), len(scenarios)))
    seeds = seeds[:nw]
    base = ctx.scratch / "w"
    base.mkdir(exist_ok=True)
    jobs = [[] for _ in range(nw)]
    for i, sc in enumerate(scenarios):
        jobs[i % nw].append(sc)
    procs = []
    env = dict(os.environ)
    env["PYTHONPATH"] = "%s:%s:%s" % (REPO / "src", VERIF, VERIF / ".pydeps")
    env["PYTHONDONTWRITEBYTECODE"] = "1"
    for w in range(nw):
        jf = ctx.scratch / ("job-%s-%d.json" % (tag, w))
        of = ctx.scratch / ("res-%s-%d.ndjson" % (tag, w))
        jf.write_text(json.dumps({"base": str(base), "scenarios": jobs[w], "alt": bool(alt)}))
        e = dict(env)
        e["PYTHONHASHSEED"] = str(seeds[w])
        procs.append((subprocess.Popen([sys.executable, "-m", "vf.props.c10", "--worker", str(jf), str(of)], env=e, cwd=str(VERIF),
                                       stdout=subprocess.PIPE, stderr=subprocess.STDOUT, text=True), of, jf))
    res = {}
    for p, of, jf in procs:
        out, _ = p.communicate()
        if p.returncode != 0:
            raise MachineryFailure("C10 worker failed (rc %s): %s" % (p.returncode, (out or "")[-1500:]))
        for ln in of.read_text().splitlines():
            r = json.loads(ln)
            if isinstance(r["result"], dict):
                raise MachineryFailure("scenario %s could not be executed: %s" % (r["sid"], r["result"].get("error")))
            res.setdefault(r["sid"], []).extend(finish_event(e) for e in r["result"])
        of.unlink()
        jf.unlink()
    return res


TL_FIELDS = ("id", "type", "templates", "options", "digest", "lim", "uq")


def finish_event(ev):
    """T-layer field names; `key` (python side, for grouping only) is the same triple the T-layer forms"""
    ev["type_name"] = ev["type"]
    ev["type"] = ev.pop("tkey")
    ev["key"] = _sha(json.dumps([ev["type"], ev["templates"], ev["options"]]))[:32]
    return ev


def mirror_parts(toks):
    """leading empty lines, trailing empty lines, body values per line tag (the mirror template fixes the order of the tags)"""
    i, j = 0, len(toks)
    while i < j and toks[i] == ["E"]:
        i += 1
    while j > i and toks[j - 1] == ["E"]:
        j -= 1
    body = {}
    for t in toks[i:j]:
        body.setdefault(t[0], []).append(t[1:])
    return i, len(toks) - j, body


def diff_classes(e1, e2):
    """which kinds of lines differ between two files with the same key -> list of classes (one signature each)"""
    if e1["digest"].startswith("!exc") or e2["digest"].startswith("!exc"):
        return ["exception"]
    if "toks" in e1 and "toks" in e2:
        l1, t1, b1 = mirror_parts(e1["toks"])
        l2, t2, b2 = mirror_parts(e2["toks"])
        res = []
        if (l1, t1) != (l2, t2) or b1.get("E") != b2.get("E"):
            res.append("blank-lines")
        if b1.get("L") != b2.get("L") or b1.get("D") != b2.get("D"):
            res.append("unique-names")
        elif b1.get("M") != b2.get("M"):
            res.append("unique-names:imported-module")
        if b1.get("I") != b2.get("I") or b1.get("S") != b2.get("S"):
            res.append("include-list")
        if b1.get("N") != b2.get("N"):
            res.append("identifier-stropping")
        if b1.get("C") != b2.get("C"):
            res.append("doc-comments")
        if b1.get("G") != b2.get("G"):
            res.append("derived-name")
        if b1.get("T") != b2.get("T") or b1.get("?") != b2.get("?") or not res:
            res.append("other")
        return res
    h1, h2 = e1["nh"], e2["nh"]
    res = [name for k, name in LINE_CLASSES.items() if h1.get(k) != h2.get(k)]
    if h1.get("o0") != h2.get("o0"):
        if h1.get("o1") == h2.get("o1"):
            res.append("unique-names")
        elif h1.get("o2") == h2.get("o2"):
            res.append("identifier-stropping")
        elif h1.get("o3") == h2.get("o3"):
            res += ["unique-names", "identifier-stropping"]
        elif h1.get("o4") is not None and h1.get("o4") == h2.get("o4"):
            res.append("derived-name")
        else:
            res.append("other")
    return res or ["other"]


def describe(sc, ev):
    r = sc["runs"][ev["run"]]
    return "run %d (defs %d, %s context, %s generator, omit=%s, %d listed types [0 = whole namespace]) file #%d hash seed %s" % (
        ev["run"], r["d"], r.get("lctx"), r.get("gen"), r.get("omit"), len(r["types"]) if r.get("types") else 0, ev["ord"], ev["seed"]) + (
            " [second interpreter: runs executed in the opposite order]" if sc.get("order_b") and ev["seed"] >= SEED_B0 else "")


def validate_batches(ctx, batches):
    """like tlc.validate_traces, but with caller-defined batch boundaries; counters are updated in the calling thread"""
    import concurrent.futures
    from .. import tlc
    from ..core import MachineryFailure, NCPU

    if not batches:
        return {}
    tdir = ctx.scratch / ("tr-GenSiblingsTrace-%d" % len(list(ctx.scratch.glob("tr-GenSiblingsTrace-*"))))
    tdir.mkdir()
    cfg = tlc.write_cfg(tdir / "t.cfg")
    jobs = []
    for bi, b in enumerate(batches):
        p = tdir / ("b%05d.ndjson" % bi)
        with open(p, "w") as f:
            for r in b:
                f.write(json.dumps(r, separators=(",", ":")) + "\n")
        jobs.append((p, len(b)))

    def one(job):
        return tlc.run_tlc(tlc.SPECS / "GenSiblingsTrace.tla", cfg, ctx.scratch, workers=1, timeout=1800, env={"TRACE_FILE": str(job[0])}, xmx="3g"), job

    rej = {}
    with concurrent.futures.ThreadPoolExecutor(max_workers=NCPU) as ex:
        for res, (p, n) in ex.map(one, jobs):
            if not res.ok:
                raise MachineryFailure("trace validation GenSiblingsTrace failed on %s: %s %s\n%s" % (p.name, res.error, res.violated, res.out[-3000:]))
            ctx.cov["states"] += res.distinct
            ctx.cov["transitions"] += res.generated
            nrej = 0
            for ln in res.out.splitlines():
                m = tlc._RE_REJECT.match(ln)
                if m:
                    rid = m.group(1) if m.group(1) is not None else int(m.group(2))
                    rej.setdefault(rid, m.group(3))
                    nrej += 0 if m.group(3).startswith("drift.") else 1
            ctx.validated(n - nrej)
    shutil.rmtree(tdir, ignore_errors=True)
    return rej


def judge(ctx, scen_by_sid, events_by_sid, seeds_by_sid):
    """T-layer verdicts for all events; returns (rejected {event id: clause}, events by id)."""
    from ..core import MachineryFailure

    by_id = {}
    batches, curb = [], []
    # a batch holds whole scenarios (keys never cross scenarios), so the memo of the T-layer sees every pair of a key
    for sid in sorted(events_by_sid):
        evs = events_by_sid[sid]
        if curb and len(curb) + len(evs) > ctx.pick(1500, 2500):
            batches.append(curb)
            curb = []
        for ev in evs:
            ev["id"] = len(by_id)
            by_id[ev["id"]] = ev
            curb.append({k: ev[k] for k in TL_FIELDS})
    if curb:
        batches.append(curb)
    rej = validate_batches(ctx, batches)
    first = {}
    ndrift = {}
    for i in sorted(by_id):
        ev = by_id[i]
        first.setdefault(ev["key"], ev)
        clause = rej.get(i)
        if clause is None:
            continue
        sc = scen_by_sid[ev["sid"]]
        if clause.startswith("harness"):
            raise MachineryFailure("harness produced an ill-formed record: %r" % ({k: ev[k] for k in TL_FIELDS},))
        if clause == "sib.digest":
            ref = first[ev["key"]]
            for cls in diff_classes(ref, ev):
                sig = "C10|sib.digest|%s|%s|%s" % (ev["lang"], ev["tpl"], cls)
                what = ("%s file of %s (%s templates) differs between %s and %s of one scenario [kind of lines that differ: %s]%s"
                        % (ev["lang"], ev["type_name"], ev["tpl"], describe(sc, ref), describe(sc, ev), cls,
                           (" " + (ev.get("exc") or ref.get("exc") or "")) if cls == "exception" else ""))
                case = {"scenario": sc, "seeds": sorted(set(seeds_by_sid.get(ev["sid"], [ev["seed"]]))),
                        "pair": [{k: v for k, v in e.items() if k in ("run", "ord", "type_name", "type", "digest", "seed", "toks", "lim", "uq")} for e in (ref, ev)]}
                ctx.violation(sig, what, case)
        elif clause.startswith("drift."):
            k = "%s %s/%s" % (clause, ev["lang"], ev["tpl"])
            ndrift.setdefault(k, [0, ev])
            ndrift[k][0] += 1
    for k, (n, ev) in sorted(ndrift.items()):
        ctx.drift("%s: %d files (e.g. %s of scenario %d run %d: lim=%s uq=%s)" % (k, n, ev["type_name"], ev["sid"], ev["run"],
                                                                             {x: ev["lim"][x] for x in ("n", "eb", "ea", "kept")}, ev["uq"]))
    return rej, by_id


def compare_expected(ctx, sc, evs, rej, perturb=None):
    """spec -> code: the abstract files the repaired I-model expects vs. what the real generator wrote, file by file.
    A mismatch is drift (the P verdict on the same events comes from the T-layer)."""
    mism = []
    lang = sc["runs"][0]["lang"]
    keep_inc = lang in ("c", "cpp")
    by_run = {}
    for ev in evs:
        by_run.setdefault((ev["seed"], ev["run"]), []).append(ev)
    for (seed, ri), lst in sorted(by_run.items()):
        lst.sort(key=lambda e: e["ord"])
        exp = sc["expect"][ri]
        if len(exp) != len(lst):
            mism.append((ri, None, "number of files %d, model %d" % (len(lst), len(exp))))
            continue
        for fi, ((t, out), ev) in enumerate(zip(exp, lst)):
            tname = sc.get("tname") or {}
            tn = lambda i: tname.get(i, tname.get(str(i), "mr.A%d.1.0" % i))  # noqa: E731 (keys are strings after a JSON round trip)
            # how a name is stropped / derived is the target configuration's business (C09): the I-comparison leaves N and G lines out
            want = [list(x) for x in out if (keep_inc or x[0] not in ("I", "S")) and x[0] not in ("N", "C", "G")]
            want = [["T", tn(x[1])] if x[0] == "T" else x for x in want]
            if perturb is not None and perturb == (ri, fi):
                want = want + [["E"]]
            got = [x for x in (ev.get("toks") or []) if x[0] not in ("N", "C", "G")]
            if ev["type_name"] != tn(t) or got != want:
                mism.append((ri, ev, "model expects %s, code wrote %s" % (json.dumps(want), json.dumps(got))))
    return mism


def run_model(ctx, cfg, constants, emit=False, **kw):
    """one TLC run of GenSiblings.tla; a JVM that disappears without an answer (this sandbox's OOM killer) is retried"""
    from .. import tlc
    from ..core import MachineryFailure

    res = None
    for _attempt in range(3):
        res = tlc.run_tlc(tlc.SPECS / "GenSiblings.tla", tlc.SPECS / (cfg + ".cfg"), ctx.scratch, constants=constants, xmx="3g",
                          workers=1 if emit else 8, timeout=3000, **kw)
        if res.ok:
            ctx.add_model(res, cfg + ".cfg")
            return res
        if res.error or res.violated:
            break
    raise MachineryFailure("model GenSiblings/%s did not pass: %s %s\n%s" % (cfg, res.error, res.violated, res.out[-3000:]))


def run(ctx):
    from .. import tlc
    from ..core import MachineryFailure

    # ---- 1. the bounded design: I => P for the repaired mechanisms, exhaustively -----------------------------------------
    consts = "NTypes=3 MaxRuns=%s all subsets x orders x modes{fresh,lctx,gen,proc}"
    run_model(ctx, "GenSiblings_limiter", consts % 3 + " lead,trail in 0..2 limit in {none,0,1,2}")
    run_model(ctx, "GenSiblings_uniq", consts % 3 + " lit 0..2 dyn 0..1 mod")
    run_model(ctx, ctx.pick("GenSiblings_depsq", "GenSiblings_deps"), "NTypes=%d MaxRuns=3 defsets{1,2,3} omit{F,T}" % ctx.pick(3, 4))
    run_model(ctx, "GenSiblings_docs", consts % 3 + " documentation: type 2 writes to / types 1,3 show the state of a comment filter")
    run_model(ctx, "GenSiblings_names", consts % 3 + " shared spelling of a sibling's path token and a field; words{path-clean/any-reserved,plain,keyword}")
    run_model(ctx, "GenSiblings_derived", consts % 3 + " types 1 and 2 collide under a name derivation; a registry of derived names lives on the Language object")
    if not ctx.quick:
        run_model(ctx, "GenSiblings", "NTypes=3 MaxRuns=2 mixed shapes(32) limit{none,1} defsets{1,2}")

    # ---- 2. negative controls = predicted defects: every violating history is a stimulus for the real code --------------
    sid = 0
    scen = {}
    neg_names = {"neg_limiter": "ResetLimiter=FALSE", "neg_depkey": "IdentityDepKey=FALSE", "neg_fold": "VolatileUniq=FALSE",
                 "neg_module": "FreshModule=FALSE", "neg_strop": "FullStropKey=FALSE (stropping memo keyed by spelling only)",
                 "neg_filter": "PureFilters=FALSE (a template filter keeps state between files)",
                 "neg_registry": "PureDerivedNames=FALSE (a first-come registry of derived names gives the later of two colliding types an ordinal)"}
    ctx.cov["model_negative_controls"] = {}
    pred = {}
    for cfg, flag in neg_names.items():
        res = run_model(ctx, "GenSiblings_%s" % cfg, flag + " (negative control: prints every violating history)", emit=True)
        hs = res.json_lines()
        if not hs:
            raise MachineryFailure("negative control %s: the flawed design was not refuted by TLC" % cfg)
        ctx.cov["model_negative_controls"][cfg] = "%s refuted: %d violating histories in %d states" % (flag, len(hs), res.distinct)
        step = max(1, len(hs) // ctx.pick(24, 120))
        for i, h in enumerate(hs[::step]):
            plang = {"neg_fold": ["cpp"], "neg_depkey": ["c", "cpp"], "neg_strop": ["c", "c", "cpp", "py"], "neg_filter": ["cpp", "cpp", "html", "cpp", "c", "py"]}.get(cfg, ["c", "cpp", "py", "html"])
            sc = model_scenario(sid, h, plang[i % len(plang)], "predicted:" + cfg, pairidx=i // 4)  # every target meets every confusable pair
            scen[sid] = sc
            pred[sid] = cfg
            sid += 1
            if (i % 3 == 0 and cfg in ("neg_depkey", "neg_limiter", "neg_strop", "neg_filter")) or cfg == "neg_registry":
                blang = {"neg_limiter": LANGS, "neg_strop": ["c", "c", "py", "cpp"], "neg_filter": ["cpp", "cpp", "html", "cpp", "c", "py"]}.get(cfg, ["c", "cpp"])
                scen[sid] = model_scenario(sid, h, (LANGS[i % 4] if cfg == "neg_registry" else blang[(i // 3) % len(blang)]), "predicted:" + cfg, builtin=True, pairidx=i // 4)
                sid += 1
    n_pred = sid

    # ---- 3. spec -> code: every complete history of the repaired model, with the expected abstract files ----------------
    cases = run_model(ctx, ctx.pick("GenSiblings_emitq", "GenSiblings_emit"), "MaxRuns=2 (emission, repaired model)", emit=True).json_lines()
    if len(cases) < 500:
        raise MachineryFailure("too few histories emitted: %d" % len(cases))
    step = max(1, len(cases) // ctx.pick(200, 2000))
    for i, h in enumerate(cases[::step]):
        scen[sid] = model_scenario(sid, h, LANGS[i % 4], "model")
        sid += 1
        if i % 3 == 0:
            scen[sid] = model_scenario(sid, h, LANGS[(i // 3) % 4], "model", builtin=True)
            sid += 1
    if not ctx.quick:
        sim = run_model(ctx, "GenSiblings_emitsim", "MaxRuns=4 simulation", emit=True, simulate="num=600", depth=60, seed=ctx.seed + 1).json_lines()
        seen = set()
        for h in sim:
            k = json.dumps(h, sort_keys=True)
            if k not in seen:
                seen.add(k)
                scen[sid] = model_scenario(sid, h, LANGS[sid % 4], "model")
                sid += 1
    n_model = sid - n_pred

    # ---- 4. code -> spec: canonical, fixed-seed random and VERIF_SEED random namespaces and histories ------------------------
    import random

    for sc in canonical_scenarios(sid):
        scen[sc["sid"]] = sc
        sid += 1
    for sc in canonical_spelling_scenarios(sid):
        scen[sc["sid"]] = sc
        sid += 1
    for sc in canonical_doc_scenarios(sid):
        scen[sc["sid"]] = sc
        sid += 1
    for sc in canonical_derived_scenarios(sid):
        scen[sc["sid"]] = sc
        sid += 1
    fixed = random.Random(20260926)
    n_random = ctx.pick(120, 1200)
    for i in range(n_random):
        scen[sid] = rand_scenario(ctx, sid, fixed if i < n_random // 3 else ctx.rng)
        sid += 1
    n_rand = sid - n_pred - n_model

    # ---- 5. execute: phase A one hash seed per worker, phase B a second seed for a part (cross-process comparison) ------
    all_sc = [scen[i] for i in sorted(scen)]
    seeds_a = [11 + 7 * i for i in range(16)]
    ev_a = execute(ctx, all_sc, seeds_a, "a")
    part_b = [sc for sc in all_sc if sc["sid"] % ctx.pick(5, 4) == 0 or sc.get("order_b")]
    ev_b = execute(ctx, part_b, [SEED_B0 + 3 * i for i in range(16)], "b", alt=True)
    events, seeds_by_sid = {}, {}
    for src in (ev_a, ev_b):
        for s, evs in src.items():
            events.setdefault(s, []).extend(evs)
            seeds_by_sid.setdefault(s, []).extend(sorted(set(e["seed"] for e in evs)))
    nev = sum(len(v) for v in events.values())
    ctx.count(nev)
    # vacuity: keys that were answered at least twice, by relation
    occ = {}
    for s, evs in events.items():
        for e in evs:
            occ.setdefault(e["key"], []).append(e)
    compared = {k: v for k, v in occ.items() if len(v) > 1}
    if len(compared) < 100:
        raise MachineryFailure("only %d keys were generated more than once: nothing to compare" % len(compared))
    for k, v in compared.items():
        e = v[0]
        rel = sorted(set("%s/%s" % (scen[x["sid"]]["runs"][x["run"]].get("lctx"), scen[x["sid"]]["runs"][x["run"]].get("gen")) for x in v))
        ctx.distinct("%s|%s|%s|%s" % (e["lang"], e["tpl"], ",".join(rel), k[:10]))
    allexc = [k for k, v in occ.items() if all(x["digest"].startswith("!exc") for x in v)]
    if allexc:
        e = occ[allexc[0]][0]
        raise MachineryFailure("generation failed in every history for %d keys, e.g. %s %s: %s" % (len(allexc), e["lang"], e["type_name"], e.get("exc")))

    rej, by_id = judge(ctx, scen, events, seeds_by_sid)

    # ---- 6. spec -> code comparison after every file (I-layer expectation: drift only) ------------------------------------
    p_rejected_sids = set(by_id[i]["sid"] for i, c in rej.items() if c == "sib.digest")
    ndrift, ex = 0, None
    matched_pred = {}
    for s in sorted(scen):
        sc = scen[s]
        if sc["kind"] == "model":
            mm = compare_expected(ctx, sc, events[s], rej)
            if mm and s not in p_rejected_sids:
                ndrift += 1
                ex = ex or (s, mm[0])
        elif sc["kind"].startswith("predicted:") and s in pred:
            cfg = pred[s]
            mm = compare_expected(ctx, sc, [e for e in events[s] if e["seed"] == events[s][0]["seed"]], rej)
            m = matched_pred.setdefault(cfg, [0, 0, 0])
            m[0] += 1
            m[1] += 0 if mm else 1          # the real code did exactly what the flawed model predicts
            m[2] += 1 if s in p_rejected_sids else 0
    if ndrift:
        ctx.drift("%d model histories: files differ from the repaired I-model although P holds, e.g. scenario %d %s" % (ndrift, ex[0], ex[1][2]))
    ctx.cov["predicted_defect_stimuli"] = {k: "%d histories replayed, %d reproduced the flawed model's files exactly, %d rejected by P" % tuple(v)
                                           for k, v in matched_pred.items()}

    # ---- 7. binding self-tests ----------------------------------------------------------------------------------------------
    some = next(v for k, v in sorted(compared.items()) if not v[0]["digest"].startswith("!exc"))
    quiet = {"lim": {"on": 0, "obs": 0, "n": 0, "eb": 0, "ea": 0, "step": 0, "raw": [], "kept": 0}, "uq": {"obs": 0, "ub": 0, "un": 0, "exp": 0}}
    good = dict({k: some[0][k] for k in TL_FIELDS}, id=0, **quiet)
    bad = dict(good, id=1, digest=("0" if good["digest"][0] != "0" else "1") + good["digest"][1:])
    n0 = ctx.cov["traces_validated_against_impl"]
    r = validate_batches(ctx, [[good, bad]])
    ctx.cov["traces_validated_against_impl"] = n0
    ctx.selftest("a flipped digest of a recorded genfile event is rejected by GenSiblingsTrace (sib.digest)", r.get(1) == "sib.digest" and 0 not in r)
    carry = dict(good, id=0, lim=dict(quiet["lim"], on=1, obs=1, n=1, eb=1))
    r = validate_batches(ctx, [[carry]])
    ctx.cov["traces_validated_against_impl"] = n0
    ctx.selftest("a limiter counter that is not zero at the start of a file is noticed by the I-layer clauses (drift.limiter_carry)",
                 r.get(0) == "drift.limiter_carry")
    msc = None
    for s_ in sorted(scen):
        if scen[s_]["kind"] == "model" and s_ not in p_rejected_sids and not compare_expected(ctx, scen[s_], events[s_], rej):
            msc = scen[s_]
            break
    if msc is not None:
        mm = compare_expected(ctx, msc, events[msc["sid"]], rej, perturb=(0, 0))
        ctx.selftest("a perturbed expected file of a model history is reported by the spec->code comparison", bool(mm))
    else:
        ctx.not_exercised("spec->code self-test: no model history matched the repaired I-model exactly (see model_drift)")

    # ---- evidence --------------------------------------------------------------------------------------------------------------
    smp = next(e for e in by_id.values() if e["tpl"] == "mirror" and e["lim"]["obs"])
    ctx.sample({"direction": "code->spec", "event": {k: smp[k] for k in ("sid", "run", "ord", "type", "templates", "options", "lang", "digest", "lim", "uq", "toks")}})
    smp2 = next(e for e in by_id.values() if e["tpl"] == "builtin")
    ctx.sample({"direction": "code->spec", "event": {k: smp2[k] for k in ("sid", "run", "ord", "type", "templates", "options", "lang", "digest", "lim", "uq")}})
    msamp = next(scen[s] for s in sorted(scen) if scen[s]["kind"] == "model")
    ctx.sample({"direction": "spec->code", "scenario": {k: msamp[k] for k in ("tpl", "runs", "expect")}})
    ctx.cov["scenarios"] = {"predicted_defect": n_pred, "model_histories": n_model, "canonical_and_random": n_rand, "second_hash_seed": len(part_b),
                            "genfile_events": nev, "keys_generated_more_than_once": len(compared)}
    ctx.cov["rule"] = ("one genfile event per file written for a DSDL type by the real DSDLCodeGenerator; key = (scenario directory, language+options, "
                       "template set, post-processor list, omit flag, type name+version, hash of the DSDL source of its dependency closure); "
                       "distinct = keys generated at least twice (that is where the property says something), labelled by language, template set "
                       "and the context/generator reuse modes of the runs that produced them")
    ctx.cov["exhaustive"] = False
    ctx.assumptions += [
        "TLC and the GenSiblingsP/GenSiblings/GenSiblingsTrace specifications",
        "PyDSDL as front end; the harness FilePostProcessor/LinePostProcessor/template global are passive observers",
        "gzip's clock is frozen inside the scenario interpreter and all runs of a scenario use one directory (wall clock and absolute "
        "location are C07's variables, not C10's)",
        "templates are not edited during the life of a generator object; the lru_cache (128 entries) never evicts in these namespaces",
    ]
    ctx.not_exercised("namespace files (py __init__.py, html index.html) and support files are not 'the file generated for a type': recorded, not judged")
    ctx.not_exercised("CLI (nnvg) in a fresh process: the first run of every scenario is a fresh interpreter through the API instead")


def replay(ctx, case):
    sc = case["scenario"]
    seeds = case.get("seeds") or [11]
    events, sb = {}, {}
    for i, s in enumerate(seeds):
        r = execute(ctx, [sc], [s], "r%d" % i, alt=s >= SEED_B0)
        for k, v in r.items():
            events.setdefault(k, []).extend(v)
            sb.setdefault(k, []).append(s)
    judge(ctx, {sc["sid"]: sc}, events, sb)


if __name__ == "__main__":
    if len(sys.argv) == 4 and sys.argv[1] == "--worker":
        worker_main(sys.argv[2], sys.argv[3])
        sys.exit(0)
    sys.exit("usage: python -m vf.props.c10 --worker <jobfile> <outfile>")
