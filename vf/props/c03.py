"""C03 - round trip, cross-target and cross-option agreement of the generated codecs.

Model:   WireDesign.tla theorems RoundTrip / PyAgrees (design); CodecTrace.tla clauses cross.* (a history variable `prev` holds the first outcome
         of a case: every later record of the same stimulus - other target, other option set - must agree; this clause does not consult Ser/Des)
         and rt.* (decode then re-encode inside one harness process).
code->spec: one shared list of values and byte strings driven through the full product of targets and option sets.
"""
from .. import codec

PROP = "C03"


def run(ctx):
    codec.design_model(ctx)
    types = codec.universe(ctx, ctx.pick(40, 500), ctx.pick(1, 2))
    if ctx.quick:
        types = types[::3] + types[-40:]
    specs = codec.std_specs(ctx)
    for sp in specs:
        sp["frac"] = 1.0  # every target sees every type: the property is about all pairs
    codec.mark_services(types)
    camp = codec.Campaign(ctx, types, specs, with_py=True, batch=ctx.pick(40, 60))
    camp.build()
    codec.report_gen_failures(camp, ctx, PROP)
    # values outside the declared range as well (C / C++ objects can hold them; Python is left out of those cases): saturation and truncation
    # must not depend on the option set either
    vcases = codec.value_cases(camp, ctx.rng, ctx.pick(1, 4), ctx.pick(1, 3), n_boundary=ctx.pick(3, 8))
    vcases = [c for c in vcases if c["klass"] != "invalid"]
    out = camp.ser_events(vcases)
    valid = {}
    for c in vcases:
        r = out.get((c["case"], "c/any"))
        if r and r["err"] == "none":
            valid.setdefault(c["ti"], []).append(bytes(r["bytes"]))
    dcases, rcases = [], []
    for ti, t in enumerate(camp.types):
        maxb = codec.dsdl.max_bits_body(t) // 8
        bs = codec.byte_strings(ctx.rng, valid.get(ti, []), maxb, ctx.pick(2, 6), False, evolve=lambda enc, t=t: codec.dsdl.evolve(t, enc, ctx.rng, limit=3))
        for data, why in bs:
            if why in ("valid", "random", "bitflip", "extended", "empty") or ctx.rng.random() < 0.5:
                dcases.append({"ti": ti, "data": data, "why": why, "case": camp.new_case(), "null": why == "null", "priors": (0,)})
            if why in ("valid", "random", "bitflip", "truncated") and ctx.rng.random() < 0.7:
                rcases.append({"ti": ti, "data": data, "why": why, "case": camp.new_case(), "priors": (0,)})
    crashes = list(out.get("crash", []))
    crashes += camp.des_events(dcases).get("crash", [])
    crashes += camp.des_events(rcases, op="R").get("crash", [])
    # a call that does not return (abort of a generated assertion, crash) on ONE target / option set while the same stimulus is processed by the
    # others: the outcome depends on the target or on an option documented as an optimisation / packaging choice
    for info, r in crashes:
        t = camp.types[info["ti"]]
        info = dict(info, descr=t, type=codec.dsdl.shape(t))
        case = {k: v for k, v in info.items()}
        case["spec"] = next((sp for sp in camp.specs if sp["name"] == info["target"]), None)
        case["report"] = r.get("crash", "")[-800:]
        ctx.violation(codec.signature(PROP, "cross.noret", info), "the call did not return on %s while the other targets / option sets process the same stimulus: %s"
                      % (info["target"], (r.get("crash", "").strip().splitlines() or ["(no message)"])[-1][:200]), case)
    ctx.cov["calls_without_return"] = len(crashes)
    rej = camp.judge()
    # des(ser(v)) = Cast(v): a decoding failure on a valid encoding also breaks the round trip
    # a per-record clause (wrong bytes / value / result) that rejects the record of ONE option set while the base option set of the same language
    # processed the same stimulus as specified is a dependence on the option: this property's business, whoever owns the clause otherwise
    case_of = {r["id"]: r["case"] for r in camp.records}
    by_case = {}
    for r in camp.records:
        by_case.setdefault(r["case"], {})[camp.stim[r["id"]]["target"]] = r["id"]
    base = {"c": "c/any", "cpp": "cpp/c++14"}

    def option_dependent(rid):
        tgt = camp.stim[rid]["target"]
        b = base.get(codec.target_kind(tgt))
        bid = by_case.get(case_of[rid], {}).get(b)
        return b is not None and tgt != b and bid is not None and bid not in rej

    own_ids = {rid for rid in rej if option_dependent(rid)}
    codec.report(camp, ctx, rej, PROP, also=lambda clause, info: (clause.startswith("des.") and info.get("why") == "valid") or info.get("rid") in own_ids)
    codec.count_distinct(camp, ctx)
    codec.selftest_cross(ctx, camp)
    r = next(x for x in camp.records if x["ev"] == "rt")
    ctx.sample({"record": {k: r[k] for k in r if k != "t"}, "type": camp.describe(r["id"])["type"], "target": camp.stim[r["id"]]["target"]})
    ctx.cov["pairs"] = "all records of a case are compared with the first one: %d targets/option sets" % (len(specs) + 1)
    ctx.cov["rule"] = ("shared stimuli (values in the range every target can hold; byte strings: valid, bit-flipped, extended, random, some truncated) through "
                       "C x{any, little+asserts, big}, C++ x{14, 17, 17-pmr, 20+little+asserts}, Python; decode->re-encode chains; "
                       "distinct = (event, target, type shape, construction, stimulus hash)")
    ctx.assumptions += ["cross clauses are oracle-free; rt.* and per-record clauses use DsdlWire", "float narrowing results may differ in the last bit between targets when inexact "
                        "(excluded from cross.bytes by the spec-computed `det` flag)"]


def replay(ctx, case):
    codec.replay_generic(ctx, case, PROP)
