"""C14 - support-library bit primitives.

Model:   specs/BitPrims.tla: I-layer = the byte-wise nunavutCopyBits / nunavutGetBits algorithm as a state machine, P-layer (BitPrimsP.tla) =
         pointwise contracts; TLC checks I = P exhaustively (offsets 0..9/15, lengths 0..17/20, 3-symbol buffers).
code->spec: grids of (offset, length, size, contents, value) through C (any, little), C++ bitspan/const_bitspan and the Python Serializer /
         Deserializer; half-precision: all 65536 halves through unpack and unpack->pack, float32->half on every exponent x rounding boundary
         + random, monotonicity on sorted neighbours; every call is a record judged by specs/BitPrimsTrace.tla.
"""
import concurrent.futures
import struct

from .. import lemmas, tlc
from ..core import MachineryFailure, NCPU
from ..harness_prims import NativePrims, PyPrims

PROP = "C14"
GUARD = 4


def hexl(b):
    return " ".join("%x" % x for x in b)


def fill(rng, n, style):
    if style == 0:
        return [0] * n
    if style == 1:
        return [0xFF] * n
    if style == 2:
        return [0xA5, 0x5A, 0x3C][:1] * n if n < 3 else ([0xA5, 0x5A, 0x3C] * n)[:n]
    return [rng.getrandbits(8) for _ in range(n)]


def gen_cases(ctx, rng):
    """(record-without-observation, command line) pairs for the native drivers"""
    q = ctx.quick
    cases = []
    offs = list(range(0, 24)) if not q else [0, 1, 3, 7, 8, 9, 13, 16, 23]
    lens = (list(range(0, 18)) + [23, 24, 25, 31, 32, 33, 47, 48, 49, 63, 64, 65, 79, 80]) if not q else [0, 1, 2, 7, 8, 9, 15, 16, 17, 31, 33, 64, 65, 80]
    # copy
    for so in offs:
        for do in offs:
            for ln in (lens if not q else lens[::2] + [5]):
                if q and (so * 7 + do * 3 + ln) % 3:
                    continue
                sn = (so + ln + 7) // 8 + 1
                dn = (do + ln + 7) // 8 + 1
                for style in ((2, 3) if q else (0, 1, 2, 3)):
                    src = fill(rng, sn, 3 if style != 1 else 1)
                    dst = fill(rng, dn, style)
                    cases.append(({"ev": "copy", "dst": dst, "do": do, "len": ln, "src": src, "so": so},
                                  "C %%x %x %x %x %x %x %s %s" % (dn, do, ln, sn, so, hexl(dst), hexl(src))))
    # copy into / out of TIGHT buffers (the fragment ends exactly at the end of the allocation), in both allocation orders of the two buffers
    for so in offs[::2]:
        for do in offs[::3]:
            for ln in (8 - do % 8, 16 - do % 8, 8, 17, (8 - so % 8)):
                sn = (so + ln + 7) // 8
                dn = (do + ln + 7) // 8
                if sn == 0 or dn == 0:
                    continue
                src = fill(rng, sn, 3)
                dst = fill(rng, dn, 2)
                for op in ("C", "c"):
                    cases.append(({"ev": "copy", "dst": dst, "do": do, "len": ln, "src": src, "so": so},
                                  "%s %%x %x %x %x %x %x %s %s" % (op, dn, do, ln, sn, so, hexl(dst), hexl(src))))
    # single-bit fetch: inside, in the first byte past the end (zero extension: must not look at the byte behind the buffer), far beyond, empty buffer
    for off in (range(0, 41) if not q else list(range(0, 18)) + [23, 24, 31, 32, 39]):
        for size in sorted({off // 8, off // 8 + 1, 0, max(off // 8 - 1, 0)}):
            phys = max(size, off // 8 + 1) + GUARD
            buf = fill(rng, phys, 1 if (off + size) % 2 else 3)
            cases.append(({"ev": "getu", "W": 8, "buf": buf, "size": size, "off": off, "len": 1, "prim": "getbit"}, "b %%x %x %x %x %s" % (phys, size, off, hexl(buf))))
    # getbits: declared size smaller than what off+len addresses (zero extension), output poisoned
    for off in offs:
        for ln in lens:
            for size in ({0, 1, 2, (off + ln) // 8, (off + ln + 7) // 8, (off + ln) // 8 + 2} if not q else {0, 2, (off + ln + 7) // 8}):
                on = (ln + 7) // 8 + 2
                phys = max(size, (off + ln + 7) // 8) + 2
                buf = fill(rng, phys, 3)
                out0 = fill(rng, on, 1 if (off + ln) % 2 else 2)
                cases.append(({"ev": "getbits", "out0": out0, "buf": buf, "size": size, "off": off, "len": ln},
                              "G %%x %x %x %x %x %x %s %s" % (on, phys, size, off, ln, hexl(out0), hexl(buf))))
    # set unsigned / signed / bit
    widths = range(0, 66) if not q else [0, 1, 2, 7, 8, 9, 16, 17, 31, 32, 33, 63, 64, 65]
    for off in (offs if not q else offs[::2]):
        for ln in widths:
            need = (off + ln + 7) // 8
            for size in {need, max(need - 1, 0), need + 1, 0}:
                for v in ((0, (1 << 64) - 1, rng.getrandbits(64), 1 << max(min(ln, 64) - 1, 0)) if not q else ((1 << 64) - 1, rng.getrandbits(64))):
                    phys = max(size, need) + GUARD
                    buf = fill(rng, phys, rng.choice([0, 1, 3]))
                    sg = rng.random() < 0.5
                    cases.append(({"ev": "setu", "buf": buf, "size": size, "off": off, "len": ln, "val": list(struct.pack("<Q", v)), "kinds": True},
                                  "%s %%x %x %x %x %x %x %s" % ("I" if sg else "U", phys, size, off, ln, v, hexl(buf))))
        for size in {off // 8, off // 8 + 1, 0}:
            for bit in (0, 1):
                phys = max(size, off // 8 + 1) + GUARD
                buf = fill(rng, phys, rng.choice([0, 1, 3]))
                cases.append(({"ev": "setbit", "buf": buf, "size": size, "off": off, "bit": bit}, "B %%x %x %x %x %x %s" % (phys, size, off, bit, hexl(buf))))
    # get unsigned / signed / bit
    for W in (8, 16, 32, 64):
        for off in (offs if not q else offs[::2]):
            for ln in ([x for x in widths if x <= W + 1] if not q else [x for x in widths if x <= W + 1][::2] + [W]):
                need = (off + ln + 7) // 8
                for size in {need, max(need - 1, 0), need // 2, 0, need + 1}:
                    phys = max(size, need) + GUARD
                    for style in ((1, 3) if not q else (3,)):
                        buf = fill(rng, phys, style)
                        for sg in (0, 1):
                            cases.append(({"ev": "geti" if sg else "getu", "W": W, "buf": buf, "size": size, "off": off, "len": ln},
                                          "g %%x %x %x %x %x %x %x %s" % (W, sg, phys, size, off, ln, hexl(buf))))
    # floats through buffers
    for W in (16, 32, 64):
        for off in (offs if not q else offs[::3]):
            need = (off + W + 7) // 8
            for size in {need, max(need - 1, 0), need + 1, 0}:
                phys = max(size, need) + GUARD
                buf = fill(rng, phys, 3)
                pat = rng.getrandbits(64 if W == 64 else 32)
                if rng.random() < 0.3:
                    pat = rng.choice([0x7F800000, 0xFF800000, 0x7FC00000, 0x477FE000, 0x477FF000, 0x33800000, 0x00000001]) if W != 64 else rng.choice([0x7FF0000000000000, 0x7FF8000000000001, 0])
                cases.append(({"ev": "setf", "W": W, "buf": buf, "size": size, "off": off, "f": list(struct.pack("<Q" if W == 64 else "<I", pat))},
                              "F %%x %x %x %x %x %x %s" % (W, phys, size, off, pat, hexl(buf))))
                cases.append(({"ev": "getf", "W": W, "buf": buf, "size": size, "off": off}, "f %%x %x %x %x %x %s" % (W, phys, size, off, hexl(buf))))
    # half precision: every half through unpack and unpack->pack; float32 -> half on boundaries
    halves = range(0, 65536) if not q else list(range(0, 65536, 7)) + [0x7C00, 0xFC00, 0x7E00, 0x7C01, 0x03FF, 0x0400, 0x0001, 0x8000, 0x7BFF]
    for h in halves:
        cases.append(({"ev": "unpack", "h": [h & 255, h >> 8]}, "Q %%x %x" % h))
    f32s = set()
    for e in range(0, 256):
        for kept in (0, 1, 0x1FF, 0x200, 0x3FE, 0x3FF):
            for dropped in (0, 1, 0xFFF, 0x1000, 0x1001, 0x1FFF):
                if q and (e * 31 + kept + dropped) % 5:
                    continue
                f32s.add((e << 23) | (kept << 13) | dropped)
    for p in (0x7F800000, 0x7F800001, 0x7F800FFF, 0x7FC00000, 0x7FFFFFFF, 0x7F801000, 0x477FE000, 0x477FEFFF, 0x477FF000, 0x47800000, 0x33000000, 0x33000001,
              0x32FFFFFF, 0x33800000, 0x387FC000, 0x387FE000, 0x38800000, 0):
        f32s.add(p)
    for _ in range(ctx.pick(3000, 100000)):
        f32s.add(rng.getrandbits(31))
    f32s = sorted(f32s)
    for p in f32s:
        for s in (0, 0x80000000):
            cases.append(({"ev": "pack", "f": list(struct.pack("<I", p | s))}, "P %%x %x" % (p | s)))
    return cases, f32s


def run(ctx):
    rng = ctx.rng
    # 0. unbounded arithmetic lemmas about SatBits / PadUp / bits2bytes (TLA+ proof system), in the background
    lemma_job = concurrent.futures.ThreadPoolExecutor(max_workers=1).submit(lemmas.run_arith, ctx)
    # 1. design: the byte-wise algorithm refines the pointwise contract
    tlc.check_model(ctx, "BitPrims", ctx.pick("BitPrims", "BitPrims_2"), constants="Level=%d (offsets 0..%d, lengths 0..%d)" % (ctx.pick(1, 2), ctx.pick(9, 15), ctx.pick(17, 20)), timeout=3000)
    # 2. drivers from the current tree
    natives = [NativePrims(ctx.scratch, "c", {}, "c_any"), NativePrims(ctx.scratch, "c", {"target_endianness": "little"}, "c_little"),
               NativePrims(ctx.scratch, "cpp", {}, "cpp"),
               # the same libraries with their assertions switched on (NUNAVUT_ASSERT = assert): an assertion that fires on a call the contract
               # defines is a call without a result
               NativePrims(ctx.scratch, "c", {"enable_serialization_asserts": True, "target_endianness": "little"}, "c_little_asserts"),
               NativePrims(ctx.scratch, "cpp", {"enable_serialization_asserts": True}, "cpp_asserts")]
    if not ctx.quick:
        natives += [NativePrims(ctx.scratch, "c", {}, "c_any_asan", sanitize=True), NativePrims(ctx.scratch, "cpp", {"target_endianness": "little"}, "cpp_little_asan", sanitize=True)]
    # the same C library with a pointer watch in a scratch copy of the generated header (bounded fetches only)
    watch = NativePrims(ctx.scratch, "c", {}, "c_any_watch", watch=True)
    if watch.watching:
        natives.append(watch)
    else:
        ctx.not_exercised("pointer watch: the statement that forms the source pointer in nunavutCopyBits was not found in the generated header "
                          "(prim.ptr_inside is decided by the model BitPrims!PtrInside only)")
    neg = tlc.run_tlc(tlc.SPECS / "BitPrims.tla", tlc.SPECS / "BitPrims_neg_ptr.cfg", ctx.scratch)
    if neg.violated != "PtrInside":
        raise MachineryFailure("negative control BitPrims_neg_ptr (fetch that always calls the copy) was not refuted by PtrInside")
    ctx.cov["bitprims_negative_control"] = "GuardEmpty=FALSE refuted by PtrInside"
    cases, f32s = gen_cases(ctx, rng)
    records = []
    stim = {}
    nid = [0]

    def add(rec, target, line, pyop=None):
        if target == "py":
            rec = py_prefix(rec)
        nid[0] += 1
        rec = dict(rec, id=nid[0])
        records.append(rec)
        stim[nid[0]] = {"target": target, "cmd": line, "ev": rec["ev"], "pyop": pyop}
        ctx.count()
        key = (rec["ev"], target, rec.get("off", rec.get("do")), rec.get("len"), rec.get("size"), rec.get("W"))
        ctx.distinct("|".join(map(str, key)) + "|" + str(hash(line) % 9973), nontrivial=rec.get("len", 1) != 0)

    def run_native(nt):
        cmds = [(i, line % i) for i, (_, line) in enumerate(cases)]
        return nt, nt.run(cmds)

    with concurrent.futures.ThreadPoolExecutor(max_workers=NCPU) as ex:
        results = list(ex.map(run_native, natives))
    packed = {}
    for nt, res in results:
        for i, (rec, line) in enumerate(cases):
            if nt.name.endswith("_watch") and rec["ev"] not in ("getbits", "getu", "geti", "getf"):
                continue
            r = res.get(i)
            if r is None or "crash" in r:
                ctx.violation("C14|%s|prim.noret|%s" % (nt.name.split("_")[0], rec["ev"]), "primitive call did not return on %s: %s" % (nt.name, (r or {}).get("crash", "")[:300]),
                              {"target": nt.name, "cmd": line % i, "ev": rec["ev"]})
                continue
            rec2 = dict(rec)
            ev = rec["ev"]
            if ev in ("copy", "getbits"):
                rec2["out"] = list(bytes.fromhex(r["out"]))
            elif ev in ("setu", "setbit", "setf"):
                rec2["rc"] = r["rc"]
                rec2["out"] = list(bytes.fromhex(r["out"]))
            elif ev in ("getu", "geti", "getf"):
                rec2["val"] = list(bytes.fromhex(r["val"]))
            if "psrc" in r:
                rec2["psrc"] = r["psrc"]
            elif ev == "unpack":
                rec2["f"] = list(bytes.fromhex(r["f"]))
                add({"ev": "rt16", "h": rec["h"], "h2": list(bytes.fromhex(r["h2"]))}, nt.name, line % i)
            elif ev == "pack":
                rec2["h"] = list(bytes.fromhex(r["h"]))
                packed[(nt.name, struct.unpack("<I", bytes(rec["f"]))[0])] = rec2["h"]
            add(rec2, nt.name, line % i)
        # monotonicity over the sorted positive inputs (and mirrored negatives)
        prev = None
        for p in f32s:
            if p > 0x7F800000:
                continue
            if prev is not None:
                for s in (0, 0x80000000):
                    a, b = (prev | s, p | s) if s == 0 else (p | s, prev | s)
                    ha, hb = packed.get((nt.name, a)), packed.get((nt.name, b))
                    if ha is not None and hb is not None:
                        add({"ev": "mono", "a": list(struct.pack("<I", a)), "b": list(struct.pack("<I", b)), "ha": ha, "hb": hb}, nt.name, "mono %x %x" % (a, b))
            prev = p
    # 3. Python support library: a primitive that raises on a call the contract defines is a call without a result (prim.noret)
    py = PyPrims(ctx)
    for rec, cmd in py_stimuli(rng, ctx.quick):
        try:
            add(py_exec(py, rec), "py", cmd, rec["py"])
        except Exception as ex:  # pylint: disable=broad-except
            ctx.violation("C14|py|prim.noret|%s" % rec["ev"], "the Python primitive raised %s: %s on %s" % (type(ex).__name__, str(ex)[:200], cmd),
                          {"target": "py", "cmd": cmd, "ev": rec["ev"], "record": rec})
    # 4. judge
    rej = tlc.validate_traces(ctx, "BitPrimsTrace", records, batch=ctx.pick(4000, 8000))
    for rid, clause in sorted(rej.items()):
        info = stim[rid]
        if clause.startswith("harness"):
            raise MachineryFailure("bad record %r" % info)
        if clause == "prim.ptr_inside":  # undefined behaviour is C04's clause: `./check C04` runs pointer_watch() and decides it
            ctx.cov.setdefault("clauses_owned_by_other_checks", {}).setdefault("prim.ptr_inside (C04)", 0)
            ctx.cov["clauses_owned_by_other_checks"]["prim.ptr_inside (C04)"] += 1
            continue
        rec = next(r for r in records if r["id"] == rid)
        if info.get("pyop"):
            rec = dict(rec, py=info["pyop"])
        ctx.violation("C14|%s|%s|%s" % (info["target"].split("_")[0], clause, info["ev"]), "%s on %s: %s" % (clause, info["target"], info["cmd"][:200]),
                      {"target": info["target"], "cmd": info["cmd"], "ev": info["ev"], "record": rec})
    # binding self-test
    ok = next(r for r in records if r["ev"] == "copy" and r["len"] > 3)
    bad = dict(ok, id=0, out=[ok["out"][0] ^ 1] + ok["out"][1:])
    before = ctx.cov["traces_validated_against_impl"]
    rj = tlc.validate_traces(ctx, "BitPrimsTrace", [bad])
    ctx.cov["traces_validated_against_impl"] = before
    ctx.selftest("a corrupted copy result is rejected by BitPrimsTrace", rj.get(0) == "prim.copy")
    ctx.sample({"target": stim[ok["id"]]["target"], "record": ok})
    r2 = next(r for r in records if r["ev"] == "pack")
    ctx.sample({"target": stim[r2["id"]]["target"], "record": r2})
    ctx.cov["rule"] = ("grids: copy src_off x dst_off x len; getbits off x len x declared size; set/get of 0..65 bits at offsets 0..23 with sizes need-1/need/need+1/0 "
                       "(guard bytes are part of the compared memory); floats through buffers; %d halves through unpack and unpack->pack; %d float32 patterns (every "
                       "exponent x kept-mantissa boundary x dropped-bits boundary + random) x both signs through pack; monotonicity on sorted neighbours; "
                       "targets C any, C little, C++ bitspan (+ASan builds in thorough), Python; distinct = (event, target, offset, length, size, width, command hash)"
                       % (len([c for c in cases if c[0]["ev"] == "unpack"]), len(f32s)))
    ctx.cov["exhaustive"] = False
    nproved = lemma_job.result()
    if nproved:
        ctx.cov["obligations"] = ctx.cov["discharged"] = nproved
        ctx.cov["unbounded_lemmas"] = "ArithLemmas.tla: %d proof obligations discharged by tlapm (SatBits / PadUp / bits2bytes for all naturals)" % nproved
    ctx.assumptions += ["TLC + BitPrimsP/Ieee specs are the oracle", "the property's sweep over all 2^32 float32 values is replaced by the structured boundary set + random (DESIGN §7)"]


def pointer_watch(ctx, prop):
    """C04: the bounded fetches of the C support library never form a pointer beyond one-past-the-end of the declared buffer.  Model:
    BitPrims!PtrInside (negative control: the fetch that always calls the copy).  Code: a scratch copy of the generated header reports the source
    pointer of the aligned copy branch where it is formed; every fetch of the C14 grid is one record judged by BitPrimsTrace (prim.ptr_inside)."""
    neg = tlc.run_tlc(tlc.SPECS / "BitPrims.tla", tlc.SPECS / "BitPrims_neg_ptr.cfg", ctx.scratch)
    if neg.violated != "PtrInside":
        raise MachineryFailure("negative control BitPrims_neg_ptr was not refuted by PtrInside")
    tlc.check_model(ctx, "BitPrims", "BitPrims", constants="Level=1 GuardEmpty=TRUE (PtrInside)", timeout=3000)
    watch = NativePrims(ctx.scratch, "c", {}, "c_any_watch", watch=True)
    if not watch.watching:
        ctx.not_exercised("pointer watch: the statement that forms the source pointer in nunavutCopyBits was not found in the generated header")
        return
    cases, _ = gen_cases(ctx, ctx.rng)
    picked = [(i, rec, line) for i, (rec, line) in enumerate(cases) if rec["ev"] in ("getbits", "getu", "geti", "getf")]
    res = watch.run([(i, line % i) for i, _, line in picked])
    records, cmd = [], {}
    for i, rec, line in picked:
        r = res.get(i)
        if r is None or "crash" in r or "psrc" not in r:
            continue
        rec2 = dict(rec, id=i, psrc=r["psrc"])
        if rec["ev"] == "getbits":
            rec2["out"] = list(bytes.fromhex(r["out"]))
        else:
            rec2["val"] = list(bytes.fromhex(r["val"]))
        records.append(rec2)
        cmd[i] = line % i
        ctx.count()
        ctx.distinct("ptrwatch|%s|%s|%s|%s" % (rec["ev"], rec["off"], rec.get("len"), rec["size"]), nontrivial=rec["off"] // 8 >= rec["size"])
    rej = tlc.validate_traces(ctx, "BitPrimsTrace", records, batch=4000)
    for rid, clause in sorted(rej.items()):
        if clause != "prim.ptr_inside":
            continue  # value clauses are C14's
        rec = next(r for r in records if r["id"] == rid)
        ctx.violation("%s|c|prim.ptr_inside|%s" % (prop, rec["ev"]),
                      "a bounded fetch (%s, declared size %d bytes, offset %d bits, %s bits) formed a source pointer %d bytes from the start of the buffer"
                      % (rec["ev"], rec["size"], rec["off"], rec.get("len", rec.get("W")), rec["psrc"]),
                      {"kind": "primwatch", "cmd": cmd[rid], "ev": rec["ev"], "record": rec})
    ctx.cov["pointer_watch_fetches"] = len(records)


def replay_pointer_watch(ctx, case, prop):
    watch = NativePrims(ctx.scratch, "c", {}, "c_any_watch", watch=True)
    if not watch.watching:
        raise MachineryFailure("pointer watch cannot be installed on this tree")
    r = next(iter(watch.run([(1, case["cmd"])]).values()), {})  # the command line carries its own id
    if "psrc" not in r:
        raise MachineryFailure("the fetch did not report")
    rec = dict(case["record"], id=1, psrc=r["psrc"])
    if tlc.validate_traces(ctx, "BitPrimsTrace", [rec]).get(1) == "prim.ptr_inside":
        ctx.violation("%s|c|prim.ptr_inside|%s" % (prop, case["ev"]), "source pointer formed %d bytes from the start of a %d-byte buffer" % (r["psrc"], rec["size"]), case)


def py_stimuli(rng, quick):
    """(record without its observed part, label) for the Python support library; py_exec fills in what the real code returns"""
    res = []
    for off in ([0, 1, 3, 8, 13, 16] if quick else range(0, 24)):
        for ln in ([1, 2, 7, 8, 9, 16, 17, 32, 33, 63, 64] if quick else range(1, 65)):
            size = (off + ln + 7) // 8 + 1
            v = rng.getrandbits(ln)
            res.append(({"ev": "setu", "buf": [0] * size, "size": size, "off": off, "len": ln, "val": list(struct.pack("<Q", v)), "rc": "none", "kinds": False, "py": ["set_int", v, False]},
                        "set_int u %d %d %d" % (off, ln, v)))
            if ln >= 2:
                sv = v - (1 << ln) if v >> (ln - 1) else v
                res.append(({"ev": "setu", "buf": [0] * size, "size": size, "off": off, "len": ln, "val": list(struct.pack("<Q", sv & ((1 << 64) - 1))), "rc": "none", "kinds": False,
                             "py": ["set_int", sv, True]}, "set_int s %d %d %d" % (off, ln, sv)))
                # generated code hands over array elements as NumPy scalars of the storage type (int8 for int7 ...): same contract
                nsv = -(1 << (ln - 1)) if v & 1 else sv
                res.append(({"ev": "setu", "buf": [0] * size, "size": size, "off": off, "len": ln, "val": list(struct.pack("<Q", nsv & ((1 << 64) - 1))), "rc": "none", "kinds": False,
                             "py": ["set_int", nsv, True, "np"]}, "set_int s(np) %d %d %d" % (off, ln, nsv)))
                res.append(({"ev": "setu", "buf": [0] * size, "size": size, "off": off, "len": ln, "val": list(struct.pack("<Q", v)), "rc": "none", "kinds": False,
                             "py": ["set_int", v, False, "np"]}, "set_int u(np) %d %d %d" % (off, ln, v)))
            # declared sizes: enough, short by two, empty, ending inside / right before the field, ending one and two bytes before an ALIGNED fetch starts
            for dsize in sorted({size, max(size - 2, 0), 0, (off + ln) // 8, max(off // 8 - 1, 0), max(off // 8 - 2, 0)}):
                data = bytes(rng.getrandbits(8) for _ in range(dsize))
                res.append(({"ev": "getu", "W": 64, "buf": list(data), "size": dsize, "off": off, "len": ln, "py": ["get_int", False]}, "get_int u %d %d %s" % (off, ln, data.hex())))
                if ln >= 2:
                    res.append(({"ev": "geti", "W": 64, "buf": list(data), "size": dsize, "off": off, "len": ln, "py": ["get_int", True]}, "get_int s %d %d %s" % (off, ln, data.hex())))
        for W in (16, 32, 64):
            size = (off + W + 7) // 8 + 1
            pat = rng.getrandbits(W)
            x = struct.unpack({16: "<e", 32: "<f", 64: "<d"}[W], pat.to_bytes(W // 8, "little"))[0]
            if x == x:
                # the value handed over is exactly representable: the written pattern must be the same number
                res.append(({"ev": "setf", "W": W, "buf": [0] * size, "size": size, "off": off, "f": list(struct.pack("<d" if W == 64 else "<f", x)), "rc": "none", "py": ["set_float", x]},
                            "set_float %d %d %r" % (off, W, x)))
            for dsize in sorted({size, 0, (off + W) // 8 - 1 if (off + W) // 8 else 0, max(off // 8 - 1, 0)}):
                data = bytes(rng.getrandbits(8) for _ in range(dsize))
                res.append(({"ev": "getf", "W": W, "buf": list(data), "size": dsize, "off": off, "py": ["get_float"]}, "get_float %d %d %s" % (off, W, data.hex())))
        for n in (1, 3, 8, 11, 19):
            bits = [rng.getrandbits(1) for _ in range(n)]
            size = (off + n + 7) // 8 + 1
            val = sum(b << i for i, b in enumerate(bits))
            res.append(({"ev": "setu", "buf": [0] * size, "size": size, "off": off, "len": n, "val": list(struct.pack("<Q", val)), "rc": "none", "kinds": False, "py": ["set_bits", bits]},
                        "set_bits %d %r" % (off, bits)))
            for dsize in sorted({size, 1, 0, max(off // 8 - 1, 0)}):
                data = bytes(rng.getrandbits(8) for _ in range(dsize))
                res.append(({"ev": "getu", "W": 64, "buf": list(data), "size": len(data), "off": off, "len": n, "py": ["get_bits"]}, "get_bits %d %d %s" % (off, n, data.hex())))
    return res


def py_prefix(rec):
    """Serializer.buffer exposes the written prefix only: compare that region (it must still hold the addressed range)"""
    if rec["ev"] in ("setu", "setf") and "out" in rec and len(rec["out"]) != len(rec["buf"]):
        return dict(rec, buf=rec["buf"][:len(rec["out"])], size=len(rec["out"]))
    return rec


def py_exec(py, rec):
    """run one Python primitive stimulus on the real support library; returns the completed record (exceptions propagate)"""
    r = {k: v for k, v in rec.items() if k != "py"}
    op = rec["py"]
    data = bytes(rec["buf"])
    if op[0] == "set_int":
        val = op[1]
        if len(op) > 3 and op[3] == "np":
            import numpy

            w = next(x for x in (8, 16, 32, 64) if x >= rec["len"])
            val = getattr(numpy, ("int%d" if op[2] else "uint%d") % w)(val)
        r["out"] = list(py.set_int(rec["size"], rec["off"], val, rec["len"], op[2]))
    elif op[0] == "set_float":
        r["out"] = list(py.set_float(rec["size"], rec["off"], rec["W"], op[1]))
    elif op[0] == "set_bits":
        r["out"] = list(py.set_bits(rec["size"], rec["off"], op[1]))
    elif op[0] == "get_int":
        got = py.get_int(data, rec["off"], rec["len"], op[1])
        r["val"] = list(struct.pack("<q" if op[1] else "<Q", got))
    elif op[0] == "get_float":
        got = py.get_float(data, rec["off"], rec["W"])
        r["val"] = list(struct.pack("<d" if rec["W"] == 64 else "<f", got))
    elif op[0] == "get_bits":
        got = py.get_bits(data, rec["off"], rec["len"])
        r["val"] = list(struct.pack("<Q", sum(b << i for i, b in enumerate(got))))
    else:
        raise MachineryFailure("unknown python primitive stimulus %r" % (op,))
    return r


def replay(ctx, case):
    """re-run one primitive command on the named target"""
    name = case["target"]
    if name == "py":
        rec = dict(case["record"])
        if "py" not in rec:
            raise MachineryFailure("this replay file predates the replayable Python stimuli: re-run ./check C14")
        try:
            done = py_exec(PyPrims(ctx), rec)
        except Exception as ex:  # pylint: disable=broad-except
            ctx.violation("C14|py|prim.noret|%s" % case["ev"], "the Python primitive raised %s: %s" % (type(ex).__name__, str(ex)[:200]), case)
            return
        done = py_prefix(done)
        done["id"] = 1
        for rid, clause in tlc.validate_traces(ctx, "BitPrimsTrace", [done]).items():
            ctx.violation("C14|py|%s|%s" % (clause, case["ev"]), "%s on py" % clause, case)
        return
    lang = "cpp" if name.startswith("cpp") else "c"
    opts = {"target_endianness": "little"} if "little" in name else {}
    if "asserts" in name:
        opts["enable_serialization_asserts"] = True
    nt = NativePrims(ctx.scratch, lang, opts, name.replace("_asan", ""), sanitize="asan" in name)
    res = nt.run([(1, case["cmd"])])
    r = res.get(1, {"crash": "no output"})
    if "crash" in r:
        ctx.violation("C14|%s|prim.noret|%s" % (name.split("_")[0], case["ev"]), "primitive call did not return", case)
        return
    rec = dict(case["record"])
    for k in ("out", "val", "h", "f"):
        if k in r and k in rec and not (case["ev"] in ("pack",) and k == "f") and not (case["ev"] in ("setf",) and k == "f"):
            rec[k] = list(bytes.fromhex(r[k]))
    if "rc" in r:
        rec["rc"] = r["rc"]
    rec["id"] = 1
    rej = tlc.validate_traces(ctx, "BitPrimsTrace", [rec])
    for rid, clause in rej.items():
        ctx.violation("C14|%s|%s|%s" % (name.split("_")[0], clause, case["ev"]), "%s on %s" % (clause, name), case)


# ---- the Python support library's Serializer / Deserializer as an object with a history (specs/PySupport*.tla, vf/pysupport.py): call histories on one
# object, forks, every fragmentation of the input, zero extension, judged by TLC step by step
from ..pysupport import CLAUSES as PYSUP_CLAUSES, replay_pysupport, run_pysupport  # noqa: E402

PYSUP_OWNER = {c: "C14" for c in PYSUP_CLAUSES}
_run_own, _replay_own = run, replay


def run(ctx):  # noqa: F811
    _run_own(ctx)
    run_pysupport(ctx, PYSUP_OWNER)


def replay(ctx, case):  # noqa: F811
    if case.get("mode") == "history":
        return replay_pysupport(ctx, case, PYSUP_OWNER)
    return _replay_own(ctx, case)
